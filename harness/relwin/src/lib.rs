//! See Cargo.toml / build.rs. `current` = src/window.rs of the ironbeam working tree the harness links (serde lines
//! removed); `legacy` = the vendored pre-fix text `harness/chkwin/legacy_window.rs` (`rel = ts - offset_ms`).
//! This one file is the library of BOTH helper crates: `relwin` (release arithmetic) and `chkwin` (overflow checks
//! and debug assertions on) — see the `[profile.dev.package.*]` sections of ../Cargo.toml.
#![allow(dead_code, unused_imports, clippy::all)]

pub mod current {
    include!(concat!(env!("OUT_DIR"), "/current.rs"));
}
pub mod legacy {
    include!(concat!(env!("OUT_DIR"), "/legacy.rs"));
}
/// false = src/window.rs could not be compiled stand-alone (`current` is a panicking stub); see `CURRENT_REASON`
pub const CURRENT_AVAILABLE: bool = include!(concat!(env!("OUT_DIR"), "/current_available.rs"));
pub const CURRENT_REASON: &str = include!(concat!(env!("OUT_DIR"), "/current_reason.rs"));
/// false = the vendored pre-fix text is missing / not the pre-fix text / does not compile (`legacy` is a stub)
pub const LEGACY_AVAILABLE: bool = include!(concat!(env!("OUT_DIR"), "/legacy_available.rs"));
pub const LEGACY_REASON: &str = include!(concat!(env!("OUT_DIR"), "/legacy_reason.rs"));
/// where the vendored text comes from (recorded in the header of harness/chkwin/legacy_window.rs)
pub const LEGACY_ORIGIN: &str = "src/window.rs at dfa2e3374cfa (parent of the fix commit a2578065dcd1), vendored as harness/chkwin/legacy_window.rs";
