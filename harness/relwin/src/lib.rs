//! See Cargo.toml. `current` = src/window.rs of the ironbeam working tree the harness links;
//! `legacy` = src/window.rs of the parent of the commit that introduced the offset reduction
//! (`let off = offset_ms % size_ms;`), when the repo's git history is available.
#![allow(dead_code, unused_imports, clippy::all)]

pub mod current {
    include!(concat!(env!("OUT_DIR"), "/current.rs"));
}
pub mod legacy {
    include!(concat!(env!("OUT_DIR"), "/legacy.rs"));
}
/// false = the pre-fix revision could not be extracted (no git / no history); `legacy` is then a copy of `current`
pub const LEGACY_AVAILABLE: bool = include!(concat!(env!("OUT_DIR"), "/legacy_available.rs"));
/// the commit whose parent supplied `legacy` (empty when unavailable)
pub const LEGACY_PARENT_OF: &str = include!(concat!(env!("OUT_DIR"), "/legacy_commit.rs"));
/// false = src/window.rs refers to crate-internal items and could not be compiled standalone (`current` is a stub)
pub const CURRENT_AVAILABLE: bool = include!(concat!(env!("OUT_DIR"), "/current_available.rs"));
