// C13: puts two texts into OUT_DIR so that lib.rs can `include!` them:
//   current.rs — ironbeam's src/window.rs of the working tree the harness links (the checkout named by the
//                `ironbeam = { path = "…" }` line of the harness manifest), with its serde lines removed;
//   legacy.rs  — the VENDORED pre-fix text `harness/chkwin/legacy_window.rs` (checked in; origin recorded in its
//                header). No `git` is involved.
// Either text is first PROBE-COMPILED on its own with `$RUSTC` (std only, type-check only). A text that is missing
// or does not compile stand-alone (it started to refer to crate-internal items, another dependency, a changed
// `tumble` signature, …) is replaced by an API-compatible stub, `*_AVAILABLE` is false and `*_REASON` says why:
// the harness (which all twenty checks share) still BUILDS, and harness/src/c13.rs reports the theorems that
// depend on the missing copy as NOT VALIDATED — loudly (note + counters), never silently.
use std::{env, fs, path::{Path, PathBuf}, process::Command};

/// module-level `//!` docs are not allowed inside `include!`; turn them into plain comments
fn strip_inner_docs(src: &str) -> String {
    src.lines().map(|l| if l.trim_start().starts_with("//!") { l.replacen("//!", "// ", 1) } else { l.to_string() })
        .collect::<Vec<_>>().join("\n") + "\n"
}

/// remove the only external dependency of src/window.rs (serde): `use serde…;` lines and the `Serialize` /
/// `Deserialize` entries of single-line `#[derive(…)]` lists. Anything else that needs serde (`#[serde(…)]`,
/// a multi-line derive) is left alone and makes the probe fail → the copy is reported unavailable.
fn strip_serde(src: &str) -> String {
    let mut out = String::new();
    for l in src.lines() {
        let t = l.trim_start();
        if t.starts_with("use serde") && t.trim_end().ends_with(';') {
            out.push_str("// (serde import removed by harness/relwin/build.rs)\n");
            continue;
        }
        if t.starts_with("#[derive(") && t.trim_end().ends_with(")]") {
            let indent = &l[..l.len() - t.len()];
            let inner = &t.trim_end()["#[derive(".len()..t.trim_end().len() - 2];
            let kept: Vec<&str> = inner.split(',').map(str::trim)
                .filter(|x| !x.is_empty() && !matches!(x.rsplit("::").next().unwrap_or(""), "Serialize" | "Deserialize")).collect();
            if kept.is_empty() { out.push_str(indent); out.push_str("// (serde derive removed)\n"); }
            else { out.push_str(&format!("{indent}#[derive({})]\n", kept.join(", "))); }
            continue;
        }
        out.push_str(l);
        out.push('\n');
    }
    out
}

/// type-check `text` as the body of a module, plus the calls c13.rs makes; Ok(()) or the first error line
fn probe(out: &Path, name: &str, text: &str) -> Result<(), String> {
    let file = out.join(format!("probe_{name}.rs"));
    let src = format!(
        "#![allow(warnings)]\npub mod m {{\n{text}\n}}\npub fn probe(ts: u64, size: u64, off: u64) -> (u64, u64) {{\n    let w = m::Window::tumble(ts, size, off);\n    let n = m::Window::new(w.start, w.end);\n    (n.start, n.end)\n}}\n");
    fs::write(&file, src).map_err(|e| format!("cannot write probe: {e}"))?;
    let rustc = env::var("RUSTC").unwrap_or_else(|_| "rustc".into());
    let o = Command::new(rustc)
        .args(["--edition=2024", "--crate-type=lib", "--emit=metadata", "--cap-lints=allow", "--crate-name"]).arg(format!("probe_{name}"))
        .arg("--out-dir").arg(out).arg(&file)
        .output().map_err(|e| format!("cannot run rustc for the stand-alone probe: {e}"))?;
    if o.status.success() { return Ok(()); }
    let err = String::from_utf8_lossy(&o.stderr);
    let first = err.lines().find(|l| l.starts_with("error")).unwrap_or("rustc failed").to_string();
    Err(format!("does not compile stand-alone: {first}"))
}

const STUB: &str = "#[derive(Copy, Clone, Debug)]\npub struct Window { pub start: u64, pub end: u64 }\nimpl Window {\n    pub fn new(_start: u64, _end: u64) -> Self { panic!(\"window.rs copy unavailable\") }\n    pub fn tumble(_ts: u64, _size_ms: u64, _offset_ms: u64) -> Self { panic!(\"window.rs copy unavailable\") }\n}\n";

fn emit(out: &Path, name: &str, text: Result<String, String>) {
    let checked = text.and_then(|t| probe(out, name, &t).map(|()| t));
    let (body, avail, reason) = match checked { Ok(t) => (t, "true", String::new()), Err(why) => (STUB.to_string(), "false", why) };
    fs::write(out.join(format!("{name}.rs")), body).unwrap();
    fs::write(out.join(format!("{name}_available.rs")), avail).unwrap();
    fs::write(out.join(format!("{name}_reason.rs")), format!("{reason:?}")).unwrap();
    if !reason.is_empty() {
        println!("cargo:warning=C13 `{name}` source copy unavailable ({reason}); the theorems validated through it will be reported as NOT VALIDATED");
    }
}

fn main() {
    let here = PathBuf::from(env::var("CARGO_MANIFEST_DIR").unwrap());
    let out = PathBuf::from(env::var("OUT_DIR").unwrap());
    let harness = here.join("..");
    let manifest = harness.join("Cargo.toml");
    println!("cargo:rerun-if-changed={}", manifest.display());
    println!("cargo:rerun-if-changed={}", here.join("..").join("relwin").join("build.rs").display());

    // ---- current text: <repo>/src/window.rs; <repo> = the `path` of the `ironbeam` dependency (a relative path is
    // relative to the harness manifest, as cargo reads it)
    let current = (|| -> Result<String, String> {
        let text = fs::read_to_string(&manifest).map_err(|e| format!("cannot read the harness manifest: {e}"))?;
        let line = text.lines().map(str::trim_start).find(|l| l.starts_with("ironbeam") && !l.starts_with('#') && l.contains("path"))
            .ok_or("no `ironbeam = { path = … }` line in the harness manifest")?;
        let after = &line[line.find("path").unwrap()..];
        let q1 = after.find('"').ok_or("unquoted ironbeam path")?;
        let q2 = after[q1 + 1..].find('"').ok_or("unquoted ironbeam path")?;
        let mut repo = PathBuf::from(&after[q1 + 1..q1 + 1 + q2]);
        if repo.is_relative() { repo = harness.join(repo); }
        let win = repo.join("src").join("window.rs");
        println!("cargo:rerun-if-changed={}", win.display());
        let cur = fs::read_to_string(&win).map_err(|e| format!("cannot read {}: {e}", win.display()))?;
        Ok(strip_serde(&strip_inner_docs(&cur)))
    })();
    emit(&out, "current", current);

    // ---- legacy text: vendored, checked in
    let vend = harness.join("chkwin").join("legacy_window.rs");
    println!("cargo:rerun-if-changed={}", vend.display());
    let legacy = fs::read_to_string(&vend).map_err(|e| format!("vendored pre-fix text {} is missing: {e}", vend.display()))
        .and_then(|t| {
            // it must really be the pre-fix code: no offset reduction before the subtraction
            if t.contains("offset_ms % size_ms") || !t.contains("let rel = ts - offset_ms;") {
                Err("the vendored file is not the pre-fix text (`let rel = ts - offset_ms;` expected, no `offset_ms % size_ms`)".to_string())
            } else { Ok(strip_inner_docs(&t)) }
        });
    emit(&out, "legacy", legacy);
}
