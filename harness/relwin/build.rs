// Copies ironbeam's src/window.rs (and its pre-fix revision) into OUT_DIR so that lib.rs can `include!` it.
// The ironbeam checkout is the one named by the `ironbeam = { path = "…" }` line of the harness manifest.
use std::{env, fs, path::PathBuf, process::Command};

/// module-level `//!` docs are not allowed inside `include!`; turn them into plain comments
fn strip_inner_docs(src: &str) -> String {
    src.lines().map(|l| if l.trim_start().starts_with("//!") { l.replacen("//!", "// ", 1) } else { l.to_string() })
        .collect::<Vec<_>>().join("\n") + "\n"
}

fn main() {
    let here = PathBuf::from(env::var("CARGO_MANIFEST_DIR").unwrap());
    let out = PathBuf::from(env::var("OUT_DIR").unwrap());
    let manifest = here.join("..").join("Cargo.toml");
    println!("cargo:rerun-if-changed={}", manifest.display());
    let text = fs::read_to_string(&manifest).expect("harness Cargo.toml");
    let line = text.lines().find(|l| l.trim_start().starts_with("ironbeam") && l.contains("path")).expect("ironbeam path dependency");
    let after = &line[line.find("path").unwrap()..];
    let q1 = after.find('"').unwrap();
    let q2 = after[q1 + 1..].find('"').unwrap();
    let repo = PathBuf::from(&after[q1 + 1..q1 + 1 + q2]);
    let win = repo.join("src").join("window.rs");
    println!("cargo:rerun-if-changed={}", win.display());
    println!("cargo:rerun-if-changed={}", repo.join(".git").join("HEAD").display());
    let cur = fs::read_to_string(&win).expect("src/window.rs");
    // The copy is compiled OUTSIDE the ironbeam crate: if the file refers to crate-internal items it cannot be
    // compiled standalone. Fall back to an API-compatible stub then, so that the whole harness (all twenty
    // checks share it) still builds; c13 sees CURRENT_AVAILABLE = false and skips the textual-copy cases.
    let standalone = !cur.contains("crate::") && !cur.contains("super::") && cur.contains("pub struct Window") && cur.contains("pub fn tumble");
    const STUB: &str = "pub struct Window { pub start: u64, pub end: u64 }\nimpl Window { pub fn tumble(_ts: u64, _size_ms: u64, _offset_ms: u64) -> Self { panic!(\"window.rs copy unavailable\") } }\n";
    fs::write(out.join("current.rs"), if standalone { strip_inner_docs(&cur) } else { STUB.to_string() }).unwrap();
    fs::write(out.join("current_available.rs"), if standalone { "true" } else { "false" }).unwrap();

    // the commit that introduced the offset reduction; its parent is the pinned (pre-fix) code
    let git = |args: &[&str]| -> Option<String> {
        let o = Command::new("git").arg("-C").arg(&repo).args(args).output().ok()?;
        if o.status.success() { Some(String::from_utf8_lossy(&o.stdout).into_owned()) } else { None }
    };
    let legacy = (|| {
        let log = git(&["log", "--format=%H", "--reverse", "-Slet off = offset_ms % size_ms;", "--", "src/window.rs"])?;
        let h = log.lines().next()?.trim().to_string();
        if h.is_empty() { return None; }
        let src = git(&["show", &format!("{h}^:src/window.rs")])?;
        if src.contains("offset_ms % size_ms") || !src.contains("fn tumble") { return None; }
        Some((h, src))
    })();
    match legacy {
        Some((h, src)) => {
            fs::write(out.join("legacy.rs"), strip_inner_docs(&src)).unwrap();
            fs::write(out.join("legacy_available.rs"), "true").unwrap();
            fs::write(out.join("legacy_commit.rs"), format!("{h:?}")).unwrap();
        }
        None => {
            fs::write(out.join("legacy.rs"), strip_inner_docs(&cur)).unwrap();
            fs::write(out.join("legacy_available.rs"), "false").unwrap();
            fs::write(out.join("legacy_commit.rs"), "\"\"").unwrap();
        }
    }
}
