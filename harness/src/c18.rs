//! C18 — cloud operation helpers behave correctly under every sequence of failures.
//!
//! Real side: the real `retry_with_backoff`, `with_timeout`, `batch_in_chunks`, `paginate` and the
//! wrappers of `helpers::cloud` driven by *scripted closures* (a closure that answers the next
//! outcome of a script, counts its calls, records its arguments and the `Instant`s of its entry and exit).
//! Back-off delays are observed twice: through the `verif_hooks::on_sleep` callback (the value of `delay_ms`)
//! and on the real clock (the gap between the exit of one call and the entry of the next).
//!
//! Requests (see `lean/IbModel/Driver/D18.lean` for the grammar):
//!   RETRY <raw|run|cio|tr|ciotr|bld|exe> max=<n|-> init= cap= mult=<f64 bits> lim=<ms|-> d=<ms> s=<script>
//!   BATCH <raw|run> n=<items> size=<s> par=<0|1> f=<script>
//!   PAGE <raw|run|cio> psize=<k> max=<m|-> p=<script>
//!   TIMEOUT lim=<ms> el=<ms> r=<ok|Kind>
//!   IOBATCH max= init= cap= mult= n=<items> s=<script>
//!   PARALLEL s=<script>
//!   CONTEXT name=<token> pre=<acts> ops=<acts> r=<ok|Kind>
//!
//! Oracles (independent of the Lean model; they restate the property on the observed calls):
//! attempt count = min(1 + index of first Ok/permanent outcome, max(1,budget)); no call after a
//! terminal outcome; returned outcome = outcome of the last call (value for value); every wait after
//! the first <= cap (number and exact values of the waits: model correspondence only); the per-item batch
//! calls the operation for exactly the items the property replayed on the script demands (each item until
//! it succeeds / fails permanently / used its budget, in order, nothing after the first failing item);
//! chunks handed to the processor are non-empty,
//! <= max(size,1), concatenate to a prefix of the items / all items, stop at the first failing
//! chunk (for `BatchConfig.parallel` false AND true); pages are concatenated up to the first empty / final
//! page / page limit, errors pass through; an Ok result that overran its limit is a Timeout error;
//! `run_parallel` invokes the operations in order up to the first failing one; `run_with_context` calls the
//! operation once and returns the context as the operation left it.
//!
//! REAL TIME — design rule: no verdict of this file depends on the machine being fast.
//! * The reported waits (hook values) are tied to the real clock in every run that sleeps:
//!   `gap_i >= hook_i` (`thread::sleep` never returns early) — signature `retry-real-wait-shorter-than-reported`.
//! * The cap clause on the real clock is judged in one dedicated block (`wait block`: cap 2 ms, 63 waits per
//!   run, every retry wrapper and the per-item batch): a single wait after the first may not exceed
//!   cap + 200 ms, and the SHORTEST of the >= 20 waits of a run may not exceed cap + 15 ms (nor the shortest of
//!   as many plain `thread::sleep(cap)` calls measured by the harness right afterwards + 15 ms; the floor of
//!   many waits is insensitive to scheduling noise, which only ever delays single wake-ups) — signature
//!   `retry-real-wait-exceeds-cap`.
//! * Every timing verdict is CONFIRMED BY RE-EXECUTION: the whole case is run again (6 executions for the wait
//!   verdicts, 8 for the timeout verdicts, with a growing pause in between) and the verdict is reported only
//!   if it reproduces in every execution. Otherwise it is counted (`timing:*`) and mentioned in the notes.
//! * Timed cases use the nominal clock (scripted call durations + recorded waits) for the model. The real
//!   clock only ever runs later, so only ONE direction can be disturbed by a slow machine: a nominally-within
//!   run that reports `Timeout`. Such a run is repeated; if it reports `Timeout` in all 8 executions it is
//!   classified by what the scripted closure itself observed: when the operation (first entry to last exit)
//!   really lasted up to the limit every time, the case is judged by the real clock only, kept away from the
//!   model and counted — a NOTE in the evidence, never a failure; when the operation finished well inside the
//!   limit every time and the wrapper still said `Timeout` (the time was lost outside the closure, 8 of 8
//!   times), that is the deterministic failure `timeout-spurious`.

use crate::ctx::{Ctx, Tier, guarded};
use ironbeam::helpers::cloud::{
    BatchConfig, CloudIOExecutor, OperationBuilder, OperationContext, run_batch_operation, run_cloud_io_batch,
    run_cloud_io_paginated, run_cloud_io_with_retry, run_cloud_io_with_retry_and_timeout,
    run_paginated_operation, run_parallel, run_with_context, run_with_retry, run_with_timeout_and_retry,
};
use ironbeam::io::cloud::traits::{CloudIOError, CloudResult, ErrorKind};
use ironbeam::io::cloud::utils::{
    PaginationConfig, RetryConfig, batch_in_chunks, paginate, retry_with_backoff, with_timeout,
};
use std::cell::{Cell, RefCell};
use std::sync::{Arc, Mutex, Once};
use std::time::{Duration, Instant};

// ---------------------------------------------------------------------------------------------
// error kinds
// ---------------------------------------------------------------------------------------------

/// Every variant of `ErrorKind`, in declaration order. The `match` in `kind_index` has no wildcard,
/// so a variant added to the real enum stops the harness from compiling (check broken, exit 2)
/// instead of being silently ignored.
fn all_kinds() -> Vec<ErrorKind> {
    vec![
        ErrorKind::Authentication,
        ErrorKind::Authorization,
        ErrorKind::NotFound,
        ErrorKind::AlreadyExists,
        ErrorKind::InvalidInput,
        ErrorKind::Network,
        ErrorKind::Timeout,
        ErrorKind::ServiceUnavailable,
        ErrorKind::RateLimited,
        ErrorKind::InternalError,
        ErrorKind::Other,
    ]
}
fn kind_index(k: &ErrorKind) -> usize {
    match k {
        ErrorKind::Authentication => 0,
        ErrorKind::Authorization => 1,
        ErrorKind::NotFound => 2,
        ErrorKind::AlreadyExists => 3,
        ErrorKind::InvalidInput => 4,
        ErrorKind::Network => 5,
        ErrorKind::Timeout => 6,
        ErrorKind::ServiceUnavailable => 7,
        ErrorKind::RateLimited => 8,
        ErrorKind::InternalError => 9,
        ErrorKind::Other => 10,
    }
}
fn kind_name(i: usize) -> String {
    format!("{:?}", all_kinds()[i])
}
/// The property's (documented) notion of a transient failure — the ORACLE's table, deliberately not
/// read from the code: "network issues, timeouts, service unavailable, rate limiting".
const SPEC_TRANSIENT: [usize; 4] = [5, 6, 7, 8];
fn spec_transient(k: usize) -> bool {
    SPEC_TRANSIENT.contains(&k)
}

// ---------------------------------------------------------------------------------------------
// sleep recorder (verif_hooks::on_sleep)
// ---------------------------------------------------------------------------------------------

// The recorder is thread-local: `on_sleep` is called on the thread that runs `retry_with_backoff`, so the
// blocks that run real (non-zero) sleeps on several threads at once each see only their own delays.
thread_local! {
    static SLEEPS: RefCell<Vec<u64>> = const { RefCell::new(Vec::new()) };
}
static INSTALL: Once = Once::new();
fn install_sleep_hook() {
    INSTALL.call_once(|| {
        ironbeam::verif_hooks::set_sleep_callback(Some(Arc::new(|ms| {
            SLEEPS.with(|s| s.borrow_mut().push(ms));
        })));
    });
}
fn take_sleeps() -> Vec<u64> {
    SLEEPS.with(|s| std::mem::take(&mut *s.borrow_mut()))
}

/// Translator route: which kinds does the RUNNING `retry_with_backoff` retry? Probed behaviourally:
/// an operation that always fails with kind k, budget 2, is called twice iff k is retried.
pub fn tables(out: &mut String) {
    install_sleep_hook();
    let kinds = all_kinds();
    let names: Vec<String> = kinds.iter().map(|k| format!("\"{k:?}\"")).collect();
    let mut transient: Vec<String> = vec![];
    for k in &kinds {
        let cfg = RetryConfig { max_attempts: 2, initial_delay_ms: 0, max_delay_ms: 0, backoff_multiplier: 1.0 };
        let mut calls = 0u32;
        let _ = retry_with_backoff(&cfg, || -> CloudResult<()> {
            calls += 1;
            Err(CloudIOError::new(k.clone(), "probe"))
        });
        if calls >= 2 {
            transient.push((k.clone() as u8).to_string());
        }
    }
    take_sleeps();
    out.push_str("/-- C18: `traits.rs::ErrorKind` variants in declaration order (`format!(\"{:?}\")`) -/\n");
    out.push_str(&format!("def errorKindNames : List String := [{}]\n", names.join(", ")));
    out.push_str("/-- C18: `kind as u8` of the kinds the running `retry_with_backoff` retries (an always-failing\n    operation with budget 2 is called twice) -/\n");
    out.push_str(&format!("def transientKinds : List Nat := [{}]\n\n", transient.join(", ")));
}

// ---------------------------------------------------------------------------------------------
// scripted operation
// ---------------------------------------------------------------------------------------------

#[derive(Clone, Copy, PartialEq, Eq, Debug)]
enum Oc {
    Ok,
    Err(usize),
}
impl Oc {
    fn tok(&self) -> String {
        match self {
            Oc::Ok => "ok".into(),
            Oc::Err(k) => kind_name(*k),
        }
    }
    /// success or permanent error, by the property's table
    fn terminal(&self) -> bool {
        match self {
            Oc::Ok => true,
            Oc::Err(k) => !spec_transient(*k),
        }
    }
}
fn script_str(s: &[Oc]) -> String {
    if s.is_empty() { "-".into() } else { s.iter().map(Oc::tok).collect::<Vec<_>>().join(",") }
}
fn ofail(cx: &mut Ctx, i: usize, sig: &str, detail: String) {
    cx.oracle_fail(i, sig, brief(detail));
}
/// details of oracle failures are for reading: keep them short
fn brief(s: String) -> String {
    if s.len() <= 400 { s } else { let mut t: String = s.chars().take(380).collect(); t.push_str(" ...(truncated)"); t }
}
fn nats(v: &[u64]) -> String {
    if v.is_empty() { "-".into() } else { v.iter().map(|x| x.to_string()).collect::<Vec<_>>().join(",") }
}

struct Scripted {
    script: Vec<Oc>,
    calls: Cell<usize>,
    exhausted: Cell<bool>,
    d_ms: u64,
    /// real clock: (entry, exit) of every call
    stamps: RefCell<Vec<(Instant, Instant)>>,
}
impl Scripted {
    fn new(script: &[Oc], d_ms: u64) -> Self {
        Scripted { script: script.to_vec(), calls: Cell::new(0), exhausted: Cell::new(false), d_ms, stamps: RefCell::new(Vec::new()) }
    }
    fn call(&self) -> CloudResult<u64> {
        let t_in = Instant::now();
        let i = self.calls.get();
        self.calls.set(i + 1);
        if self.d_ms > 0 {
            std::thread::sleep(Duration::from_millis(self.d_ms));
        }
        let r = match self.script.get(i) {
            None => {
                self.exhausted.set(true);
                Err(CloudIOError::new(ErrorKind::Other, "exhausted"))
            }
            Some(Oc::Ok) => Ok(i as u64),
            Some(Oc::Err(k)) => Err(CloudIOError::new(all_kinds()[*k].clone(), format!("e{i}"))),
        };
        self.stamps.borrow_mut().push((t_in, Instant::now()));
        r
    }
    /// real waits between consecutive calls: exit of call i -> entry of call i+1
    fn gaps(&self) -> Vec<Duration> {
        let st = self.stamps.borrow();
        st.windows(2).map(|w| w[1].0.saturating_duration_since(w[0].1)).collect()
    }
    /// what the closure itself saw of the real clock: entry of the first call -> exit of the last one
    fn span(&self) -> Duration {
        let st = self.stamps.borrow();
        match (st.first(), st.last()) {
            (Some(a), Some(b)) => b.1.saturating_duration_since(a.0),
            _ => Duration::ZERO,
        }
    }
}

// ---------------------------------------------------------------------------------------------
// real-clock verdicts (always confirmed by re-execution before they are reported)
// ---------------------------------------------------------------------------------------------

/// single wait after the first: cap + this much is a failure (if it reproduces)
const WAIT_SLACK: Duration = Duration::from_millis(200);
/// shortest of >= FLOOR_MIN_WAITS waits of one run: cap + this much is a failure (if it reproduces and the
/// harness's own `thread::sleep(cap)` is not just as late)
const FLOOR_MARGIN: Duration = Duration::from_millis(15);
const FLOOR_MIN_WAITS: usize = 20;
/// executions of a case whose wait verdict must ALL show the verdict before it is reported
const WAIT_CONFIRM: usize = 6;
const SIG_SHORT: &str = "retry-real-wait-shorter-than-reported";
const SIG_LONG: &str = "retry-real-wait-exceeds-cap";
const K_WAIT_RERUN: &str = "timing:wait-verdict-rerun(confirmation by re-execution)";
const K_WAIT_CLEARED: &str = "timing:wait-verdict-not-reproduced(machine noise, dropped)";
const K_GAPS_CHECKED: &str = "timing:real-waits-measured(gap >= reported wait)";
const K_CAP_CHECKED: &str = "timing:real-waits-measured(cap clause: single wait <= cap+200ms, floor <= cap+15ms)";

/// shortest of `k` plain `thread::sleep(ms)` calls, measured like the gaps are (the machine's own lateness now)
fn control_floor(ms: u64, k: usize) -> Duration {
    (0..k.max(1)).map(|_| {
        let t = Instant::now();
        std::thread::sleep(Duration::from_millis(ms));
        t.elapsed()
    }).min().unwrap_or(Duration::ZERO)
}

/// One real-clock verdict of ONE execution: signature, the indices of the offending waits (`FLOOR` for the
/// statistic over all waits of the run), detail.
type WaitVerdict = (&'static str, Vec<usize>, String);
const FLOOR: usize = usize::MAX;

/// Real-clock verdicts of ONE execution. `waits[i] = (real gap, reported wait in ms)`, in order.
/// `full`: also the cap clause (the property: "waits between attempts never exceed the configured cap once
/// backed off" — every wait after the first).
fn wait_verdicts(waits: &[(Duration, u64)], cap: u64, full: bool) -> Vec<WaitVerdict> {
    let mut v: Vec<WaitVerdict> = vec![];
    let short: Vec<usize> = waits.iter().enumerate().filter(|(_, (g, h))| *g < Duration::from_millis(*h)).map(|(i, _)| i).collect();
    if let Some(&i) = short.first() {
        let (g, h) = waits[i];
        v.push((SIG_SHORT, short, format!("wait {i}: {h} ms reported to the sleep hook, the next attempt started after {g:?}")));
    }
    if full {
        let capd = Duration::from_millis(cap);
        let long: Vec<usize> = waits.iter().enumerate().skip(1).filter(|(_, (g, _))| *g > capd + WAIT_SLACK).map(|(i, _)| i).collect();
        if let Some(&i) = long.first() {
            v.push((SIG_LONG, long, format!("wait {i} lasted {:?}, cap {cap} ms (+ {WAIT_SLACK:?} allowance)", waits[i].0)));
        } else if waits.len() > FLOOR_MIN_WAITS {
            let floor = waits.iter().skip(1).map(|(g, _)| *g).min().unwrap();
            if floor > capd + FLOOR_MARGIN {
                let ctl = control_floor(cap, waits.len() - 1);
                if floor > ctl + FLOOR_MARGIN {
                    v.push((SIG_LONG, vec![FLOOR], format!(
                        "the shortest of {} waits after the first lasted {floor:?}, cap {cap} ms (the shortest of as many thread::sleep({cap} ms) of the harness: {ctl:?})",
                        waits.len() - 1)));
                }
            }
        }
    }
    v
}

/// Confirmation state of the wait verdicts of one case across its executions. A verdict stands only while the
/// SAME wait (same index; or the floor statistic) is at fault in every execution: scheduling noise delays a
/// different wake-up each time, a defect in the code delays the same one.
struct Confirm {
    runs: usize,
    standing: Vec<WaitVerdict>,
}
impl Confirm {
    fn new() -> Self { Confirm { runs: 0, standing: vec![] } }
    /// feed the verdicts of one more execution; `true` = run the case again
    fn again(&mut self, v: Vec<WaitVerdict>, counts: &mut Vec<String>) -> bool {
        self.runs += 1;
        if self.runs == 1 {
            self.standing = v;
        } else {
            let prev = std::mem::take(&mut self.standing);
            for (sig, idx, detail) in v {
                let common: Vec<usize> = idx.into_iter()
                    .filter(|i| prev.iter().any(|(p, pi, _)| *p == sig && pi.contains(i)))
                    .collect();
                if let Some(&i) = common.first() {
                    let detail = if i == FLOOR { detail } else { format!("{detail}; wait {i} at fault in every execution") };
                    self.standing.push((sig, common, detail));
                }
            }
            if self.standing.is_empty() { counts.push(K_WAIT_CLEARED.into()); }
        }
        if self.standing.is_empty() || self.runs >= WAIT_CONFIRM { return false; }
        counts.push(K_WAIT_RERUN.into());
        std::thread::sleep(Duration::from_millis(40 * self.runs as u64));
        true
    }
    fn into_fails(self) -> Vec<(&'static str, String)> {
        let n = self.runs;
        self.standing.into_iter().map(|(s, _, d)| (s, format!("{d}; reproduced in {n} of {n} executions"))).collect()
    }
}

/// canonical form of an error: `ERR:<Kind>:<tag>` — tag = the index the scripted closure put in the
/// message, `T` for the error `with_timeout` makes up
fn err_str(e: &CloudIOError) -> String {
    let tag = if let Some(rest) = e.message.strip_prefix('e') {
        if !rest.is_empty() && rest.chars().all(|c| c.is_ascii_digit()) { rest.to_string() } else { "?".into() }
    } else if e.message.starts_with("Operation exceeded timeout") {
        "T".into()
    } else {
        "?".into()
    };
    format!("ERR:{:?}:{}", e.kind, tag)
}
fn res_str(r: &CloudResult<u64>) -> String {
    match r {
        Ok(v) => format!("OK:{v}"),
        Err(e) => err_str(e),
    }
}
fn list_res_str(r: &CloudResult<Vec<u64>>) -> String {
    match r {
        Ok(v) => format!("OK:{}", nats(v)),
        Err(e) => err_str(e),
    }
}

#[derive(Clone, Copy)]
struct RCfg {
    max: u32,
    init: u64,
    cap: u64,
    mult: f64,
}
impl RCfg {
    fn real(&self) -> RetryConfig {
        RetryConfig { max_attempts: self.max, initial_delay_ms: self.init, max_delay_ms: self.cap, backoff_multiplier: self.mult }
    }
}
fn cfg_str(rc: Option<RCfg>) -> String {
    match rc {
        Some(c) => format!("max={} init={} cap={} mult={}", c.max, c.init, c.cap, c.mult.to_bits()),
        None => "max=- init=0 cap=0 mult=0".into(),
    }
}

const W_RETRY_ONLY: [&str; 3] = ["raw", "run", "cio"];

/// What one run of the real code produced, judged by the oracle, not yet registered in the `Ctx`
/// (so that runs can be made on worker threads and registered afterwards in generation order).
struct Rec {
    /// `None`: no case to register (only the counters)
    case: Option<(String, String, bool)>,
    fails: Vec<(&'static str, String)>,
    counts: Vec<String>,
    /// must not be compared with the model (judged by the real clock only)
    oracle_only: bool,
}
fn emit(cx: &mut Ctx, rec: Rec, to_model: bool, oracle_only_label: &str) {
    for c in &rec.counts { cx.count(c); }
    let Some((req, answer, nt)) = rec.case else { return };
    if (to_model && !rec.oracle_only) || !rec.fails.is_empty() {
        let i = cx.case(req, answer, nt);
        for (sig, detail) in rec.fails { ofail(cx, i, sig, detail); }
    } else {
        cx.count(oracle_only_label);
    }
}

/// A timed case is *near its limit* when the nominal clock (scripted call durations + recorded sleeps) is
/// below the limit by at most this much: only those can be disturbed by a slow machine.
const NEAR_LIMIT_MS: u64 = 1_000;
const TIMING_TRIES: usize = 8;
const K_NEAR: &str = "timing:near-limit-cases(nominally within a limit <= 1 s away)";
const K_RERUN: &str = "timing:rerun(nominally within its limit, reported Timeout)";
const K_UNSTABLE: &str = "timing:slow-machine(Timeout in all 8 executions while the operation itself lasted up to the limit; judged by the real clock only, not sent to the model)";
const K_AMBIG: &str = "timing:nominal-equals-limit(generator artefact, skipped)";
/// once one case has shown the deterministic `timeout-spurious`, later cases are confirmed with 2 executions
static SPURIOUS_CONFIRMED: std::sync::atomic::AtomicBool = std::sync::atomic::AtomicBool::new(false);
fn timing_tries() -> usize {
    if SPURIOUS_CONFIRMED.load(std::sync::atomic::Ordering::Relaxed) { 2 } else { TIMING_TRIES }
}

/// How a nominally-within execution that reported `Timeout` looked from inside the scripted closure.
#[derive(Default)]
struct TimeoutRuns {
    /// the operation itself (first entry .. last exit) lasted up to the limit (minus 1 ms): the machine was slow
    slow_operation: usize,
    /// the operation finished inside the limit and the wrapper still reported Timeout
    lost_outside: usize,
    last_span: Duration,
}
enum TimeoutVerdict { Rerun, RealClockOnly, Spurious(String) }
impl TimeoutRuns {
    fn feed(&mut self, span: Duration, limit_ms: u64, counts: &mut Vec<String>) -> TimeoutVerdict {
        self.last_span = span;
        if span + Duration::from_millis(1) >= Duration::from_millis(limit_ms) { self.slow_operation += 1; } else { self.lost_outside += 1; }
        let tries = self.slow_operation + self.lost_outside;
        if tries < timing_tries() {
            counts.push(K_RERUN.into());
            // let a loaded machine settle before the rerun (a slow implementation stays slow)
            std::thread::sleep(Duration::from_millis(25 * tries as u64));
            return TimeoutVerdict::Rerun;
        }
        if self.slow_operation == 0 {
            SPURIOUS_CONFIRMED.store(true, std::sync::atomic::Ordering::Relaxed);
            return TimeoutVerdict::Spurious(format!(
                "Timeout reported in {tries} of {tries} executions although the operation (calls + waits, as observed by the closure) finished after {:?} of a {limit_ms} ms limit each time",
                self.last_span));
        }
        counts.push(K_UNSTABLE.into());
        TimeoutVerdict::RealClockOnly
    }
}
fn is_made_up_timeout<T>(r: &Result<CloudResult<T>, String>) -> bool {
    matches!(r, Ok(Err(e)) if e.kind == ErrorKind::Timeout && e.message.starts_with("Operation exceeded timeout"))
}

#[derive(Clone, Copy, PartialEq, Eq)]
enum Waits {
    /// real waits are only tied to the reported ones (`gap >= hook`)
    Reported,
    /// plus the cap clause on the real clock (the dedicated wait block)
    Cap,
}

/// One RETRY case on the real code. Pure with respect to the `Ctx` (see `Rec`).
fn exec_retry(w: &str, rc: Option<RCfg>, lim: Option<u64>, d: u64, script: &[Oc]) -> Rec {
    exec_retry_w(w, rc, lim, d, script, Waits::Reported)
}

fn exec_retry_w(w: &str, rc: Option<RCfg>, lim: Option<u64>, d: u64, script: &[Oc], waits_mode: Waits) -> Rec {
    install_sleep_hook();
    let mut counts: Vec<String> = vec![];
    let mut first = true;
    let mut touts = TimeoutRuns::default();
    let mut confirm = Confirm::new();
    loop {
        let s = Scripted::new(script, d);
        take_sleeps();
        let t0 = Instant::now();
        let r: Result<CloudResult<u64>, String> = guarded(|| match (w, rc, lim) {
            ("raw", Some(c), None) => retry_with_backoff(&c.real(), || s.call()),
            ("run", Some(c), None) => run_with_retry(&c.real(), || s.call()),
            ("cio", Some(c), None) => run_cloud_io_with_retry(&c.real(), || s.call()),
            ("tr", Some(c), Some(t)) => run_with_timeout_and_retry(&c.real(), Duration::from_millis(t), || s.call()),
            ("ciotr", Some(c), Some(t)) => {
                run_cloud_io_with_retry_and_timeout(&c.real(), Duration::from_millis(t), || s.call())
            }
            ("bld", _, _) => {
                let mut b = OperationBuilder::new();
                if let Some(c) = rc { b = b.with_retry(c.real()); }
                if let Some(t) = lim { b = b.with_timeout(Duration::from_millis(t)); }
                b.execute(|| s.call())
            }
            ("exe", _, _) => {
                let mut b = CloudIOExecutor::new();
                if let Some(c) = rc { b = b.with_retry(c.real()); }
                if let Some(t) = lim { b = b.with_timeout(Duration::from_millis(t)); }
                b.execute(|| s.call())
            }
            _ => panic!("harness: bad wrapper combination"),
        });
        let outer = t0.elapsed();
        let sleeps = take_sleeps();
        let calls = s.calls.get();
        let exhausted = s.exhausted.get();
        let n = if exhausted { calls - 1 } else { calls };
        let nominal: u64 = n as u64 * d + sleeps.iter().sum::<u64>();
        let last_is_ok = n >= 1 && n <= script.len() && !exhausted && script[n - 1] == Oc::Ok;
        // timing guard: the model's clock is the nominal one (scripted durations + sleeps); the real clock only
        // ever runs later, so the only thing a slow machine can change is: nominally within, reported Timeout.
        // Such a run is repeated (see the header: REAL TIME).
        let mut real_clock_only = false;
        let mut spurious: Option<String> = None;
        if let Some(t) = lim {
            if nominal == t {
                counts.push(K_AMBIG.into());
                return Rec { case: None, fails: vec![], counts, oracle_only: true };
            }
            if nominal < t && t - nominal <= NEAR_LIMIT_MS && first { counts.push(K_NEAR.into()); }
            first = false;
            if nominal < t && last_is_ok && is_made_up_timeout(&r) {
                match touts.feed(s.span(), t, &mut counts) {
                    TimeoutVerdict::Rerun => continue,
                    TimeoutVerdict::RealClockOnly => real_clock_only = true,
                    TimeoutVerdict::Spurious(d) => spurious = Some(d),
                }
            }
        }
        // real waits against reported waits (and, in the wait block, against the cap); reported only when the
        // verdict reproduces in every one of WAIT_CONFIRM executions
        if r.is_ok() && !sleeps.is_empty() {
            let gaps = s.gaps();
            if gaps.len() == sleeps.len() {
                let ws: Vec<(Duration, u64)> = gaps.iter().copied().zip(sleeps.iter().copied()).collect();
                let cap = rc.map_or(0, |c| c.cap);
                if confirm.runs == 0 {
                    counts.push(if waits_mode == Waits::Cap { K_CAP_CHECKED.into() } else { K_GAPS_CHECKED.to_string() });
                }
                if confirm.again(wait_verdicts(&ws, cap, waits_mode == Waits::Cap), &mut counts) { continue; }
            } else {
                counts.push("timing:waits-and-gaps-differ-in-number(left to the model comparison)".into());
            }
        }
        let out = match &r {
            Err(_) => "PANIC".to_string(),
            Ok(_) if exhausted => "EXH".to_string(),
            Ok(x) => res_str(x),
        };
        let answer = format!("n={n} out={out} sl={}", nats(&sleeps));
        let req = format!(
            "RETRY {w} {} lim={} d={d} s={}",
            cfg_str(rc),
            lim.map_or("-".to_string(), |t| t.to_string()),
            script_str(script)
        );
        // ---- oracle ----
        let budget = rc.map_or(1usize, |c| (c.max as usize).max(1));
        let first_term = script.iter().position(Oc::terminal);
        let n_exp = first_term.map_or(budget, |i| (i + 1).min(budget));
        let mut fails: Vec<(&'static str, String)> = confirm.into_fails();
        if r.is_err() {
            fails.push(("retry-panicked", format!("{r:?}")));
        } else if n_exp > script.len() {
            // the script is too short for the loop to finish: the closure must have been asked once more
            if !exhausted || n != script.len() {
                fails.push(("retry-stopped-early", format!("script of {} transient outcomes, budget {budget}, but {calls} calls", script.len())));
            }
            counts.push("retry:script-exhausted".into());
        } else {
            if n > budget { fails.push(("retry-too-many-attempts", format!("{n} calls, budget max(1,{})", budget))); }
            if let Some(i) = first_term { if n > i + 1 { fails.push(("retry-called-after-terminal", format!("{n} calls, outcome {i} was terminal"))); } }
            if n < n_exp { fails.push(("retry-stopped-early", format!("{n} calls, expected {n_exp}"))); }
            if n >= 1 && n <= script.len() && !exhausted {
                let last = script[n - 1];
                let want = match last {
                    Oc::Ok => match lim {
                        Some(t) if nominal > t => "ERR:Timeout:T".to_string(),
                        _ => format!("OK:{}", n - 1),
                    },
                    Oc::Err(k) => format!("ERR:{}:{}", kind_name(k), n - 1),
                };
                // real-clock verdict for a run that reported Timeout in every execution while the operation itself
                // lasted up to the limit: legitimate iff the real clock (which includes everything with_timeout
                // measured) passed the limit
                let legit_real_timeout = real_clock_only && last == Oc::Ok && out == "ERR:Timeout:T"
                    && lim.map_or(false, |t| outer >= Duration::from_millis(t));
                if let Some(detail) = spurious {
                    fails.push(("timeout-spurious", detail));
                } else if out != want && !legit_real_timeout {
                    let sig = if want == "ERR:Timeout:T" { "timeout-not-reported" }
                        else if out == "ERR:Timeout:T" { "timeout-spurious" }
                        else { "retry-wrong-outcome" };
                    fails.push((sig, format!("returned {out}, the last attempt produced {want}")));
                }
            } else if exhausted {
                fails.push(("retry-too-many-attempts", format!("closure called beyond the point where the loop must stop ({calls} calls)")));
            }
            // the property only bounds the waits "once backed off" (every wait after the first); the exact
            // number and values of the waits are compared with the model, not judged here
            if let Some(c) = rc {
                if let Some(bad) = sleeps.iter().skip(1).find(|x| **x > c.cap) {
                    fails.push(("retry-sleep-exceeds-cap", format!("slept {bad} ms, cap {} ms", c.cap)));
                }
                if sleeps.len() >= 2 {
                    counts.push(if c.cap == 0 { "retry:cap-clause-checked(cap=0)".into() } else { "retry:cap-clause-checked(cap>0)".to_string() });
                }
            }
        }
        counts.push(format!("retry:w={w}"));
        counts.push(format!("retry:attempts={}", if n <= 9 { n.to_string() } else if n <= 16 { "10..16".into() } else if n <= 63 { "17..63".into() } else { ">=64".to_string() }));
        if let Some(c) = rc {
            counts.push(format!("retry:delays={}", if c.init == 0 && c.cap == 0 { "zero" } else if c.init < c.cap { "init<cap" } else if c.init > c.cap { "init>cap" } else { "init=cap" }));
        }
        counts.push(match out.split(':').next().unwrap_or("") { "OK" => "retry:out=ok", "ERR" => "retry:out=err", "EXH" => "retry:out=exhausted", _ => "retry:out=panic" }.to_string());
        let nt = script.len() >= 2 && n >= 2;
        return Rec { case: Some((req, answer, nt)), fails, counts, oracle_only: real_clock_only };
    }
}

/// One RETRY case. `to_model = false`: oracle only (used for the bulk of the thorough exhaustive block).
fn one_retry(cx: &mut Ctx, w: &str, rc: Option<RCfg>, lim: Option<u64>, d: u64, script: &[Oc], to_model: bool) {
    let rec = exec_retry(w, rc, lim, d, script);
    emit(cx, rec, to_model, "retry:oracle-only(not sent to the model)");
}

/// The property replayed item by item on the script (independent of the model): the items the operation must
/// be called for, what must be returned, and how many outcomes of the script that consumes.
fn iobatch_expect(max: u32, n_items: usize, script: &[Oc]) -> (Vec<u64>, String, usize) {
    let budget = (max as usize).max(1);
    let mut pos = 0usize;
    let mut want_calls: Vec<u64> = vec![];
    let mut want_vals: Vec<u64> = vec![];
    let mut want_out: Option<String> = None; // None = ran off the script
    let mut ran_off = false;
    'items: for it in 0..n_items as u64 {
        let mut made = 0usize;
        loop {
            if pos >= script.len() { ran_off = true; break 'items; }
            let o = script[pos];
            want_calls.push(it);
            pos += 1;
            made += 1;
            match o {
                Oc::Ok => { want_vals.push((pos - 1) as u64); break; }
                Oc::Err(k) => {
                    if !spec_transient(k) || made >= budget {
                        want_out = Some(format!("ERR:{}:{}", kind_name(k), pos - 1));
                        break 'items;
                    }
                }
            }
        }
    }
    let want_out = if ran_off { "EXH".to_string() } else { want_out.unwrap_or(format!("OK:{}", nats(&want_vals))) };
    (want_calls, want_out, pos)
}

fn exec_iobatch(c: RCfg, n_items: usize, script: &[Oc]) -> Rec {
    exec_iobatch_w(c, n_items, script, Waits::Reported)
}

fn exec_iobatch_w(c: RCfg, n_items: usize, script: &[Oc], waits_mode: Waits) -> Rec {
    install_sleep_hook();
    let items: Vec<u64> = (0..n_items as u64).collect();
    let mut counts = vec![format!("iobatch:items={n_items}")];
    let mut confirm = Confirm::new();
    loop {
        let s = Scripted::new(script, 0);
        let seen: RefCell<Vec<u64>> = RefCell::new(vec![]);
        take_sleeps();
        let r = guarded(|| {
            run_cloud_io_batch(&c.real(), &items, |it: &u64| {
                seen.borrow_mut().push(*it);
                s.call()
            })
        });
        let sleeps = take_sleeps();
        let exhausted = s.exhausted.get();
        // real waits: a back-off precedes call j+1 exactly when it is for the same item as call j
        if r.is_ok() && !sleeps.is_empty() {
            let gaps = s.gaps();
            let sn = seen.borrow();
            let retry_gaps: Vec<Duration> = gaps.iter().enumerate().filter(|(j, _)| sn.get(*j) == sn.get(*j + 1)).map(|(_, g)| *g).collect();
            if retry_gaps.len() == sleeps.len() {
                let ws: Vec<(Duration, u64)> = retry_gaps.into_iter().zip(sleeps.iter().copied()).collect();
                if confirm.runs == 0 {
                    counts.push(if waits_mode == Waits::Cap { K_CAP_CHECKED.into() } else { K_GAPS_CHECKED.to_string() });
                }
                // only one item's waits are "after the first" in the sense of the cap clause when there is one
                // item; the wait block uses a single item
                drop(sn);
                if confirm.again(wait_verdicts(&ws, c.cap, waits_mode == Waits::Cap && n_items == 1), &mut counts) { continue; }
            } else {
                counts.push("timing:waits-and-gaps-differ-in-number(left to the model comparison)".into());
            }
        }
        let mut calls = seen.borrow().clone();
        if exhausted { calls.pop(); }
        let out = match &r {
            Err(_) => "PANIC".to_string(),
            Ok(_) if exhausted => "EXH".to_string(),
            Ok(x) => list_res_str(x),
        };
        let answer = format!("calls={} sl={} out={out}", nats(&calls), nats(&sleeps));
        let req = format!("IOBATCH {} n={n_items} s={}", cfg_str(Some(c)), script_str(script));
        let (want_calls, want_out, _) = iobatch_expect(c.max, n_items, script);
        let nt = n_items >= 2 && script.len() >= 2;
        let mut fails: Vec<(&'static str, String)> = confirm.into_fails();
        counts.push(format!("iobatch:delays={}", if c.init == 0 && c.cap == 0 { "zero" } else if c.init < c.cap { "init<cap" } else if c.init > c.cap { "init>cap" } else { "init=cap" }));
        counts.push(format!("iobatch:calls={}", if calls.len() <= 16 { "<=16" } else if calls.len() <= 63 { "17..63" } else { ">=64" }));
        if r.is_err() {
            fails.push(("iobatch-panicked", format!("{r:?}")));
        } else {
            if calls != want_calls {
                // "attempted until ..." for every item: too few calls for an item (no retry) as well as too many
                fails.push(("iobatch-wrong-calls", format!("operation called for items {calls:?}, expected {want_calls:?}")));
            }
            if out != want_out {
                fails.push(("iobatch-wrong-outcome", format!("returned {out}, expected {want_out}")));
            }
            if sleeps.iter().any(|x| *x > c.cap.max(c.init)) {
                fails.push(("retry-sleep-exceeds-cap", format!("sleeps {sleeps:?}")));
            }
        }
        return Rec { case: Some((req, answer, nt)), fails, counts, oracle_only: false };
    }
}

fn one_iobatch_m(cx: &mut Ctx, c: RCfg, n_items: usize, script: &[Oc], to_model: bool) {
    let rec = exec_iobatch(c, n_items, script);
    emit(cx, rec, to_model, "iobatch:oracle-only(not sent to the model)");
}
fn one_iobatch(cx: &mut Ctx, c: RCfg, n_items: usize, script: &[Oc]) {
    one_iobatch_m(cx, c, n_items, script, true);
}

/// Run `f` on every job on `threads` worker threads; results in job order (the jobs only sleep for real,
/// 1–2 ms per back-off, so many more threads than cores are useful).
fn par_map<J: Sync, O: Send>(jobs: &[J], threads: usize, f: impl Fn(&J) -> O + Sync) -> Vec<O> {
    let next = std::sync::atomic::AtomicUsize::new(0);
    let slots: Vec<Mutex<Option<O>>> = jobs.iter().map(|_| Mutex::new(None)).collect();
    std::thread::scope(|sc| {
        for _ in 0..threads.min(jobs.len().max(1)) {
            sc.spawn(|| loop {
                let i = next.fetch_add(1, std::sync::atomic::Ordering::Relaxed);
                if i >= jobs.len() { break; }
                let o = f(&jobs[i]);
                *slots[i].lock().unwrap() = Some(o);
            });
        }
    });
    slots.into_iter().map(|m| m.into_inner().unwrap().expect("harness: worker did not finish its job")).collect()
}

// ---------------------------------------------------------------------------------------------
// batch
// ---------------------------------------------------------------------------------------------

#[derive(Clone, Copy, PartialEq, Eq, Debug)]
enum Pr {
    Ok,
    Dup,
    Nil,
    Err(usize),
}
impl Pr {
    fn tok(&self) -> String {
        match self {
            Pr::Ok => "ok".into(),
            Pr::Dup => "dup".into(),
            Pr::Nil => "nil".into(),
            Pr::Err(k) => kind_name(*k),
        }
    }
}
fn proc_answer(p: Pr, i: usize, chunk: &[u64]) -> CloudResult<Vec<u64>> {
    match p {
        Pr::Ok => Ok(chunk.iter().map(|x| x + 100).collect()),
        Pr::Dup => Ok(chunk.iter().flat_map(|x| [x + 100, x + 100]).collect()),
        Pr::Nil => Ok(vec![]),
        Pr::Err(k) => Err(CloudIOError::new(all_kinds()[k].clone(), format!("e{i}"))),
    }
}

fn one_batch(cx: &mut Ctx, w: &str, n_items: usize, size: usize, fscript: &[Pr]) {
    one_batch_p(cx, w, n_items, size, false, fscript);
}

/// `par` = `BatchConfig.parallel` (only `run_batch_operation` has it). The oracle is the same for both values:
/// the property's batch clause does not depend on the flag.
fn one_batch_p(cx: &mut Ctx, w: &str, n_items: usize, size: usize, par: bool, fscript: &[Pr]) {
    assert!(w == "run" || !par);
    let items: Vec<u64> = (0..n_items as u64).collect();
    let calls: Mutex<Vec<Vec<u64>>> = Mutex::new(vec![]);
    let r = guarded(|| {
        let proc_ = |chunk: Vec<u64>| -> CloudResult<Vec<u64>> {
            let mut g = calls.lock().unwrap();
            let i = g.len();
            g.push(chunk.clone());
            drop(g);
            proc_answer(fscript.get(i).copied().unwrap_or(Pr::Ok), i, &chunk)
        };
        match w {
            "raw" => batch_in_chunks(&items, size, proc_),
            "run" => run_batch_operation(&items, &BatchConfig { chunk_size: size, parallel: par }, proc_),
            _ => panic!("harness: bad batch wrapper"),
        }
    });
    let calls = calls.into_inner().unwrap_or_else(|e| e.into_inner());
    let calls_s = if calls.is_empty() { "-".to_string() } else { calls.iter().map(|c| nats(c)).collect::<Vec<_>>().join("|") };
    let res = match &r {
        Err(_) => "PANIC".to_string(),
        Ok(x) => list_res_str(x),
    };
    let fs = if fscript.is_empty() { "-".to_string() } else { fscript.iter().map(Pr::tok).collect::<Vec<_>>().join(",") };
    let req = format!("BATCH {w} n={n_items} size={size} par={} f={fs}", u8::from(par));
    let answer = if r.is_err() { "PANIC".to_string() } else { format!("calls={calls_s} res={res}") };
    let i = cx.case(req, answer, n_items >= 2 && size != 1);
    cx.count(&format!("batch:size={}", size.min(10)));
    cx.count(&format!("batch:items={}", if n_items <= 10 { n_items.to_string() } else if n_items <= 40 { "11..40".into() } else { ">40".to_string() }));
    if w == "run" { cx.count(if par { "batch:run_batch_operation parallel=true" } else { "batch:run_batch_operation parallel=false" }); }
    // ---- oracle ----
    if let Err(msg) = &r {
        let sig = if size == 0 { "batch-panics-on-chunk-size-0" } else { "batch-panicked" };
        ofail(cx, i, sig, format!("{msg}"));
        return;
    }
    let lim = size.max(1);
    if let Some(c) = calls.iter().find(|c| c.is_empty() || c.len() > lim) {
        ofail(cx, i, "batch-chunk-too-large-or-empty", format!("chunk {c:?} for requested size {size}"));
    }
    let flat: Vec<u64> = calls.iter().flatten().copied().collect();
    if flat.len() > items.len() || flat[..] != items[..flat.len()] {
        ofail(cx, i, "batch-items-not-in-order-exactly-once", format!("processor saw {flat:?}"));
    }
    let n_chunks = n_items.div_ceil(lim);
    let first_fail = fscript.iter().take(n_chunks).position(|p| matches!(p, Pr::Err(_)));
    match first_fail {
        Some(j) => {
            cx.count("batch:with-failing-chunk");
            let Pr::Err(k) = fscript[j] else { unreachable!() };
            let want = format!("ERR:{}:{j}", kind_name(k));
            if calls.len() != j + 1 {
                ofail(cx, i, "batch-did-not-stop-at-first-failing-chunk", format!("{} chunks processed, chunk {j} fails", calls.len()));
            }
            if res != want {
                ofail(cx, i, "batch-wrong-error", format!("returned {res}, chunk {j} failed with {want}"));
            }
        }
        None => {
            if flat != items {
                ofail(cx, i, "batch-item-lost", format!("processor saw {flat:?} of {n_items} items"));
            }
            let want: Vec<u64> = calls.iter().enumerate()
                .flat_map(|(j, c)| proc_answer(fscript.get(j).copied().unwrap_or(Pr::Ok), j, c).unwrap())
                .collect();
            if res != format!("OK:{}", nats(&want)) {
                ofail(cx, i, "batch-wrong-result", format!("returned {res}, concatenation of the processor's answers is {want:?}"));
            }
        }
    }
}

// ---------------------------------------------------------------------------------------------
// pagination
// ---------------------------------------------------------------------------------------------

#[derive(Clone, Copy, PartialEq, Eq, Debug)]
enum Pg {
    Page(usize, bool),
    Err(usize),
}
impl Pg {
    fn tok(&self) -> String {
        match self {
            Pg::Page(n, m) => format!("{n}{}", if *m { "T" } else { "F" }),
            Pg::Err(k) => kind_name(*k),
        }
    }
}
fn page_items(j: usize, len: usize) -> Vec<u64> {
    (0..len as u64).map(|x| x + j as u64 * 100).collect()
}

fn one_page(cx: &mut Ctx, w: &str, psize: u32, max_pages: Option<u32>, script: &[Pg]) {
    let args: RefCell<Vec<(u32, u32)>> = RefCell::new(vec![]);
    let exhausted = Cell::new(false);
    let cfg = PaginationConfig { page_size: psize, max_pages };
    let r = guarded(|| {
        let fetch = |page: u32, size: u32| -> CloudResult<(Vec<u64>, bool)> {
            let j = args.borrow().len();
            args.borrow_mut().push((page, size));
            match script.get(j) {
                None => {
                    exhausted.set(true);
                    Err(CloudIOError::new(ErrorKind::Other, "exhausted"))
                }
                Some(Pg::Page(len, more)) => Ok((page_items(j, *len), *more)),
                Some(Pg::Err(k)) => Err(CloudIOError::new(all_kinds()[*k].clone(), format!("e{j}"))),
            }
        };
        match w {
            "raw" => paginate(&cfg, fetch),
            "run" => run_paginated_operation(&cfg, fetch),
            "cio" => run_cloud_io_paginated(&cfg, fetch),
            _ => panic!("harness: bad page wrapper"),
        }
    });
    let mut calls = args.borrow().clone();
    if exhausted.get() { calls.pop(); }
    let calls_s = if calls.is_empty() { "-".to_string() } else { calls.iter().map(|(p, s)| format!("{p}:{s}")).collect::<Vec<_>>().join(",") };
    let out = match &r {
        Err(_) => "PANIC".to_string(),
        Ok(_) if exhausted.get() => "EXH".to_string(),
        Ok(x) => list_res_str(x),
    };
    let ps = if script.is_empty() { "-".to_string() } else { script.iter().map(Pg::tok).collect::<Vec<_>>().join(",") };
    let req = format!("PAGE {w} psize={psize} max={} p={ps}", max_pages.map_or("-".to_string(), |m| m.to_string()));
    let i = cx.case(req, format!("calls={calls_s} out={out}"), script.len() >= 2 && calls.len() >= 2);
    cx.count(&format!("page:fetched={}", if calls.len() <= 9 { calls.len().to_string() } else if calls.len() < 1000 { "10..999".into() } else { ">=1000".to_string() }));
    // ---- oracle: concatenate up to the first empty page, the first final page, or the page limit ----
    let mut acc: Vec<u64> = vec![];
    let mut want: Option<String> = None;
    let mut fetched = 0usize;
    for (j, p) in script.iter().enumerate() {
        fetched = j + 1;
        match p {
            Pg::Err(k) => { want = Some(format!("ERR:{}:{j}", kind_name(*k))); cx.count("page:stop=error"); break; }
            Pg::Page(0, _) => { want = Some(format!("OK:{}", nats(&acc))); cx.count("page:stop=empty"); break; }
            Pg::Page(len, more) => {
                acc.extend(page_items(j, *len));
                if !*more { want = Some(format!("OK:{}", nats(&acc))); cx.count("page:stop=final"); break; }
                if let Some(m) = max_pages {
                    if j + 1 >= (m as usize).max(1) { want = Some(format!("OK:{}", nats(&acc))); cx.count("page:stop=limit"); break; }
                }
            }
        }
    }
    if r.is_err() {
        ofail(cx, i, "page-panicked", format!("{r:?}"));
        return;
    }
    match want {
        None => {
            cx.count("page:script-exhausted");
            if out != "EXH" { ofail(cx, i, "page-stopped-early", format!("no page of the script ends the listing, yet {out}")); }
        }
        Some(wanted) => {
            if out != wanted {
                let sig = if out == "EXH" || calls.len() > fetched { "page-fetched-beyond-stop" } else { "page-wrong-result" };
                ofail(cx, i, sig, format!("returned {out}, expected {wanted}"));
            }
            if calls.len() != fetched {
                ofail(cx, i, "page-wrong-number-of-fetches", format!("{} fetches, expected {fetched}", calls.len()));
            }
        }
    }
    if calls.iter().enumerate().any(|(j, (p, s))| *p as usize != j || *s != psize) {
        ofail(cx, i, "page-wrong-arguments", format!("fetch_page called with {calls:?}, page size {psize}"));
    }
}

// ---------------------------------------------------------------------------------------------
// with_timeout alone
// ---------------------------------------------------------------------------------------------

fn one_timeout(cx: &mut Ctx, lim: u64, el: u64, r_in: Oc) {
    assert!(lim != el);
    if el < lim && lim - el <= NEAR_LIMIT_MS { cx.count(K_NEAR); }
    let mut touts = TimeoutRuns::default();
    let mut counts: Vec<String> = vec![];
    loop {
        let span = Cell::new(Duration::ZERO);
        let t0 = Instant::now();
        let r = guarded(|| {
            with_timeout(Duration::from_millis(lim), || -> CloudResult<u64> {
                let t_in = Instant::now();
                if el > 0 { std::thread::sleep(Duration::from_millis(el)); }
                let r = match r_in {
                    Oc::Ok => Ok(0),
                    Oc::Err(k) => Err(CloudIOError::new(all_kinds()[k].clone(), "e0")),
                };
                span.set(t_in.elapsed());
                r
            })
        });
        let outer = t0.elapsed();
        // same guard as in `exec_retry_w`: a nominally-within run that reported Timeout is repeated; Timeout in
        // every execution is either the machine (the closure itself lasted up to the limit: real clock only,
        // a note) or the wrapper (time lost outside the closure every time: `timeout-spurious`)
        let mut real_clock_only = false;
        let mut spurious: Option<String> = None;
        if el < lim && r_in == Oc::Ok && is_made_up_timeout(&r) {
            match touts.feed(span.get(), lim, &mut counts) {
                TimeoutVerdict::Rerun => continue,
                TimeoutVerdict::RealClockOnly => real_clock_only = true,
                TimeoutVerdict::Spurious(d) => spurious = Some(d),
            }
        }
        for c in &counts { cx.count(c); }
        let out = match &r { Err(_) => "PANIC".to_string(), Ok(x) => res_str(x) };
        let want = match r_in {
            Oc::Err(k) => format!("ERR:{}:0", kind_name(k)),
            Oc::Ok if el > lim => "ERR:Timeout:T".to_string(),
            Oc::Ok => "OK:0".to_string(),
        };
        cx.count(if el > lim { "timeout:overrun" } else { "timeout:within" });
        let legit_real_timeout = real_clock_only && out == "ERR:Timeout:T" && outer >= Duration::from_millis(lim);
        let bad = out != want && !legit_real_timeout;
        if real_clock_only && !bad { return; }
        let i = cx.case(format!("TIMEOUT lim={lim} el={el} r={}", r_in.tok()), out.clone(), true);
        if let Some(detail) = spurious {
            ofail(cx, i, "timeout-spurious", detail);
        } else if bad {
            let sig = if want == "ERR:Timeout:T" { "timeout-not-reported" } else if out == "ERR:Timeout:T" { "timeout-spurious" } else { "timeout-wrong-outcome" };
            ofail(cx, i, sig, format!("returned {out}, expected {want}"));
        }
        return;
    }
}

/// Run-quality NOTE (never a failure): how many timed cases were near their limit, how often a case was run
/// again, how many could only be judged by the real clock (the machine was too slow for the nominal clock).
fn timing_note(cx: &mut Ctx) {
    let get = |cx: &Ctx, k: &str| cx.stats.get(k).copied().unwrap_or(0);
    let near = get(cx, K_NEAR);
    let reruns = get(cx, K_RERUN);
    let lost = get(cx, K_UNSTABLE) + get(cx, K_AMBIG);
    let wr = get(cx, K_WAIT_RERUN);
    let wc = get(cx, K_WAIT_CLEARED);
    let measured = get(cx, K_GAPS_CHECKED) + get(cx, K_CAP_CHECKED);
    cx.notes.push(format!(
        "timing (run quality, informational): {near} near-limit timed cases, {reruns} re-executions after an unexpected Timeout, {lost} judged by the real clock only and not compared with the model; real waits measured in {measured} runs, {wr} re-executions to confirm a wait verdict, {wc} wait verdicts not reproduced and dropped"
    ));
    if lost > 0 {
        cx.notes.push(format!("timing: the machine was too slow for {lost} near-limit timed case(s) in all {TIMING_TRIES} executions; their Timeout was checked against the real clock; re-run on a quieter machine for the model comparison of these cases"));
    }
}

// ---------------------------------------------------------------------------------------------
// run_parallel
// ---------------------------------------------------------------------------------------------

fn one_parallel(cx: &mut Ctx, script: &[Oc]) {
    let seen: Arc<Mutex<Vec<usize>>> = Arc::new(Mutex::new(vec![]));
    let ops: Vec<Box<dyn FnOnce() -> CloudResult<u64> + Send>> = script.iter().copied().enumerate().map(|(i, o)| {
        let seen = Arc::clone(&seen);
        Box::new(move || -> CloudResult<u64> {
            seen.lock().unwrap().push(i);
            match o {
                Oc::Ok => Ok(i as u64),
                Oc::Err(k) => Err(CloudIOError::new(all_kinds()[k].clone(), format!("e{i}"))),
            }
        }) as Box<dyn FnOnce() -> CloudResult<u64> + Send>
    }).collect();
    let r = guarded(|| run_parallel(ops));
    let calls: Vec<u64> = seen.lock().unwrap_or_else(|e| e.into_inner()).iter().map(|x| *x as u64).collect();
    let out = match &r { Err(_) => "PANIC".to_string(), Ok(x) => list_res_str(x) };
    let i = cx.case(format!("PARALLEL s={}", script_str(script)), format!("calls={} out={out}", nats(&calls)), script.len() >= 2);
    cx.count(&format!("parallel:ops={}", if script.len() <= 4 { script.len().to_string() } else { ">4".to_string() }));
    // ---- oracle (the code's contract: in order, each at most once, nothing after the first failure) ----
    if r.is_err() { ofail(cx, i, "parallel-panicked", format!("{r:?}")); return; }
    let first_err = script.iter().position(|o| matches!(o, Oc::Err(_)));
    let want_n = first_err.map_or(script.len(), |j| j + 1);
    let want_calls: Vec<u64> = (0..want_n as u64).collect();
    let mut sorted = calls.clone();
    sorted.sort_unstable();
    sorted.dedup();
    if sorted.len() != calls.len() {
        ofail(cx, i, "parallel-operation-invoked-twice", format!("invoked {calls:?}"));
    } else if calls != want_calls {
        let sig = if calls.len() > want_n { "parallel-invoked-after-first-failure" } else if sorted == want_calls { "parallel-not-in-order" } else { "parallel-operation-not-invoked" };
        ofail(cx, i, sig, format!("invoked {calls:?}, expected {want_calls:?}"));
    }
    let want_out = match first_err {
        Some(j) => { let Oc::Err(k) = script[j] else { unreachable!() }; cx.count("parallel:with-failure"); format!("ERR:{}:{j}", kind_name(k)) }
        None => format!("OK:{}", nats(&want_calls)),
    };
    if out != want_out { ofail(cx, i, "parallel-wrong-outcome", format!("returned {out}, expected {want_out}")); }
}

// ---------------------------------------------------------------------------------------------
// run_with_context
// ---------------------------------------------------------------------------------------------

#[derive(Clone, Copy, PartialEq, Eq, Debug)]
enum Act {
    Inc,
    Meta(usize, usize),
}
const CTX_KEYS: [&str; 3] = ["a", "b", "c"];
const CTX_VALS: [&str; 3] = ["x", "y", "z"];
impl Act {
    fn tok(&self) -> String {
        match self {
            Act::Inc => "inc".into(),
            Act::Meta(k, v) => format!("m:{}:{}", CTX_KEYS[*k], CTX_VALS[*v]),
        }
    }
    fn apply(&self, c: &mut OperationContext) {
        match self {
            Act::Inc => c.increment_retry(),
            Act::Meta(k, v) => c.add_metadata(CTX_KEYS[*k], CTX_VALS[*v]),
        }
    }
}
fn acts_str(a: &[Act]) -> String {
    if a.is_empty() { "-".into() } else { a.iter().map(Act::tok).collect::<Vec<_>>().join(",") }
}

fn one_context(cx: &mut Ctx, name: &str, pre: &[Act], ops: &[Act], r_in: Oc) {
    let ncalls = Cell::new(0usize);
    let r = guarded(|| {
        let mut c = OperationContext::new(name);
        for a in pre { a.apply(&mut c); }
        run_with_context(c, |c: &mut OperationContext| -> CloudResult<u64> {
            ncalls.set(ncalls.get() + 1);
            for a in ops { a.apply(c); }
            match r_in {
                Oc::Ok => Ok(0),
                Oc::Err(k) => Err(CloudIOError::new(all_kinds()[k].clone(), "e0")),
            }
        })
    });
    let show = |c: &OperationContext| {
        let mut kv: Vec<(&String, &String)> = c.metadata.iter().collect();
        kv.sort();
        let m = if kv.is_empty() { "-".to_string() } else { kv.iter().map(|(k, v)| format!("{k}={v}")).collect::<Vec<_>>().join(",") };
        format!("name={} rc={} meta={m}", c.operation_name, c.retry_count)
    };
    let out = match &r {
        Err(_) => "PANIC".to_string(),
        Ok(Ok((v, c))) => format!("OK:{v} {}", show(c)),
        Ok(Err(e)) => err_str(e),
    };
    let i = cx.case(format!("CONTEXT name={name} pre={} ops={} r={}", acts_str(pre), acts_str(ops), r_in.tok()), out.clone(), !ops.is_empty());
    cx.count(if r_in == Oc::Ok { "context:ok" } else { "context:err" });
    // ---- oracle: the operation ran once; Ok -> its value and the context exactly as the operation left it ----
    if r.is_err() { ofail(cx, i, "context-panicked", format!("{r:?}")); return; }
    if ncalls.get() != 1 { ofail(cx, i, "context-operation-not-called-exactly-once", format!("{} calls", ncalls.get())); }
    let want = match r_in {
        Oc::Err(k) => format!("ERR:{}:0", kind_name(k)),
        Oc::Ok => {
            let mut rc = 0u32;
            let mut m: std::collections::BTreeMap<&str, &str> = Default::default();
            for a in pre.iter().chain(ops.iter()) {
                match a { Act::Inc => rc += 1, Act::Meta(k, v) => { m.insert(CTX_KEYS[*k], CTX_VALS[*v]); } }
            }
            let ms = if m.is_empty() { "-".to_string() } else { m.iter().map(|(k, v)| format!("{k}={v}")).collect::<Vec<_>>().join(",") };
            format!("OK:0 name={name} rc={rc} meta={ms}")
        }
    };
    if out != want { ofail(cx, i, "context-wrong-result", format!("returned {out}, expected {want}")); }
}

// ---------------------------------------------------------------------------------------------
// generators
// ---------------------------------------------------------------------------------------------

fn all_outcomes() -> Vec<Oc> {
    let mut v = vec![Oc::Ok];
    for k in 0..all_kinds().len() { v.push(Oc::Err(k)); }
    v
}

/// visit every sequence over `alpha` of length <= max_len
fn for_all_seqs<T: Copy>(alpha: &[T], max_len: usize, f: &mut dyn FnMut(&[T])) {
    fn rec<T: Copy>(alpha: &[T], max_len: usize, cur: &mut Vec<T>, f: &mut dyn FnMut(&[T])) {
        f(cur);
        if cur.len() == max_len { return; }
        for x in alpha {
            cur.push(*x);
            rec(alpha, max_len, cur, f);
            cur.pop();
        }
    }
    rec(alpha, max_len, &mut vec![], f);
}

const MULTS: [f64; 8] = [2.0, 1.5, 3.0, 1.0, f64::NAN, 1.9999999999999998, -2.0, f64::INFINITY];

pub fn run(cx: &mut Ctx) {
    install_sleep_hook();
    let zero = |max: u32| RCfg { max, init: 0, cap: 0, mult: 2.0 };
    let net = Oc::Err(5);

    // ---- (1) corpus: design witnesses / minimised past failures ----
    one_batch(cx, "run", 3, 0, &[]); // chunk_size 0 through the public BatchConfig (panicked before the fix)
    one_batch(cx, "raw", 0, 0, &[]);
    one_batch(cx, "run", 5, 2, &[Pr::Ok, Pr::Err(2)]);
    one_retry(cx, "run", Some(zero(0)), None, 0, &[net, Oc::Ok], true); // budget 0 behaves as 1
    one_retry(cx, "run", Some(RCfg { max: 5, init: 3, cap: 1, mult: 2.0 }), None, 0, &[net, net, net, Oc::Ok], true); // initial delay above the cap
    one_retry(cx, "run", Some(RCfg { max: 4, init: 1, cap: 3, mult: 1.5 }), None, 0, &[net, net, net, Oc::Ok], true); // multiplier < 2: no growth
    one_retry(cx, "bld", Some(zero(3)), Some(10_000), 0, &[Oc::Err(6), Oc::Err(8), Oc::Err(2)], true);
    one_retry(cx, "exe", None, Some(1), 6, &[Oc::Ok], true); // overrun without retry
    one_page(cx, "run", 10, None, &[Pg::Page(2, true), Pg::Page(0, true), Pg::Page(1, false)]); // has_more lies before an empty page
    one_page(cx, "raw", 10, Some(0), &[Pg::Page(1, true), Pg::Page(1, true)]); // limit 0 still fetches one page
    one_page(cx, "cio", 10, Some(2), &[Pg::Page(1, true), Pg::Page(1, true), Pg::Page(1, true)]);
    one_iobatch(cx, RCfg { max: 2, init: 1, cap: 1, mult: 0.0 }, 3, &[net, Oc::Ok, Oc::Ok, net, net]);
    one_batch_p(cx, "run", 7, 2, true, &[Pr::Ok, Pr::Err(5), Pr::Ok]); // parallel = true: still stops at the first failing chunk
    one_parallel(cx, &[Oc::Ok, Oc::Ok, net, Oc::Ok]); // sequential, nothing after the first failure
    one_context(cx, "upload_batch", &[Act::Inc], &[Act::Meta(0, 0), Act::Inc, Act::Meta(0, 1)], Oc::Ok);

    // ---- (1b) real waits first (a run whose waits are inflated must not spend hours in the later blocks) ----
    {
        // wait block: the cap clause ON THE REAL CLOCK. cap = 2 ms, 63 waits per run (budget 64, 70 transient
        // outcomes): no single wait after the first above cap + 200 ms, the shortest wait not above cap + 15 ms
        // (see the header: REAL TIME); every verdict confirmed by re-execution.
        let t70: Vec<Oc> = (0..70).map(|j| Oc::Err(SPEC_TRANSIENT[j % 4])).collect();
        let mut cfgs: Vec<RCfg> = vec![
            RCfg { max: 64, init: 1, cap: 2, mult: 2.0 },
            RCfg { max: 64, init: 2, cap: 2, mult: 1.5 },
            RCfg { max: 64, init: 3, cap: 2, mult: 2.0 },
            RCfg { max: 64, init: 0, cap: 0, mult: 2.0 }, // zero delays must really be zero waits
        ];
        if cx.tier == Tier::Thorough {
            cfgs.push(RCfg { max: 64, init: 1, cap: 1, mult: f64::NAN });
            cfgs.push(RCfg { max: 64, init: 0, cap: 3, mult: 2.0 });
            cfgs.push(RCfg { max: 30, init: 5, cap: 4, mult: 3.0 });
        }
        let mut cnt = 0usize;
        let ws: &[&str] = if cx.tier == Tier::Thorough { &["raw", "run", "cio", "bld", "exe", "tr", "ciotr"] } else { &["raw", "run", "cio", "bld", "exe"] };
        // short probes first (3 waits each): a gross inflation (seconds instead of milliseconds) is confirmed
        // here in seconds, before the 63-wait runs
        for w in ws.iter() {
            let lim = if *w == "tr" || *w == "ciotr" { Some(60_000) } else { None };
            let rec = exec_retry_w(w, Some(RCfg { max: 4, init: 1, cap: 2, mult: 2.0 }), lim, 0, &t70[..4], Waits::Cap);
            emit(cx, rec, true, "wait:oracle-only");
            cnt += 1;
        }
        let gross = cx.fails.iter().any(|f| f.signature == SIG_LONG);
        for (j, w) in ws.iter().enumerate() {
            if gross { break; }
            let picks: Vec<RCfg> = if cx.tier == Tier::Thorough { cfgs.clone() } else { vec![cfgs[j % cfgs.len()]] };
            for c in picks {
                let lim = if *w == "tr" || *w == "ciotr" { Some(60_000) } else { None };
                let rec = exec_retry_w(w, Some(c), lim, 0, &t70, Waits::Cap);
                emit(cx, rec, true, "wait:oracle-only");
                cnt += 1;
            }
        }
        let picks: Vec<RCfg> = if gross { vec![] } else if cx.tier == Tier::Thorough { cfgs.clone() } else { vec![cfgs[0]] };
        for c in picks {
            let rec = exec_iobatch_w(c, 1, &t70, Waits::Cap);
            emit(cx, rec, true, "wait:oracle-only");
            cnt += 1;
        }
        cx.exhaustive_blocks.push(format!(
            "real waits (cap clause on the real clock): 70 transient outcomes, max_attempts 64 (63 real waits per run), cap 2 ms and 0 ms (thorough: also 1, 3, 4 ms), initial delay below / at / above the cap, on {} retry entry points and run_cloud_io_batch over one item ({cnt} runs): every wait >= the reported one, no wait after the first > cap + 200 ms, shortest wait <= cap + 15 ms; verdicts confirmed by {WAIT_CONFIRM} executions",
            ws.len()
        ));
    }
    if cx.fails.iter().any(|f| f.signature == SIG_LONG || f.signature == SIG_SHORT) {
        // the real waits are not the reported ones (confirmed by re-execution): every later block sleeps
        // through the same code thousands of times and would take hours; the run already has its failing input
        cx.notes.push("real waits differ from the reported ones (confirmed): the remaining generator blocks were skipped".into());
        timing_note(cx);
        return;
    }

    // ---- (2) exhaustive small scope ----
    let outcomes = all_outcomes();
    let max_len = match cx.tier { Tier::Quick => 3, Tier::Thorough => 5, Tier::Search => 4 };
    // in the thorough tier every script is run on the real code and judged by the oracle; the model is
    // asked about all scripts of length <= 4 and, at length 5, about those in which nothing follows
    // the first terminal outcome (the closure never reveals what it would have answered after it)
    let model_len = 4usize;
    // delay configurations of the exhaustive block: zero delays for every script; for the scripts in which
    // nothing follows the end of the run, additionally real delays with initial < cap (1, 2, 2, ...) and
    // initial > cap (2, 1, 1, ...), so that the "<= cap once backed off" clause is judged on non-trivial waits
    let nz_cfgs = |max: u32| [RCfg { max, init: 1, cap: 2, mult: 2.0 }, RCfg { max, init: 2, cap: 1, mult: 2.0 }];
    const PAR_THREADS: usize = 48;
    {
        let mut n_scripts = 0usize;
        let mut n_canon = 0usize;
        let mut scripts: Vec<Vec<Oc>> = vec![];
        for_all_seqs(&outcomes, max_len, &mut |s| scripts.push(s.to_vec()));
        // jobs with real sleeps, run on worker threads after the zero-delay pass
        enum Job { Retry(&'static str, RCfg, Vec<Oc>), IoBatch(RCfg, usize, Vec<Oc>) }
        let mut jobs: Vec<Job> = vec![];
        let mut n_io_canon = 0usize;
        for s in &scripts {
            n_scripts += 1;
            let canonical = s.iter().position(Oc::terminal).map_or(true, |i| i + 1 == s.len());
            let to_model = s.len() <= model_len || canonical;
            if canonical { n_canon += 1; }
            for max in 0..=6u32 {
                one_retry(cx, "run", Some(zero(max)), None, 0, s, to_model);
                one_retry(cx, "bld", Some(zero(max)), None, 0, s, to_model);
                one_retry(cx, "exe", Some(zero(max)), None, 0, s, to_model);
                if canonical {
                    // the remaining entry points on every script in which nothing follows the first terminal outcome
                    one_retry(cx, "raw", Some(zero(max)), None, 0, s, true);
                    one_retry(cx, "cio", Some(zero(max)), None, 0, s, true);
                    for w in ["tr", "ciotr", "bld", "exe"] { one_retry(cx, w, Some(zero(max)), Some(60_000), 0, s, true); }
                    for c in nz_cfgs(max) {
                        for w in ["raw", "run", "cio", "bld", "exe"] { jobs.push(Job::Retry(w, c, s.clone())); }
                    }
                }
                // per-item batch wrapper: the same script spread over 2 items — every script up to the full
                // length; at length 5 the model is asked about the scripts the run consumes completely
                let (_, _, consumed) = iobatch_expect(max, 2, s);
                let io_canonical = consumed == s.len();
                one_iobatch_m(cx, zero(max), 2, s, s.len() <= model_len || io_canonical);
                if io_canonical {
                    n_io_canon += 1;
                    for c in nz_cfgs(max) { jobs.push(Job::IoBatch(c, 2, s.clone())); }
                }
                // ... and over 1 and 3 items where that run consumes the script completely
                for n_items in [1usize, 3] {
                    let (_, _, consumed) = iobatch_expect(max, n_items, s);
                    if consumed == s.len() {
                        one_iobatch_m(cx, zero(max), n_items, s, true);
                        if n_items == 3 { for c in nz_cfgs(max) { jobs.push(Job::IoBatch(c, 3, s.clone())); } }
                    }
                }
            }
        }
        let n_jobs = jobs.len();
        let recs = par_map(&jobs, PAR_THREADS, |j| match j {
            Job::Retry(w, c, s) => exec_retry(w, Some(*c), None, 0, s),
            Job::IoBatch(c, n, s) => exec_iobatch(*c, *n, s),
        });
        for rec in recs { emit(cx, rec, true, "exhaustive:oracle-only"); }
        cx.exhaustive_blocks.push(format!(
            "retry: all {n_scripts} outcome scripts of length <= {max_len} over {{Ok, 4 transient, 7 permanent kinds}} x max_attempts 0..6 x wrappers run_with_retry / OperationBuilder / CloudIOExecutor + run_cloud_io_batch over 2 items, zero delays (model asked for length <= {model_len} and for every script that the run consumes completely; the rest judged by the oracle only)"
        ));
        cx.exhaustive_blocks.push(format!(
            "retry, non-zero delays: the {n_canon} scripts of length <= {max_len} in which nothing follows the first Ok/permanent outcome x max_attempts 0..6 x {{initial 1 < cap 2, initial 2 > cap 1}} ms, multiplier 2.0 x retry_with_backoff / run_with_retry / run_cloud_io_with_retry / builder / executor; the same scripts with zero delays x run_with_timeout_and_retry / run_cloud_io_with_retry_and_timeout / builder / executor with a 60 s limit; run_cloud_io_batch over 2 and 3 items ({n_io_canon} completely consumed (script, budget) pairs for 2 items) with both non-zero delay configurations, over 1 item with zero delays ({n_jobs} runs with real sleeps on {PAR_THREADS} threads)"
        ));
    }
    {
        // the other entry points on all scripts of length <= 2 (<= 3 thorough), with and without a (huge) timeout
        let l2 = match cx.tier { Tier::Quick => 2, _ => 3 };
        let mut scripts: Vec<Vec<Oc>> = vec![];
        for_all_seqs(&outcomes, l2, &mut |s| scripts.push(s.to_vec()));
        for s in &scripts {
            for max in [0u32, 1, 2, 3] {
                for w in W_RETRY_ONLY { one_retry(cx, w, Some(zero(max)), None, 0, s, true); }
                for w in ["tr", "ciotr", "bld", "exe"] { one_retry(cx, w, Some(zero(max)), Some(60_000), 0, s, true); }
            }
            for w in ["bld", "exe"] {
                one_retry(cx, w, None, None, 0, s, true);
                one_retry(cx, w, None, Some(60_000), 0, s, true);
            }
        }
        cx.exhaustive_blocks.push(format!(
            "retry: all {} scripts of length <= {l2} x max_attempts {{0,1,2,3}} x retry_with_backoff / run_cloud_io_with_retry / run_with_timeout_and_retry / run_cloud_io_with_retry_and_timeout / builder+executor with timeout and without retry", scripts.len()
        ));
    }
    {
        // long scripts: budgets far beyond the exhaustive block (an attempt ceiling such as `.min(16)` is invisible
        // below it). 70 transient outcomes / 69 + Ok / 69 + permanent x budgets x every retry entry point and the
        // per-item batch, zero delays.
        let t = |n: usize| -> Vec<Oc> { (0..n).map(|j| Oc::Err(SPEC_TRANSIENT[j % 4])).collect() };
        let mut scripts: Vec<Vec<Oc>> = vec![t(70)];
        let mut s = t(69); s.push(Oc::Ok); scripts.push(s);
        let mut s = t(69); s.push(Oc::Err(2)); scripts.push(s);
        let budgets = [16u32, 17, 33, 64, 65, 1000, u32::MAX];
        let mut cnt = 0usize;
        for s in &scripts {
            for &max in &budgets {
                for w in ["raw", "run", "cio", "bld", "exe"] { one_retry(cx, w, Some(zero(max)), None, 0, s, true); cnt += 1; }
                for w in ["tr", "ciotr", "bld", "exe"] { one_retry(cx, w, Some(zero(max)), Some(60_000), 0, s, true); cnt += 1; }
                for n_items in [1usize, 2] { one_iobatch(cx, zero(max), n_items, s); cnt += 1; }
            }
        }
        cx.exhaustive_blocks.push(format!(
            "retry, long scripts: {{70 transient outcomes, 69 transient + Ok, 69 transient + NotFound}} x max_attempts {budgets:?} x retry_with_backoff / run_with_retry / run_cloud_io_with_retry / builder / executor, the four timeout+retry entry points (60 s limit), run_cloud_io_batch over 1 and 2 items; zero delays ({cnt} cases, up to 70 attempts each)"
        ));
    }
    {
        // delays: all-transient prefixes, every small (initial, cap), the multiplier classes
        let inits: Vec<u64> = if cx.tier != Tier::Thorough { vec![0, 1, 2] } else { vec![0, 1, 2, 3] };
        let caps: Vec<u64> = if cx.tier != Tier::Thorough { vec![0, 1, 3] } else { vec![0, 1, 2, 3] };
        let mults: Vec<f64> = if cx.tier != Tier::Thorough { vec![2.0, 1.5, f64::NAN, 1.9999999999999998] } else { MULTS.to_vec() };
        let maxes: Vec<u32> = if cx.tier != Tier::Thorough { vec![0, 2, 4, 6] } else { (0..=6).collect() };
        let tails: Vec<usize> = if cx.tier != Tier::Thorough { vec![2, 5] } else { vec![0, 1, 2, 3, 5] };
        let mut cnt = 0;
        for &init in &inits { for &cap in &caps { for &mult in &mults { for &max in &maxes { for &k in &tails {
            let mut s: Vec<Oc> = (0..k).map(|j| Oc::Err(SPEC_TRANSIENT[j % 4])).collect();
            s.push(if (k + max as usize) % 3 == 0 { Oc::Err(9) } else { Oc::Ok });
            let w = ["raw", "run", "bld", "exe", "cio"][cnt % 5];
            one_retry(cx, w, Some(RCfg { max, init, cap, mult }), None, 0, &s, true);
            cnt += 1;
        }}}}}
        cx.exhaustive_blocks.push(format!(
            "retry delays: initial {inits:?} x cap {caps:?} ms x {} multiplier classes (>=2, <2, NaN, just below 2, ...) x max_attempts {maxes:?} x transient prefixes {tails:?} ({cnt} cases)", mults.len()
        ));
    }
    {
        // batch: items 0..8 x chunk size 0..9 x failing chunk index (none, each chunk) x both entry points
        let mut cnt = 0;
        for n in 0..=8usize {
            for size in 0..=9usize {
                let n_chunks = n.div_ceil(size.max(1));
                for (w, par) in [("raw", false), ("run", false), ("run", true)] {
                    one_batch_p(cx, w, n, size, par, &[]);
                    cnt += 1;
                    for j in 0..=n_chunks { // j == n_chunks: the failure is scripted beyond the last chunk
                        let mut f = vec![Pr::Ok; j];
                        f.push(Pr::Err((j + n + size) % 11));
                        one_batch_p(cx, w, n, size, par, &f);
                        cnt += 1;
                    }
                }
            }
        }
        // many items / many chunks (a chunk-count ceiling is invisible below it)
        for (n, size, fail_at) in [(1000usize, 1usize, None), (1000, 1, Some(777usize)), (1000, 7, Some(100)), (1500, 0, None), (1000, 999, Some(1)), (1000, 1001, None)] {
            for (w, par) in [("raw", false), ("run", false), ("run", true)] {
                let f: Vec<Pr> = match fail_at { None => vec![], Some(j) => { let mut f = vec![Pr::Ok; j]; f.push(Pr::Err(5)); f } };
                one_batch_p(cx, w, n, size, par, &f);
                cnt += 1;
            }
        }
        cx.exhaustive_blocks.push(format!("batch: items 0..8 x chunk size 0..9 x failing chunk (none, every index, one past the end) x batch_in_chunks / run_batch_operation with parallel = false and true; 1000-1500 items in up to 1500 chunks ({cnt} cases)"));
    }
    {
        // pagination: every page script over {empty, 1, 2 items} x has_more x {permanent, transient error}
        let alpha = [Pg::Page(0, true), Pg::Page(0, false), Pg::Page(1, true), Pg::Page(1, false), Pg::Page(2, true), Pg::Page(2, false), Pg::Err(2), Pg::Err(5)];
        let pl = match cx.tier { Tier::Quick => 4, Tier::Thorough => 5, Tier::Search => 4 };
        let mut scripts: Vec<Vec<Pg>> = vec![];
        for_all_seqs(&alpha, pl, &mut |s| scripts.push(s.to_vec()));
        let mut cnt = 0usize;
        for s in &scripts {
            for mp in [None, Some(0u32), Some(1), Some(2), Some(3), Some(4), Some(6)] {
                let w = ["raw", "run", "cio"][cnt % 3];
                one_page(cx, w, 1 + (cnt % 4) as u32, mp, s);
                cnt += 1;
            }
        }
        // long listings (a page ceiling such as `page >= 1000` is invisible below it): 1100 one-item pages
        let all_more: Vec<Pg> = vec![Pg::Page(1, true); 1100];
        let mut last_final = vec![Pg::Page(1, true); 1099];
        last_final.push(Pg::Page(1, false));
        let mut long_cnt = 0usize;
        for w in ["raw", "run", "cio"] {
            for mp in [None, Some(2000u32)] { one_page(cx, w, 1, mp, &all_more); long_cnt += 1; }
            for mp in [None, Some(2000u32), Some(1100), Some(1050)] { one_page(cx, w, 1, mp, &last_final); long_cnt += 1; }
        }
        cx.exhaustive_blocks.push(format!("pagination: all {} page scripts of length <= {pl} over {{0,1,2 items}} x has_more x {{NotFound, Network}} errors x max_pages {{None,0,1,2,3,4,6}} ({cnt} cases); 1100 one-item pages (all has_more / the last one final) x max_pages {{None, 2000, 1100, 1050}} x 3 entry points ({long_cnt} cases)", scripts.len()));
    }
    {
        // run_parallel: every outcome script of length <= 3 (4 thorough)
        let pl = match cx.tier { Tier::Thorough => 4, _ => 3 };
        let mut scripts: Vec<Vec<Oc>> = vec![];
        for_all_seqs(&outcomes, pl, &mut |s| scripts.push(s.to_vec()));
        for s in &scripts { one_parallel(cx, s); }
        // run_with_context: every action list of length <= 3 over {inc, 2 keys x 2 values} as the operation's
        // actions, after 0 or 2 preparatory actions, ending in Ok / a permanent / a transient error
        let acts = [Act::Inc, Act::Meta(0, 0), Act::Meta(0, 1), Act::Meta(1, 0), Act::Meta(1, 2)];
        let mut lists: Vec<Vec<Act>> = vec![];
        for_all_seqs(&acts, 3, &mut |a| lists.push(a.to_vec()));
        let mut cnt = 0usize;
        for a in &lists {
            for pre in [&[][..], &[Act::Meta(0, 2), Act::Inc][..]] {
                for r in [Oc::Ok, Oc::Err(2), Oc::Err(5)] {
                    one_context(cx, ["op", "upload_batch", "x-1"][cnt % 3], pre, a, r);
                    cnt += 1;
                }
            }
        }
        cx.exhaustive_blocks.push(format!(
            "run_parallel: all {} outcome scripts of length <= {pl}; run_with_context: all {} action lists of length <= 3 over {{increment_retry, add_metadata on 2 keys x 2 values}} x {{fresh, prepared}} context x {{Ok, NotFound, Network}} ({cnt} cases)",
            scripts.len(), lists.len()
        ));
    }
    {
        // with_timeout alone: every outcome kind, within / over the limit (wide margins)
        for o in &outcomes {
            one_timeout(cx, 60_000, 0, *o);
            one_timeout(cx, 1, 5, *o);
            one_timeout(cx, 0, 2, *o);
        }
        // timeout around a retry whose total time depends on the number of attempts: 40 ms per call, limit 100 ms
        let slow: Vec<Vec<Oc>> = vec![
            vec![Oc::Ok], vec![net, Oc::Ok], vec![net, net, Oc::Ok], vec![net, net, Oc::Err(2)], vec![net, net, net],
        ];
        for (j, s) in slow.iter().enumerate() {
            let w = ["tr", "ciotr", "bld", "exe"][j % 4];
            one_retry(cx, w, Some(zero(3)), Some(100), 40, s, true);
            one_retry(cx, w, Some(zero(5)), Some(1), 3, s, true);
        }
        for w in ["bld", "exe"] {
            one_retry(cx, w, None, Some(1), 4, &[Oc::Ok, Oc::Ok], true);
            one_retry(cx, w, None, Some(1), 4, &[Oc::Err(5), Oc::Ok], true);
            one_retry(cx, w, None, Some(60_000), 0, &[Oc::Ok], true);
        }
        // near-limit cases that are nominally WITHIN the limit (the only ones a slow machine can disturb; they
        // are counted and bounded, see `check_timing_skip_rate`): with_timeout alone ...
        for o in &outcomes { one_timeout(cx, 150, 0, *o); }
        for o in [Oc::Ok, Oc::Err(5), Oc::Err(2), Oc::Err(6)] { one_timeout(cx, 150, 40, o); }
        // ... and around retries whose waits count towards the elapsed time (calls of 10 ms, waits 5 + 8 ms)
        let waits = RCfg { max: 4, init: 5, cap: 8, mult: 2.0 };
        for s in &slow {
            for w in ["tr", "ciotr", "bld", "exe"] {
                one_retry(cx, w, Some(waits), Some(150), 10, s, true); // nominal <= 43 ms: within
                one_retry(cx, w, Some(waits), Some(20), 10, s, true); // 2 calls + 1 wait = 25 ms: overrun from the 2nd attempt on
            }
        }
        cx.exhaustive_blocks.push("timeout: with_timeout on all 12 outcomes x {within (60 s and 150 ms limits), overrun, zero limit}; retry+timeout with 40 ms calls against a 100 ms limit (1, 2, 3 attempts) and, for each of the four timeout+retry entry points, with 10 ms calls + 5/8 ms waits against 150 ms / 20 ms limits (an overall limit, not a per-attempt one)".into());
    }

    // ---- (3) random block: longer scripts, bigger budgets, all wrappers, small real delays ----
    let rounds = cx.budget(1500, 20000);
    for _ in 0..rounds {
        let long = cx.rng.chance(1, 10);
        let len = if long { 13 + cx.rng.below(68) } else { cx.rng.below(13) };
        let p_ok = if long { 0 } else { cx.rng.below(4) };
        let script: Vec<Oc> = (0..len).map(|_| {
            let r = cx.rng.below(10);
            if r < p_ok { Oc::Ok } else if r < 8 || long { Oc::Err(SPEC_TRANSIENT[cx.rng.below(4)]) } else { Oc::Err(cx.rng.below(11)) }
        }).collect();
        let max = if long { *cx.rng.pick(&[13u32, 16, 17, 20, 32, 50, 64, 80, 1000, u32::MAX]) } else { *cx.rng.pick(&[0u32, 1, 2, 3, 4, 5, 6, 8, 12, 1000, u32::MAX]) };
        let slow = !long && cx.rng.chance(1, 12);
        let c = RCfg {
            max,
            init: if slow { cx.rng.below(4) as u64 } else { 0 },
            cap: if slow { cx.rng.below(4) as u64 } else { *cx.rng.pick(&[0u64, 0, 5, u64::MAX]) },
            mult: *cx.rng.pick(&MULTS),
        };
        let c = if !slow { RCfg { init: 0, ..c } } else { c };
        match cx.rng.below(8) {
            0 => one_retry(cx, "raw", Some(c), None, 0, &script, true),
            1 => one_retry(cx, "run", Some(c), None, 0, &script, true),
            2 => one_retry(cx, "cio", Some(c), None, 0, &script, true),
            3 => { let w = *cx.rng.pick(&["tr", "ciotr"]); one_retry(cx, w, Some(c), Some(60_000), 0, &script, true) }
            4 => {
                let w = *cx.rng.pick(&["bld", "exe"]);
                let rc = if cx.rng.chance(4, 5) { Some(c) } else { None };
                let lim = if cx.rng.chance(1, 2) { Some(60_000) } else { None };
                one_retry(cx, w, rc, lim, 0, &script, true)
            }
            _ => { let n = cx.rng.below(6); one_iobatch(cx, c, n, &script) }
        }
    }
    let rounds = cx.budget(600, 8000);
    for _ in 0..rounds {
        let n = cx.rng.below(40);
        let size = *cx.rng.pick(&[0usize, 1, 2, 3, 5, 7, 10, 39, 40, 41, 1000, usize::MAX]);
        let flen = cx.rng.below(6);
        let f: Vec<Pr> = (0..flen).map(|_| match cx.rng.below(8) { 0 => Pr::Dup, 1 => Pr::Nil, 2 => Pr::Err(cx.rng.below(11)), _ => Pr::Ok }).collect();
        let (w, par) = *cx.rng.pick(&[("raw", false), ("run", false), ("run", true)]);
        one_batch_p(cx, w, n, size, par, &f);
    }
    let rounds = cx.budget(600, 8000);
    for _ in 0..rounds {
        let len = cx.rng.below(10);
        let script: Vec<Pg> = (0..len).map(|_| match cx.rng.below(12) {
            0 => Pg::Err(cx.rng.below(11)),
            1 => Pg::Page(0, cx.rng.chance(1, 2)),
            _ => Pg::Page(1 + cx.rng.below(4), cx.rng.chance(5, 6)),
        }).collect();
        let mp = *cx.rng.pick(&[None, None, Some(0u32), Some(1), Some(2), Some(3), Some(5), Some(9), Some(u32::MAX)]);
        let w = *cx.rng.pick(&["raw", "run", "cio"]);
        let psize = *cx.rng.pick(&[0u32, 1, 10, 100, u32::MAX]);
        one_page(cx, w, psize, mp, &script);
    }
    // run_parallel / run_with_context: longer random inputs
    let rounds = cx.budget(300, 4000);
    for _ in 0..rounds {
        let len = cx.rng.below(40);
        let p_err = cx.rng.below(5);
        let script: Vec<Oc> = (0..len).map(|_| if cx.rng.below(20) < p_err { Oc::Err(cx.rng.below(11)) } else { Oc::Ok }).collect();
        one_parallel(cx, &script);
        let mk = |cx: &mut Ctx| -> Vec<Act> {
            let n = cx.rng.below(12);
            (0..n).map(|_| if cx.rng.chance(1, 3) { Act::Inc } else { Act::Meta(cx.rng.below(3), cx.rng.below(3)) }).collect()
        };
        let pre = mk(cx);
        let ops = mk(cx);
        let r = if cx.rng.chance(2, 3) { Oc::Ok } else { Oc::Err(cx.rng.below(11)) };
        let name = *cx.rng.pick(&["op", "upload_batch", "x-1", "A"]);
        one_context(cx, name, &pre, &ops, r);
    }
    timing_note(cx);
}
