//! C06, round 3: the blocks the second review asked for (same `COMB` request kind, see c06.rs / Driver/D06.lean).
//!
//!  (4) large sizes: n ∈ {256, 1000}, TopK k ∈ {1, 255, 256, 257, n-1, n, n+1} — size-dependent edits
//!      (`self.k as u8 as usize`, thresholds) — every integer combiner on the same inputs.
//!  (5) IEEE doubles: `xsum` / `xavg` = `Sum<f64>` / `AverageF64` on bit patterns incl. ±0.0, subnormals, ±MAX,
//!      ±inf, NaNs; oracle = the IEEE classification of the result from the classes of the inputs (NaN iff a NaN
//!      or both infinities occur; else the infinity that occurs; else finite) wherever no finite addition can
//!      overflow, plus the value up to rounding; `omin` / `omax` / `otopk` = `Min/Max/TopK<OrdF64>` with an
//!      independent integer key for `total_cmp`; `FCMP` = `OrdF64::cmp` itself.
//!  (6) `Tagged { key, tag }` with `Ord` on `key` only: `tmin` / `tmax` show which of several equal extrema each
//!      entry point returns (correspondence with the model's per-entry-point tie rule), `ttopk` is compared on
//!      keys; oracle = the property up to `Ord`-equality (extremal key, an element of the input).
//!  (7) `kmv` = `KMVApproxDistinctCount` through the same request kind, the REAL `build_from_group` included.

use crate::c06::{
    INT_NAMES, Name, Op, all_seqs, assemble, cut, enc_all, enc_prog, flat, left_deep, one_int, permutations, random_shape,
    right_deep, run_case, scope, shapes, show_ints, shuffle, splits,
};
use crate::ctx::{Ctx, Tier};
use ironbeam::OrdF64;
use ironbeam::combiners::{AverageF64, KMVApproxDistinctCount, Max, Min, Sum, TopK, verif_rank_from_value};
use std::cmp::{Ordering, Reverse};
use std::collections::BinaryHeap;

// ---------------------------------------------------------------- helpers

fn nparts<V>(prog: &[Op<V>]) -> usize {
    prog.iter().filter(|o| !matches!(o, Op::M)).count()
}
fn map_prog<V, W>(prog: &[Op<V>], f: &dyn Fn(&V) -> W) -> Vec<Op<W>> {
    prog.iter()
        .map(|op| match op {
            Op::A(x) => Op::A(x.iter().map(f).collect()),
            Op::B(x) => Op::B(x.iter().map(f).collect()),
            Op::P(x) => Op::P(x.iter().map(f).collect()),
            Op::M => Op::M,
        })
        .collect()
}
/// a random program over `all` (indices), returns (program over indices, the values it finally holds, in order)
fn random_prog(cx: &mut Ctx, n: usize, max_parts: usize, extra: usize) -> Vec<Op<usize>> {
    let idx: Vec<usize> = (0..n).collect();
    let p = 1 + cx.rng.below(max_parts);
    let mut cuts: Vec<usize> = (0..p - 1).map(|_| cx.rng.below(n + 1)).collect();
    cuts.sort();
    let parts = cut(&idx, &cuts);
    let mut order: Vec<usize> = (0..p).collect();
    if cx.rng.chance(2, 3) {
        shuffle(cx, &mut order);
    }
    let mask = cx.rng.next_u64() as u32;
    let shape = match cx.rng.below(4) {
        0 => left_deep(p),
        1 => right_deep(p),
        _ => random_shape(cx, p),
    };
    let mut prog = assemble(&parts, &order, mask, &shape);
    if extra > 0 {
        prog.push(Op::P((n..n + extra).collect()));
    }
    prog
}
fn common_stats<V>(cx: &mut Ctx, name: &str, n: usize, prog: &[Op<V>]) {
    cx.count(&format!("comb:{name}"));
    if prog.iter().any(|o| matches!(o, Op::B(_))) {
        cx.count("has:build_from_group");
    }
    if prog.iter().any(|o| matches!(o, Op::P(_))) {
        cx.count("has:add-after-merge");
    }
    if prog.iter().any(|o| matches!(o, Op::A(x) | Op::B(x) if x.is_empty())) {
        cx.count("has:empty-part");
    }
    cx.count(&format!("ext:n:{}", if n <= 3 { n.to_string() } else if n <= 12 { "4-12".into() } else { ">12".into() }));
}

// ---------------------------------------------------------------- (4) large sizes

fn large_block(cx: &mut Ctx) {
    let sizes: &[usize] = if cx.tier == Tier::Thorough { &[256, 1000, 3000] } else { &[256, 1000] };
    let mut cases = 0usize;
    for &n in sizes {
        for data in 0..3 {
            let all: Vec<i64> = match data {
                0 => (0..n).map(|_| cx.rng.range(-1_000_000_000, 1_000_000_000)).collect(), // (almost) distinct
                1 => (0..n).map(|_| cx.rng.range(-25, 25)).collect(),                       // many ties
                _ => (0..n as i64).rev().map(|i| i * 3 - 700).collect(),                    // descending
            };
            // programs: two halves; four random parts (random shape, order, lifted mask); seven uneven parts left-deep
            let mut progs: Vec<Vec<Op<i64>>> = vec![];
            progs.push(assemble(&cut(&all, &[n / 2]), &[0, 1], cx.rng.below(4) as u32, &left_deep(2)));
            {
                let mut cuts: Vec<usize> = (0..3).map(|_| cx.rng.below(n + 1)).collect();
                cuts.sort();
                let mut order: Vec<usize> = (0..4).collect();
                shuffle(cx, &mut order);
                let mask = cx.rng.below(16) as u32;
                let shape = random_shape(cx, 4);
                progs.push(assemble(&cut(&all, &cuts), &order, mask, &shape));
            }
            {
                let mut cuts = [1, 2, 255.min(n), 257.min(n), (n / 2).max(257.min(n)), n - 1];
                cuts.sort();
                let mask = cx.rng.below(128) as u32;
                progs.push(assemble(&cut(&all, &cuts), &(0..7).collect::<Vec<_>>(), mask, &left_deep(7)));
            }
            for prog in &progs {
                debug_assert_eq!(flat(prog).len(), n);
                for name in INT_NAMES {
                    if name == Name::TopK {
                        for k in [1, 255, 256, 257, n - 1, n, n + 1] {
                            one_int(cx, name, k, &all, prog);
                            cx.count(&format!("large:topk n={n} k={}", if k >= n - 1 { format!("n{:+}", k as i64 - n as i64) } else { k.to_string() }));
                            cases += 1;
                        }
                    } else {
                        one_int(cx, name, 0, &all, prog);
                        cases += 1;
                    }
                }
            }
        }
    }
    // a sketch size beyond u16: only the extend path can be exercised cheaply (k > n), plus one two-pointer merge in thorough
    {
        let all: Vec<i64> = (0..300).map(|i| 1000 - i).collect();
        let prog = assemble(&cut(&all, &[100, 200]), &[0, 1, 2], 2, &left_deep(3));
        one_int(cx, Name::TopK, 65_537, &all, &prog);
        one_int(cx, Name::TopK, 4_294_967_297, &all, &prog);
        cases += 2;
    }
    if cx.tier == Tier::Thorough {
        let n = 70_000usize;
        let all: Vec<i64> = (0..n as i64).map(|i| -(i % 35_000) * 2 - (i / 35_000)).collect(); // two descending runs
        let prog = assemble(&cut(&all, &[n / 2]), &[0, 1], 0, &left_deep(2));
        one_int(cx, Name::TopK, 65_537, &all, &prog);
        cx.count("large:topk n=70000 k=65537 (two-pointer path beyond u16)");
        cases += 1;
    }
    // the ends of i64 (no sums: integer overflow is outside the model)
    for _ in 0..cx.budget(150, 3000) {
        let n = cx.rng.below(12);
        let pool = [i64::MIN, i64::MIN + 1, i64::MAX, i64::MAX - 1, -1, 0, 1, 1 << 62, -(1 << 62), 4_000_000_000, -4_000_000_000];
        let all: Vec<i64> = (0..n).map(|_| if cx.rng.chance(3, 4) { *cx.rng.pick(&pool) } else { cx.rng.next_u64() as i64 }).collect();
        let iprog = random_prog(cx, n, 5, 0);
        let prog = map_prog(&iprog, &|i: &usize| all[*i]);
        for name in [Name::Count, Name::Min, Name::Max, Name::DCount, Name::DSet] {
            one_int(cx, name, 0, &all, &prog);
        }
        let k = cx.rng.below(n + 2);
        one_int(cx, Name::TopK, k, &all, &prog);
        cx.count("large:values at the ends of i64");
        cases += 6;
    }
    cx.exhaustive_blocks.push(format!(
        "large sizes (not exhaustive): n in {sizes:?} x {{distinct, many ties, descending}} x {{2 halves, 4 random parts in a random tree, 7 uneven parts}} x all 7 integer combiners, TopK k in {{1,255,256,257,n-1,n,n+1}}; k = 65537 and 2^32+1 on the extend path; values at the ends of i64 (no sums): {cases} cases"
    ));
}

// ---------------------------------------------------------------- (5) IEEE doubles

fn xs(b: u64) -> String {
    format!("{b:016x}")
}
fn show_x(x: f64) -> String {
    if x.is_nan() { "NaN".into() } else { format!("X{:016x}", x.to_bits()) }
}
fn show_bits(x: f64) -> String {
    format!("X{:016x}", x.to_bits())
}
fn cls(x: f64) -> &'static str {
    if x.is_nan() {
        "nan"
    } else if x == f64::INFINITY {
        "+inf"
    } else if x == f64::NEG_INFINITY {
        "-inf"
    } else {
        "fin"
    }
}
/// IEEE-754: the class of a sum whose finite additions do not overflow depends on the classes of the terms only
fn sum_class(all: &[f64]) -> &'static str {
    let nan = all.iter().any(|x| x.is_nan());
    let pinf = all.iter().any(|x| *x == f64::INFINITY);
    let ninf = all.iter().any(|x| *x == f64::NEG_INFINITY);
    if nan || (pinf && ninf) {
        "nan"
    } else if pinf {
        "+inf"
    } else if ninf {
        "-inf"
    } else {
        "fin"
    }
}
/// Σ|finite x|: every partial sum of the finite terms, in any grouping, is bounded by (a little more than) this
fn magnitude(all: &[f64]) -> f64 {
    all.iter().filter(|x| x.is_finite()).map(|x| x.abs()).sum()
}

/// the element type `AverageF64` is run on (`V: Into<f64>`); the request always carries the converted doubles
#[derive(Clone, Copy, PartialEq, Eq, Debug)]
enum Elem {
    F64,
    I32,
    U8,
    F32,
}

fn one_xfloat(cx: &mut Ctx, avg: bool, all: &[f64], prog: &[Op<f64>]) {
    one_xfloat_as(cx, avg, Elem::F64, all, prog)
}

/// `all` / `prog` hold values that are exactly representable in `elem`
fn one_xfloat_as(cx: &mut Ctx, avg: bool, elem: Elem, all: &[f64], prog: &[Op<f64>]) {
    let name = if avg { "xavg" } else { "xsum" };
    let n = all.len();
    let mag = magnitude(all);
    let safe = mag <= f64::MAX * (1.0 - 1e-9);
    let s = |x: &f64| xs(x.to_bits());
    let req = format!("COMB {name} {} {} | {}", safe as u8, enc_all(all, &s), enc_prog(prog, &s));
    let sa = |a: &(f64, u64)| format!("a={}/n={}", show_x(a.0), a.1);
    let (ts, fs, a) = if avg {
        cx.count(&format!("xavg:element type {elem:?}"));
        match elem {
            Elem::F64 => run_case(&AverageF64, prog, all, show_x, sa),
            Elem::I32 => run_case(&AverageF64, &map_prog(prog, &|x: &f64| *x as i32), &all.iter().map(|x| *x as i32).collect::<Vec<_>>(), show_x, sa),
            Elem::U8 => run_case(&AverageF64, &map_prog(prog, &|x: &f64| *x as u8), &all.iter().map(|x| *x as u8).collect::<Vec<_>>(), show_x, sa),
            Elem::F32 => run_case(&AverageF64, &map_prog(prog, &|x: &f64| *x as f32), &all.iter().map(|x| *x as f32).collect::<Vec<_>>(), show_x, sa),
        }
    } else {
        run_case(&Sum::<f64>::new(), prog, all, show_x, |a: &f64| format!("a={}", show_x(*a)))
    };
    let parse = |s: &str| -> Option<f64> {
        if s == "NaN" { Some(f64::NAN) } else { s.strip_prefix('X').and_then(|h| u64::from_str_radix(h, 16).ok()).map(f64::from_bits) }
    };
    let (t, f) = (parse(&ts), parse(&fs));
    let c = if safe { t.map_or("?", cls) } else { "?" };
    let i = cx.case(req, format!("{ts} {fs} {a} C={c}"), n >= 2 && nparts(prog) >= 2);
    common_stats(cx, name, n, prog);
    // the class the result must have
    let want_cls = if avg && n == 0 { "fin" } else { sum_class(all) };
    cx.count(&format!("xfloat:{}:{}", if safe { "no-overflow regime" } else { "overflow possible (correspondence + NaN rule only)" }, want_cls));
    // reference value: the plain left-to-right sum, computed here
    let ref_sum: f64 = all.iter().fold(0.0, |a, x| a + x);
    let eps = f64::EPSILON;
    let tiny = f64::from_bits(4);
    for (which, got) in [("tree", t), ("fold", f)] {
        let Some(got) = got else {
            cx.oracle_fail(i, &format!("{name}-{which}-panics"), format!("{which} output {}", if which == "tree" { &ts } else { &fs }));
            continue;
        };
        if safe {
            if cls(got) != want_cls {
                cx.oracle_fail(
                    i,
                    &format!("{name}-{which}-class-differs-from-ieee-classification"),
                    format!("{which} output {} is {}, the inputs' classes give {want_cls}", show_x(got), cls(got)),
                );
                continue;
            }
            if want_cls == "fin" {
                let (want, tol) = if avg {
                    if n == 0 { (0.0, 0.0) } else { (ref_sum / n as f64, (4.0 * (n as f64 + 1.0) * eps * mag) / n as f64 + tiny) }
                } else {
                    (ref_sum, 4.0 * (n as f64 + 1.0) * eps * mag)
                };
                if !((got - want).abs() <= tol) {
                    cx.oracle_fail(
                        i,
                        &format!("{name}-{which}-differs-from-reference"),
                        format!("{which} output {got:e}, reference {want:e}, allowed rounding {tol:e}"),
                    );
                }
            }
        } else {
            // overflow possible: grouping decides between finite / inf / NaN; only the absorbing rules remain
            let must_nan = all.iter().any(|x| x.is_nan()) || (all.contains(&f64::INFINITY) && all.contains(&f64::NEG_INFINITY));
            if must_nan && !got.is_nan() {
                cx.oracle_fail(i, &format!("{name}-{which}-class-differs-from-ieee-classification"), format!("{which} output {} but a NaN / both infinities are among the inputs", show_x(got)));
            }
        }
    }
}

/// the integer `f64::total_cmp` orders by, computed independently of the standard library
fn ord_key(x: f64) -> i128 {
    let b = x.to_bits();
    if b < (1u64 << 63) { b as i128 } else { -1 - (b - (1u64 << 63)) as i128 }
}

#[derive(Clone, Copy, PartialEq, Eq, Debug)]
enum OName {
    Min,
    Max,
    /// `Max` behind a wrapper that keeps the trait's default `build_from_group` (Tagged only)
    MaxDefault,
    TopK,
}

/// a combiner that delegates `CombineFn` and does NOT override `LiftableCombiner::build_from_group`:
/// its `build_from_group` is the trait's default (src/collection.rs: `create` + `add_input` of every value)
struct DefaultLift<C>(C);
impl<V, A, O, C> ironbeam::collection::CombineFn<V, A, O> for DefaultLift<C>
where
    C: ironbeam::collection::CombineFn<V, A, O>,
{
    fn create(&self) -> A {
        self.0.create()
    }
    fn add_input(&self, acc: &mut A, v: V) {
        self.0.add_input(acc, v)
    }
    fn merge(&self, acc: &mut A, other: A) {
        self.0.merge(acc, other)
    }
    fn finish(&self, acc: A) -> O {
        self.0.finish(acc)
    }
}
impl<V: ironbeam::RFBound, A, O, C> ironbeam::collection::LiftableCombiner<V, A, O> for DefaultLift<C> where C: ironbeam::collection::CombineFn<V, A, O> {}
fn one_ordf(cx: &mut Ctx, name: OName, k: usize, all: &[f64], prog: &[Op<f64>]) {
    let nm = match name {
        OName::Min => "omin",
        OName::Max | OName::MaxDefault => "omax",
        OName::TopK => "otopk",
    };
    let s = |x: &f64| xs(x.to_bits());
    let req = format!("COMB {nm} {k} {} | {}", enc_all(all, &s), enc_prog(prog, &s));
    let oall: Vec<OrdF64> = all.iter().map(|x| OrdF64(*x)).collect();
    let oprog = map_prog(prog, &|x: &f64| OrdF64(*x));
    let mut desc: Vec<f64> = all.to_vec();
    desc.sort_by(|a, b| ord_key(*b).cmp(&ord_key(*a)));
    let list = |v: &[f64]| if v.is_empty() { "-".to_string() } else { v.iter().map(|x| show_bits(*x)).collect::<Vec<_>>().join(",") };
    let want = match name {
        OName::Min => desc.last().map_or("PANIC".into(), |x| show_bits(*x)),
        OName::Max | OName::MaxDefault => desc.first().map_or("PANIC".into(), |x| show_bits(*x)),
        OName::TopK => {
            let mut t = desc.clone();
            t.truncate(k);
            list(&t)
        }
    };
    let opt = |a: &Option<OrdF64>| a.map_or("a=none".to_string(), |x| format!("a={}", show_bits(x.0)));
    let (t, f, a) = match name {
        OName::Min => run_case(&Min::<OrdF64>::new(), &oprog, &oall, |o: OrdF64| show_bits(o.0), opt),
        OName::Max | OName::MaxDefault => run_case(&Max::<OrdF64>::new(), &oprog, &oall, |o: OrdF64| show_bits(o.0), opt),
        OName::TopK => run_case(
            &TopK::<OrdF64>::new(k),
            &oprog,
            &oall,
            |o: Vec<OrdF64>| list(&o.iter().map(|x| x.0).collect::<Vec<_>>()),
            |h: &BinaryHeap<Reverse<OrdF64>>| {
                let mut v: Vec<f64> = h.iter().map(|r| r.0.0).collect();
                v.sort_by(|a, b| ord_key(*a).cmp(&ord_key(*b)));
                format!("a={}", list(&v))
            },
        ),
    };
    let i = cx.case(req, format!("{t} {f} {a}"), all.len() >= 2 && nparts(prog) >= 2);
    common_stats(cx, nm, all.len(), prog);
    if t != want {
        cx.oracle_fail(i, &format!("{nm}-tree-differs-from-reference"), format!("tree output {t}, reference (by the total-order key) {want}"));
    }
    if f != want {
        cx.oracle_fail(i, &format!("{nm}-fold-differs-from-reference"), format!("fold output {f}, reference (by the total-order key) {want}"));
    }
}

fn one_fcmp(cx: &mut Ctx, a: f64, b: f64) {
    let real = match crate::ctx::guarded(|| OrdF64(a).cmp(&OrdF64(b))) {
        Ok(Ordering::Less) => "LT",
        Ok(Ordering::Equal) => "EQ",
        Ok(Ordering::Greater) => "GT",
        Err(_) => "PANIC",
    };
    let want = match ord_key(a).cmp(&ord_key(b)) {
        Ordering::Less => "LT",
        Ordering::Equal => "EQ",
        Ordering::Greater => "GT",
    };
    let i = cx.case(format!("FCMP {} {}", xs(a.to_bits()), xs(b.to_bits())), format!("{real} {real}"), a.to_bits() != b.to_bits());
    cx.count("fcmp");
    if real != want {
        cx.oracle_fail(i, "ordf64-cmp-differs-from-the-total-order", format!("OrdF64({a:?}).cmp(OrdF64({b:?})) = {real}, the IEEE total order gives {want}"));
    }
    // the derived operators the combiners use (`<`, `>`, `>=`) must agree with `cmp`
    let (x, y) = (OrdF64(a), OrdF64(b));
    let derived_ok = (x < y) == (want == "LT") && (x > y) == (want == "GT") && (x >= y) == (want != "LT");
    if !derived_ok {
        cx.oracle_fail(i, "ordf64-operators-disagree-with-cmp", format!("a={a:?} b={b:?}: < {} > {} >= {}", x < y, x > y, x >= y));
    }
}

const SPECIALS: [u64; 30] = [
    0x0000000000000000, // +0.0
    0x8000000000000000, // -0.0
    0x3ff0000000000000, // 1.0
    0xbff0000000000000, // -1.0
    0x3ff8000000000000, // 1.5
    0x3fb999999999999a, // 0.1
    0x3ff0000000000001, // 1 + eps
    0x4340000000000000, // 2^53
    0xc340000000000001, // -(2^53 + 2)
    0x0000000000000001, // smallest subnormal
    0x8000000000000001, // -smallest subnormal
    0x000fffffffffffff, // largest subnormal
    0x0010000000000000, // smallest normal
    0x7fefffffffffffff, // MAX
    0xffefffffffffffff, // -MAX
    0x7fdfffffffffffff, // MAX / 2
    0xffdfffffffffffff, // -MAX / 2
    0x7e37e43c8800759c, // 1e300
    0xfe37e43c8800759c, // -1e300
    0x7ff0000000000000, // +inf
    0xfff0000000000000, // -inf
    0x7ff8000000000000, // quiet NaN
    0xfff8000000000000, // -quiet NaN
    0x7ff0000000000001, // signalling NaN
    0xfff0000000000001, // -signalling NaN
    0x7ff8000000000123, // NaN with a payload
    0x7fffffffffffffff, // the largest NaN
    0xffffffffffffffff, // the smallest (most negative) NaN
    0x4059000000000000, // 100.0
    0xc059000000000000, // -100.0
];

fn random_f64(cx: &mut Ctx) -> f64 {
    match cx.rng.below(10) {
        0..=3 => f64::from_bits(*cx.rng.pick(&SPECIALS)),
        4..=6 => (cx.rng.range(-4_000_000, 4_000_000) as f64) / 1024.0, // moderate, exact in binary
        7 => (cx.rng.range(-1_000_000, 1_000_000) as f64) * 1e-3,        // moderate, inexact
        8 => f64::from_bits(cx.rng.next_u64()),                          // any bit pattern
        _ => f64::from_bits((cx.rng.next_u64() & 0x800f_ffff_ffff_ffff) | ((cx.rng.range(0x3c0, 0x440) as u64) << 52)), // exponent near 0
    }
}

fn float_blocks(cx: &mut Ctx) {
    let f = f64::from_bits;
    // corpus: the design witnesses
    let w = |v: &[u64]| v.iter().map(|b| f64::from_bits(*b)).collect::<Vec<f64>>();
    let (pinf, ninf, nan, max, nzero) = (0x7ff0000000000000u64, 0xfff0000000000000u64, 0x7ff8000000000000u64, 0x7fefffffffffffffu64, 0x8000000000000000u64);
    // +inf and -inf in different parts: NaN whatever the grouping
    one_xfloat(cx, false, &w(&[pinf, 0x3ff0000000000000, ninf]), &[Op::A(w(&[pinf, 0x3ff0000000000000])), Op::B(w(&[ninf])), Op::M]);
    one_xfloat(cx, true, &w(&[pinf, ninf]), &[Op::A(w(&[pinf])), Op::A(w(&[ninf])), Op::M]);
    one_xfloat(cx, true, &w(&[nan, 0x3ff0000000000000]), &[Op::B(w(&[nan])), Op::A(w(&[0x3ff0000000000000])), Op::M]);
    // -0.0: `Iterator::sum` starts from -0.0, `create` from +0.0 — the lifted mean of [-0.0] is -0.0, the unlifted one +0.0
    one_xfloat(cx, true, &w(&[nzero]), &[Op::B(w(&[nzero]))]);
    one_xfloat(cx, true, &w(&[nzero]), &[Op::A(w(&[nzero]))]);
    one_xfloat(cx, true, &[], &[Op::B(vec![]), Op::A(vec![]), Op::M]);
    one_xfloat(cx, false, &w(&[nzero, nzero]), &[Op::B(w(&[nzero])), Op::B(w(&[nzero])), Op::M]);
    // overflow: (MAX + MAX) + -MAX = inf but MAX + (MAX + -MAX) = MAX — grouping decides (not claimed by any oracle)
    one_xfloat(cx, false, &w(&[max, max, max ^ nzero]), &[Op::A(w(&[max, max])), Op::A(w(&[max ^ nzero])), Op::M]);
    one_xfloat(cx, false, &w(&[max, max, max ^ nzero]), &[Op::A(w(&[max])), Op::A(w(&[max, max ^ nzero])), Op::M]);
    // subnormals add exactly
    one_xfloat(cx, false, &w(&[1, 1, 0x8000000000000001]), &[Op::A(w(&[1])), Op::B(w(&[1, 0x8000000000000001])), Op::M]);
    one_ordf(cx, OName::Max, 0, &w(&[nan, pinf, 0xfff8000000000000]), &[Op::A(w(&[nan, pinf])), Op::B(w(&[0xfff8000000000000])), Op::M]);
    one_ordf(cx, OName::Min, 0, &w(&[0, nzero]), &[Op::A(w(&[0])), Op::B(w(&[nzero])), Op::M]);
    one_ordf(cx, OName::TopK, 2, &w(&[ninf, nan, 0, nzero]), &[Op::A(w(&[ninf, nan])), Op::A(w(&[0, nzero])), Op::M]);

    // OrdF64::cmp on every pair of special bit patterns
    for a in SPECIALS {
        for b in SPECIALS {
            one_fcmp(cx, f(a), f(b));
        }
    }
    for _ in 0..cx.budget(300, 5000) {
        let a = random_f64(cx);
        let b = if cx.rng.chance(1, 4) { f(a.to_bits() ^ (1 << cx.rng.below(64))) } else { random_f64(cx) };
        one_fcmp(cx, a, b);
    }
    cx.exhaustive_blocks.push(format!("OrdF64::cmp on all {}x{} pairs of special bit patterns (zeros, subnormals, +-MAX, infinities, quiet/signalling/negative NaNs)", SPECIALS.len(), SPECIALS.len()));

    // exhaustive small scope: sums / means over 8 classes-covering values, extrema / top-k over 9 order-covering values
    let alpha_sum: [u64; 8] = [0, nzero, 0x3ff8000000000000, pinf, ninf, nan, 0x7fdfffffffffffff, 0xffdfffffffffffff];
    let alpha_ord: [u64; 9] = [0, nzero, 0x3ff8000000000000, 0xbff8000000000000, pinf, ninf, nan, 0xfff8000000000000, 0x7ff0000000000001];
    let nmax = scope(cx, 3, 4);
    let mut count = 0usize;
    for (alpha, ord) in [(&alpha_sum[..], false), (&alpha_ord[..], true)] {
        let idx: Vec<i64> = (0..alpha.len() as i64).collect();
        for seq in all_seqs(&idx, if ord { 3 } else { nmax }) {
            let all: Vec<f64> = seq.iter().map(|i| f(alpha[*i as usize])).collect();
            for p in 1..=3usize {
                for cuts in splits(all.len(), p) {
                    let parts = cut(&all, &cuts);
                    let id: Vec<usize> = (0..p).collect();
                    let mut order = id.clone();
                    shuffle(cx, &mut order);
                    let mask = cx.rng.below(1 << p) as u32;
                    let shape = if cx.rng.chance(1, 3) { right_deep(p) } else { random_shape(cx, p) };
                    for prog in [assemble(&parts, &id, 0, &left_deep(p)), assemble(&parts, &order, mask, &shape)] {
                        if ord {
                            one_ordf(cx, OName::Min, 0, &all, &prog);
                            one_ordf(cx, OName::Max, 0, &all, &prog);
                            for k in 0..=all.len() + 1 {
                                one_ordf(cx, OName::TopK, k, &all, &prog);
                            }
                        } else {
                            one_xfloat(cx, false, &all, &prog);
                            one_xfloat(cx, true, &all, &prog);
                        }
                        count += 1;
                    }
                }
            }
        }
    }
    cx.exhaustive_blocks.push(format!(
        "IEEE doubles: all sequences of length <= {nmax} over {{+0,-0,1.5,+inf,-inf,NaN,MAX/2,-MAX/2}} (Sum<f64>, AverageF64) and of length <= 3 over {{+0,-0,1.5,-1.5,+inf,-inf,NaN,-NaN,sNaN}} (Min/Max/TopK<OrdF64>, every k in 0..n+1) x all ordered splits into 1..3 possibly-empty parts x {{left-deep in input order; one seeded random tree + leaf order + build_from_group mask}}: {count} (sequence,split,tree) triples"
    ));

    // random: more values (subnormals, payloads, huge magnitudes, arbitrary bit patterns), more parts, values added after merges
    for _ in 0..cx.budget(700, 20000) {
        let n = cx.rng.below(13);
        let extra = if cx.rng.chance(1, 3) { cx.rng.below(3) } else { 0 };
        let all: Vec<f64> = (0..n + extra).map(|_| random_f64(cx)).collect();
        let iprog = random_prog(cx, n, 6, extra);
        let prog = map_prog(&iprog, &|i: &usize| all[*i]);
        let avg = cx.rng.chance(1, 2);
        one_xfloat(cx, avg, &all, &prog);
        // AverageF64 on other `Into<f64>` element types (the conversion is exact)
        let elem = *cx.rng.pick(&[Elem::I32, Elem::U8, Elem::F32]);
        let conv = |x: f64| -> f64 {
            match elem {
                Elem::I32 => (if x.is_finite() { x.clamp(-2147483648.0, 2147483647.0) as i32 } else if x.is_nan() { 0 } else if x > 0.0 { i32::MAX } else { i32::MIN }) as f64,
                Elem::U8 => (if x.is_finite() { x.abs().min(255.0) as u8 } else { 255 }) as f64,
                _ => (x as f32) as f64,
            }
        };
        let call: Vec<f64> = all.iter().map(|x| conv(*x)).collect();
        let cprog = map_prog(&prog, &|x: &f64| conv(*x));
        one_xfloat_as(cx, true, elem, &call, &cprog);
        match cx.rng.below(3) {
            0 => one_ordf(cx, OName::Min, 0, &all, &prog),
            1 => one_ordf(cx, OName::Max, 0, &all, &prog),
            _ => {
                let k = match cx.rng.below(4) {
                    0 => 0,
                    1 => all.len(),
                    _ => cx.rng.below(all.len() + 2),
                };
                one_ordf(cx, OName::TopK, k, &all, &prog)
            }
        }
    }
}

// ---------------------------------------------------------------- (6) an element type whose Ord ignores a field

#[derive(Clone, Copy, Debug)]
pub struct Tagged {
    key: i64,
    tag: u32,
}
impl PartialEq for Tagged {
    fn eq(&self, o: &Self) -> bool {
        self.key == o.key
    }
}
impl Eq for Tagged {}
impl PartialOrd for Tagged {
    fn partial_cmp(&self, o: &Self) -> Option<Ordering> {
        Some(self.cmp(o))
    }
}
impl Ord for Tagged {
    fn cmp(&self, o: &Self) -> Ordering {
        self.key.cmp(&o.key)
    }
}
fn st(x: &Tagged) -> String {
    format!("{}:{}", x.key, x.tag)
}

fn one_tagged(cx: &mut Ctx, name: OName, k: usize, all: &[Tagged], prog: &[Op<Tagged>]) {
    let nm = match name {
        OName::Min => "tmin",
        OName::Max => "tmax",
        OName::MaxDefault => "tmaxd",
        OName::TopK => "ttopk",
    };
    let req = format!("COMB {nm} {k} {} | {}", enc_all(all, &st), enc_prog(prog, &st));
    let n = all.len();
    let mut keys_desc: Vec<i64> = all.iter().map(|x| x.key).collect();
    keys_desc.sort_by(|a, b| b.cmp(a));
    let opt = |a: &Option<Tagged>| a.map_or("a=none".to_string(), |x| format!("a={}", st(&x)));
    let i;
    match name {
        OName::Min | OName::Max | OName::MaxDefault => {
            let (t, f, a) = match name {
                OName::Min => run_case(&Min::<Tagged>::new(), prog, all, |o: Tagged| st(&o), opt),
                OName::Max => run_case(&Max::<Tagged>::new(), prog, all, |o: Tagged| st(&o), opt),
                _ => run_case(&DefaultLift(Max::<Tagged>::new()), prog, all, |o: Tagged| st(&o), opt),
            };
            i = cx.case(req, format!("{t} {f} {a}"), n >= 2 && nparts(prog) >= 2);
            let want_key = if name == OName::Min { keys_desc.last() } else { keys_desc.first() };
            for (which, got) in [("tree", &t), ("fold", &f)] {
                // the property up to Ord-equality: the extremal key, carried by an element of the input
                let ok = match (want_key, got.split_once(':')) {
                    (None, _) => got == "PANIC",
                    (Some(wk), Some((gk, gt))) => {
                        gk.parse::<i64>().ok() == Some(*wk) && all.iter().any(|x| x.key == *wk && gt.parse::<u32>().ok() == Some(x.tag))
                    }
                    _ => false,
                };
                if !ok {
                    cx.oracle_fail(i, &format!("{nm}-{which}-differs-from-reference"), format!("{which} output {got}, extremal key {want_key:?}"));
                }
            }
            if t != f {
                cx.count(&format!("{nm}:tree and fold return different Ord-equal elements"));
            }
        }
        OName::TopK => {
            // outputs projected on keys for the correspondence; the oracle looks at the elements
            let outs = std::cell::RefCell::new(Vec::<Vec<Tagged>>::new());
            let (t, f, a) = run_case(
                &TopK::<Tagged>::new(k),
                prog,
                all,
                |o: Vec<Tagged>| {
                    let s = show_ints(&o.iter().map(|x| x.key).collect::<Vec<_>>());
                    outs.borrow_mut().push(o);
                    s
                },
                |h: &BinaryHeap<Reverse<Tagged>>| {
                    let mut v: Vec<i64> = h.iter().map(|r| r.0.key).collect();
                    v.sort();
                    format!("a={}", show_ints(&v))
                },
            );
            i = cx.case(req, format!("{t} {f} {a}"), n >= 2 && nparts(prog) >= 2);
            let mut want = keys_desc.clone();
            want.truncate(k);
            let want_s = show_ints(&want);
            if t != want_s {
                cx.oracle_fail(i, "ttopk-tree-differs-from-reference", format!("tree keys {t}, reference {want_s}"));
            }
            if f != want_s {
                cx.oracle_fail(i, "ttopk-fold-differs-from-reference", format!("fold keys {f}, reference {want_s}"));
            }
            for o in outs.borrow().iter() {
                // every output element is an input element, none twice (tags are unique), and every input
                // element strictly above the k-th key is there
                let mut tags: Vec<u32> = o.iter().map(|x| x.tag).collect();
                tags.sort();
                let dup = tags.windows(2).any(|w| w[0] == w[1]);
                let foreign = o.iter().any(|x| !all.iter().any(|y| y.key == x.key && y.tag == x.tag));
                let kth = want.last().copied();
                let missing = kth.is_some_and(|kth| all.iter().any(|y| y.key > kth && !o.iter().any(|x| x.tag == y.tag)));
                if dup || foreign || missing {
                    cx.oracle_fail(i, "ttopk-output-is-not-a-selection-of-the-input", format!("output {:?} (duplicate {dup}, foreign {foreign}, missing a strictly larger element {missing})", o.iter().map(st).collect::<Vec<_>>()));
                }
            }
        }
    }
    common_stats(cx, nm, n, prog);
}

fn tagged_blocks(cx: &mut Ctx) {
    let tg = |keys: &[i64]| keys.iter().enumerate().map(|(i, k)| Tagged { key: *k, tag: i as u32 }).collect::<Vec<_>>();
    // corpus: the tie rules
    let two = tg(&[1, 1]);
    one_tagged(cx, OName::Max, 0, &two, &[Op::B(two.clone())]); // iter().max(): the LAST of equal maxima
    one_tagged(cx, OName::Max, 0, &two, &[Op::A(two.clone())]); // add_input: the first
    one_tagged(cx, OName::Max, 0, &two, &[Op::A(vec![two[0]]), Op::A(vec![two[1]]), Op::M]); // merge: the accumulator's
    one_tagged(cx, OName::MaxDefault, 0, &two, &[Op::B(two.clone())]); // the trait's default build_from_group: the first
    one_tagged(cx, OName::Min, 0, &two, &[Op::B(two.clone())]);
    one_tagged(cx, OName::Min, 0, &two, &[Op::A(vec![two[1]]), Op::A(vec![two[0]]), Op::M]);
    let three = tg(&[1, 1, 1]);
    one_tagged(cx, OName::TopK, 2, &three, &[Op::A(three.clone())]);

    // exhaustive: every key sequence over {0,1} (tags = positions) x splits x ALL tree shapes x ALL leaf orders x ALL lifted masks
    let nmax = scope(cx, 3, 4);
    let mut count = 0usize;
    for keys in all_seqs(&[0, 1], nmax) {
        let all = tg(&keys);
        for p in 1..=3usize {
            let shs = shapes(p);
            let perms = permutations(p);
            for cuts in splits(all.len(), p) {
                let parts = cut(&all, &cuts);
                for shape in &shs {
                    for order in &perms {
                        for mask in 0..(1u32 << p) {
                            let prog = assemble(&parts, order, mask, shape);
                            one_tagged(cx, OName::Min, 0, &all, &prog);
                            one_tagged(cx, OName::Max, 0, &all, &prog);
                            if mask != 0 {
                                one_tagged(cx, OName::MaxDefault, 0, &all, &prog);
                            }
                            for k in 0..=all.len() + 1 {
                                one_tagged(cx, OName::TopK, k, &all, &prog);
                            }
                            count += 1;
                        }
                    }
                }
            }
        }
    }
    cx.exhaustive_blocks.push(format!(
        "Tagged (Ord ignores the tag): all key sequences of length <= {nmax} over {{0,1}} with distinct tags x all ordered splits into 1..3 possibly-empty parts x ALL binary tree shapes x ALL leaf orders x ALL build_from_group masks x Min, Max, Max behind the trait-default build_from_group (key AND tag compared with the model), TopK every k in 0..n+1 (keys compared): {count} programs"
    ));
    for _ in 0..cx.budget(500, 15000) {
        let n = cx.rng.below(20);
        let extra = if cx.rng.chance(1, 3) { cx.rng.below(4) } else { 0 };
        let dom = *cx.rng.pick(&[0i64, 1, 2, 5, 1000]);
        let keys: Vec<i64> = (0..n + extra).map(|_| cx.rng.range(-dom, dom)).collect();
        let all = tg(&keys);
        let iprog = random_prog(cx, n, 7, extra);
        let prog = map_prog(&iprog, &|i: &usize| all[*i]);
        one_tagged(cx, OName::Min, 0, &all, &prog);
        one_tagged(cx, OName::Max, 0, &all, &prog);
        one_tagged(cx, OName::MaxDefault, 0, &all, &prog);
        let k = match cx.rng.below(5) {
            0 => 0,
            1 => all.len(),
            2 => 1,
            _ => cx.rng.below(all.len() + 2),
        };
        one_tagged(cx, OName::TopK, k, &all, &prog);
    }
    // whole groups built at once (8..64 values, the extremum often at the very end): the build_from_group loops
    for _ in 0..cx.budget(60, 1500) {
        let n = 8 + cx.rng.below(57);
        let mut keys: Vec<i64> = (0..n).map(|_| cx.rng.range(-30, 30)).collect();
        match cx.rng.below(3) {
            0 => keys.sort(),
            1 => {
                keys.sort();
                keys.reverse()
            }
            _ => {}
        }
        let all = tg(&keys);
        let prog = if cx.rng.chance(1, 2) {
            vec![Op::B(all.clone())]
        } else {
            let c = cx.rng.below(n + 1);
            vec![Op::B(all[..c].to_vec()), Op::B(all[c..].to_vec()), Op::M]
        };
        for name in [OName::Min, OName::Max, OName::MaxDefault] {
            one_tagged(cx, name, 0, &all, &prog);
        }
        let k = 1 + cx.rng.below(n);
        one_tagged(cx, OName::TopK, k, &all, &prog);
        cx.count("tagged:whole group of 8..64 built at once");
    }
}

// ---------------------------------------------------------------- (7) KMV through the COMB kind

fn one_kmv(cx: &mut Ctx, k: usize, all: &[u64], prog: &[Op<u64>]) {
    let rank = |v: &u64| verif_rank_from_value(v);
    let s = |v: &u64| xs(rank(v).to_bits());
    let req = format!("COMB kmv {k} {} | {}", enc_all(all, &s), enc_prog(prog, &s));
    let c = KMVApproxDistinctCount::<u64>::new(k);
    let list = |v: &[f64]| if v.is_empty() { "-".to_string() } else { v.iter().map(|x| show_x(*x)).collect::<Vec<_>>().join(",") };
    let (t, f, a) = run_case(&c, prog, all, show_x, |a: &ironbeam::combiners::KMVAcc| {
        let (h, s, kk) = a.verif_state();
        format!("a=H{}/S{}/k{kk}", list(&h), list(&s))
    });
    let i = cx.case(req, format!("{t} {f} {a}"), all.len() >= 2 && nparts(prog) >= 2);
    common_stats(cx, "kmv", all.len(), prog);
    // reference: the distinct ranks, ascending
    let mut d: Vec<f64> = all.iter().map(rank).collect();
    d.sort_by(f64::total_cmp);
    d.dedup();
    let keff = k.max(4);
    let want = if d.is_empty() {
        0.0
    } else if d.len() < keff {
        d.len() as f64
    } else {
        (keff as f64 - 1.0) / d[keff - 1]
    };
    cx.count(if d.len() < keff { "kmv:below-k (exact)" } else if d.len() == keff { "kmv:d=k" } else { "kmv:above-k (estimate)" });
    let want_s = show_x(want);
    if t != want_s {
        cx.oracle_fail(i, "kmv-tree-differs-from-reference", format!("tree output {t}, reference {want_s} ({} distinct ranks, k={keff})", d.len()));
    }
    if f != want_s {
        cx.oracle_fail(i, "kmv-fold-differs-from-reference", format!("fold output {f}, reference {want_s} ({} distinct ranks, k={keff})", d.len()));
    }
}

fn kmv_block(cx: &mut Ctx) {
    one_kmv(cx, 4, &[5, 3, 5, 9], &[Op::A(vec![5, 3]), Op::B(vec![5, 9]), Op::M]);
    one_kmv(cx, 0, &[], &[Op::B(vec![]), Op::A(vec![]), Op::M]);
    one_kmv(cx, 4, &[1, 2, 3, 4, 5, 6, 1], &[Op::B(vec![1, 2, 3, 4]), Op::B(vec![5, 6, 1]), Op::M]);
    for _ in 0..cx.budget(500, 10000) {
        let n = if cx.rng.chance(1, 8) { cx.rng.below(80) } else { cx.rng.below(16) };
        let extra = if cx.rng.chance(1, 3) { cx.rng.below(4) } else { 0 };
        let dom = *cx.rng.pick(&[3u64, 6, 20, 1000, u64::MAX]);
        let all: Vec<u64> = (0..n + extra).map(|_| cx.rng.next_u64() % dom).collect();
        let iprog = random_prog(cx, n, 6, extra);
        let prog = map_prog(&iprog, &|i: &usize| all[*i]);
        let k = *cx.rng.pick(&[0usize, 1, 4, 5, 8, 16]);
        one_kmv(cx, k, &all, &prog);
    }
}

pub fn run_ext(cx: &mut Ctx) {
    large_block(cx);
    float_blocks(cx);
    tagged_blocks(cx);
    kmv_block(cx);
}
