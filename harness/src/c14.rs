//! C14 — reservoir sampling: right size, real elements only, reproducible, mode-stable.
//!
//! Requests (formats: see `lean/IbModel/Driver/D14.lean`)
//!   `RESERVOIR <k> <seed> <values> <sizes> <tree…>`  → `OK <sample>`
//!       the REAL `PriorityReservoir` driven directly: `values` cut into leaves of the given `sizes`,
//!       each leaf `L<i>` = `create` + `add_input…`, `B<i>` = `build_from_group`, `N a b` = `merge(a, b)`, `finish`.
//!   `RESSTATE …` same arguments → the accumulator itself before `finish` (hook `PRAcc::verif_slots`):
//!       k, seq, alive, heap length, and every store slot (tombstone / priority BIT PATTERN : seq : value).
//!   `SAMPLEPIPE <gvec|gflat|kvec|kflat> <k> <seed> <pre> <plan> <runs> <rows>` → `seq=<out> p<n>=<out> …`
//!       the four REAL entry points collected with `collect_seq` and `collect_par(None, Some(n))`; `pre` is the
//!       stateless op between `from_vec` and the sample; `plan` what `run_collect` executed (hook `on_plan`);
//!       every run carries the chunk sizes the REAL `VecOps::split` returned for it.
//!   `SAMPLEJOIN …` the same with the sample feeding `join_inner` (a join side is executed un-planned).
//!   `SAMPLEGBK <k> <seed> <order1> <order2>` sample after a hash-ordered barrier, run twice.
//!   `ORDF64 <a> <b>` `OrdF64::cmp` on two bit patterns.
//! Oracle-only runs (no model request): 70 000 rows in one accumulator; `collect_par(None, None)`; `String` / struct
//! element types; the checkpointing copies of the executors (`checkpointed-run-differs-from-plain-run`, unlisted).
//! The model must reproduce every answer exactly (elements and order).
//!
//! Oracle (does not go through the model): size = min(k, n) (per key: min(k, n_key), every key present once),
//! sub-multiset of the (kept) input, same-mode reproducibility (every run is executed twice), independence of
//! the element type, and the documented stability: the sequential sample equals the sample of every partition
//! count. A cross-mode difference is attributed to the known finding's signatures ONLY where the restarted
//! random stream can explain it; the following signatures are NOT listed as known:
//!   * `pipeline-sample-differs-from-combiner-on-engine-chunks` — every run's output must equal the REAL
//!     `PriorityReservoir` driven by hand over the chunks the real split produced, in the way the executed plan
//!     prescribes (global: per-chunk fold, left-comb merge; lifted per-key plan: per-chunk per-key fold merged
//!     into a fresh `create()` in chunk order; un-lifted plan: one `build_from_group` per key);
//!   * `flattened-sample-differs-from-vec-form`, `single-partition-run-differs-from-sequential`,
//!     `sample-differs-from-seq-and-is-not-last-k-at-singleton-partitions` (as in round 2);
//!   * `unlifted-keyed-run-differs-from-sequential` — on the un-lifted plan (join side) the per-key sample of
//!     every partition count IS the sequential one (Lean: `sampleKeyedUnlifted_lookup_eq_seq`);
//!   * `sample-depends-on-element-type` — `String` / struct elements and `String` keys give the i64 run's sample.

use crate::ctx::{Ctx, guarded};
use ironbeam::collection::LiftableCombiner;
use ironbeam::combiners::PriorityReservoir;
use ironbeam::type_token::vec_ops_for;
use ironbeam::{CombineFn, OrdF64, Pipeline, RFBound, from_vec};
use std::collections::BTreeMap;
use std::hash::Hash;
use std::sync::{Arc, Mutex};

/* ------------------------------------------------------------------ encoding */

fn enc_ints(a: &[i64], sep: &str) -> String {
    if a.is_empty() { "-".into() } else { a.iter().map(|x| x.to_string()).collect::<Vec<_>>().join(sep) }
}
fn enc_usizes(a: &[usize]) -> String {
    if a.is_empty() { "-".into() } else { a.iter().map(|x| x.to_string()).collect::<Vec<_>>().join(",") }
}
fn enc_pairs(a: &[(i64, i64)]) -> String {
    if a.is_empty() { "-".into() } else { a.iter().map(|(k, v)| format!("{k}:{v}")).collect::<Vec<_>>().join(",") }
}
fn enc_groups(a: &[(i64, Vec<i64>)]) -> String {
    if a.is_empty() {
        "-".into()
    } else {
        a.iter()
            .map(|(k, vs)| format!("{k}:{}", vs.iter().map(|x| x.to_string()).collect::<Vec<_>>().join(".")))
            .collect::<Vec<_>>()
            .join(",")
    }
}

/* ------------------------------------------------------------------ reference facts */

fn counts(a: &[i64]) -> BTreeMap<i64, usize> {
    let mut m = BTreeMap::new();
    for x in a { *m.entry(*x).or_insert(0) += 1; }
    m
}
/// every element of `s` occurs in `s` at most as often as in `input`
fn sub_multiset(s: &[i64], input: &[i64]) -> bool {
    let ci = counts(input);
    counts(s).iter().all(|(x, c)| ci.get(x).copied().unwrap_or(0) >= *c)
}
fn same_multiset(a: &[i64], b: &[i64]) -> bool { counts(a) == counts(b) }

/* ------------------------------------------------------------------ the combiner driven directly */

#[derive(Clone, Debug)]
enum Shape {
    Leaf(usize, bool),
    Node(Box<Shape>, Box<Shape>),
}
impl Shape {
    fn enc(&self, out: &mut Vec<String>) {
        match self {
            Shape::Leaf(i, lifted) => out.push(format!("{}{i}", if *lifted { "B" } else { "L" })),
            Shape::Node(l, r) => {
                out.push("N".into());
                l.enc(out);
                r.enc(out);
            }
        }
    }
    fn leaves(&self, out: &mut Vec<usize>) {
        match self {
            Shape::Leaf(i, _) => out.push(*i),
            Shape::Node(l, r) => { l.leaves(out); r.leaves(out); }
        }
    }
}

fn eval_shape<C, A>(c: &C, parts: &[Vec<i64>], sh: &Shape) -> A
where
    C: CombineFn<i64, A, Vec<i64>> + LiftableCombiner<i64, A, Vec<i64>>,
{
    match sh {
        Shape::Leaf(i, lifted) => {
            if *lifted {
                c.build_from_group(&parts[*i])
            } else {
                let mut acc = c.create();
                for v in &parts[*i] { c.add_input(&mut acc, *v); }
                acc
            }
        }
        Shape::Node(l, r) => {
            let mut a = eval_shape(c, parts, l);
            let b = eval_shape(c, parts, r);
            c.merge(&mut a, b);
            a
        }
    }
}

/// `(finished sample, state dump before finish)`
fn real_reservoir(k: usize, seed: u64, parts: &[Vec<i64>], sh: &Shape) -> Result<(Vec<i64>, String), String> {
    guarded(|| {
        let c = PriorityReservoir::<i64>::new(k, seed);
        let acc = eval_shape(&c, parts, sh);
        let (ak, seq, alive, heap) = acc.verif_counters();
        let slots = acc.verif_slots();
        let store = if slots.is_empty() {
            "-".to_string()
        } else {
            slots.iter().map(|s| match s { None => "x".to_string(), Some((b, q, v)) => format!("{b}:{q}:{v}") }).collect::<Vec<_>>().join(",")
        };
        let state = format!("k={ak} seq={seq} alive={alive} heap={heap} store={store}");
        (c.finish(acc), state)
    })
}

/// `state`: also emit the `RESSTATE` request for the same evaluation
fn one_reservoir_opt(cx: &mut Ctx, k: usize, seed: u64, parts: &[Vec<i64>], sh: &Shape, state: bool) {
    let vals: Vec<i64> = parts.iter().flatten().copied().collect();
    let sizes: Vec<usize> = parts.iter().map(Vec::len).collect();
    let mut toks = vec![];
    sh.enc(&mut toks);
    let args = format!("{k} {seed} {} {} {}", enc_ints(&vals, ","), enc_usizes(&sizes), toks.join(" "));
    crate::ctx::breadcrumb(&format!("RESERVOIR {args}"));
    let r1 = real_reservoir(k, seed, parts, sh);
    let r2 = real_reservoir(k, seed, parts, sh);
    let ans = match &r1 { Ok((s, _)) => format!("OK {}", enc_ints(s, ",")), Err(_) => "PANIC".to_string() };
    // the leaves actually used by the tree (each exactly once in generated cases)
    let mut used = vec![];
    sh.leaves(&mut used);
    let input: Vec<i64> = used.iter().flat_map(|i| parts[*i].iter().copied()).collect();
    let n = input.len();
    let i = cx.case(format!("RESERVOIR {args}"), ans, n >= 2 && k >= 1 && used.len() >= 2);
    if state {
        let st = match &r1 { Ok((_, st)) => st.clone(), Err(_) => "PANIC".to_string() };
        cx.case(format!("RESSTATE {args}"), st, n >= 2 && k >= 1);
        cx.count("reservoir:state-compared");
    }
    cx.count(&format!("reservoir:leaves:{}", match used.len() { 1 => "1", 2 => "2", 3 => "3", 4..=8 => "4-8", _ => "9+" }));
    cx.count(&format!("reservoir:{}", k_class(k, n)));
    cx.count(&format!("reservoir:n:{}", n_class(n)));
    match (&r1, &r2) {
        (Ok((s, st)), Ok((s2, st2))) => {
            if s.len() != k.min(n) {
                cx.oracle_fail(i, "sample-wrong-size", format!("combiner: len {} but min(k={k}, n={n}) = {}", s.len(), k.min(n)));
            }
            if !sub_multiset(s, &input) {
                cx.oracle_fail(i, "sample-not-submultiset", format!("combiner: sample {s:?} is not a sub-multiset of {input:?}"));
            }
            if s != s2 || st != st2 {
                cx.oracle_fail(i, "sample-not-reproducible", format!("combiner: {s:?} then {s2:?}"));
            }
        }
        _ => cx.oracle_fail(i, "sample-panics", "combiner panicked".to_string()),
    }
}
fn one_reservoir(cx: &mut Ctx, k: usize, seed: u64, parts: &[Vec<i64>], sh: &Shape) {
    one_reservoir_opt(cx, k, seed, parts, sh, false);
}

fn k_class(k: usize, n: usize) -> &'static str {
    if k == 0 { "k=0" } else if k == 1 && n > 1 { "k=1" } else if k < n { "1<k<n" } else if k == n { "k=n" } else { "k>n" }
}
fn n_class(n: usize) -> &'static str {
    match n { 0 => "0", 1 => "1", 2..=4 => "2-4", 5..=15 => "5-15", 16..=40 => "16-40", 41..=63 => "41-63", 64..=255 => "64-255", 256..=4095 => "256-4095", _ => "4096+" }
}

/* ------------------------------------------------------------------ the four pipeline entry points */

#[derive(Clone, Copy, PartialEq, Eq, Debug)]
enum Entry { GVec, GFlat, KVec, KFlat }
impl Entry {
    fn name(self) -> &'static str {
        match self { Entry::GVec => "gvec", Entry::GFlat => "gflat", Entry::KVec => "kvec", Entry::KFlat => "kflat" }
    }
    fn keyed(self) -> bool { matches!(self, Entry::KVec | Entry::KFlat) }
}
const ENTRIES: [Entry; 4] = [Entry::GVec, Entry::GFlat, Entry::KVec, Entry::KFlat];

/// canonical real output of one run (elements mapped back to i64)
#[derive(Clone, PartialEq, Eq, Debug)]
enum Out {
    GVec(Vec<Vec<i64>>),
    GFlat(Vec<i64>),
    KVec(Vec<(i64, Vec<i64>)>),
    KFlat(Vec<(i64, i64)>),
    Fail(String),
}
impl Out {
    fn enc(&self) -> String {
        match self {
            // exactly one row is expected; any other row count is made visible
            Out::GVec(rows) => {
                if rows.len() == 1 { enc_ints(&rows[0], ",") } else { format!("ROWS{}", rows.len()) }
            }
            Out::GFlat(v) => enc_ints(v, ","),
            Out::KVec(rows) => enc_groups(rows),
            Out::KFlat(rows) => enc_pairs(rows),
            Out::Fail(s) => s.clone(),
        }
    }
    /// per-key view: key -> sample in order (global entry points use the single key 0)
    fn per_key(&self) -> Option<Vec<(i64, Vec<i64>)>> {
        match self {
            Out::GVec(rows) => if rows.len() == 1 { Some(vec![(0, rows[0].clone())]) } else { None },
            Out::GFlat(v) => Some(vec![(0, v.clone())]),
            Out::KVec(rows) => Some(rows.clone()),
            Out::KFlat(rows) => {
                let mut out: Vec<(i64, Vec<i64>)> = vec![];
                for (k, v) in rows {
                    match out.last_mut() {
                        Some((lk, vs)) if lk == k => vs.push(*v),
                        _ => out.push((*k, vec![*v])),
                    }
                }
                Some(out)
            }
            Out::Fail(_) => None,
        }
    }
}

/// stateless op put between `from_vec` and the sample
#[derive(Clone, Copy, PartialEq, Eq, Debug)]
enum Pre { Id, All, Nothing, Lt(i64), Ge(i64), Mod(i64, i64), Map(i64, i64), Dup(i64) }
impl Pre {
    fn is_filter(self) -> bool { matches!(self, Pre::All | Pre::Nothing | Pre::Lt(_) | Pre::Ge(_) | Pre::Mod(..)) }
    fn keep(self, x: i64) -> bool {
        match self {
            Pre::Nothing => false,
            Pre::Lt(c) => x < c,
            Pre::Ge(c) => x >= c,
            Pre::Mod(m, r) => x.rem_euclid(m) == r,
            _ => true,
        }
    }
    /// what the op emits for one element
    fn apply(self, x: i64) -> Vec<i64> {
        match self {
            Pre::Id => vec![x],
            Pre::Map(a, b) => vec![a * x + b],
            Pre::Dup(m) => vec![x; x.rem_euclid(m) as usize],
            f => if f.keep(x) { vec![x] } else { vec![] },
        }
    }
    fn enc(self) -> String {
        match self {
            Pre::Id => "-".into(),
            Pre::All => "all".into(),
            Pre::Nothing => "none".into(),
            Pre::Lt(c) => format!("lt:{c}"),
            Pre::Ge(c) => format!("ge:{c}"),
            Pre::Mod(m, r) => format!("mod:{m}:{r}"),
            Pre::Map(a, b) => format!("map:{a}:{b}"),
            Pre::Dup(m) => format!("dup:{m}"),
        }
    }
    fn class(self) -> &'static str {
        match self { Pre::Id => "-", Pre::All => "all", Pre::Nothing => "none", Pre::Lt(_) => "lt", Pre::Ge(_) => "ge", Pre::Mod(..) => "mod", Pre::Map(..) => "map", Pre::Dup(_) => "dup" }
    }
}

#[derive(Clone, Copy, PartialEq, Eq, Debug)]
enum Mode { Seq, Par(usize), Auto, /// checkpointing enabled (the `exec_*_with_checkpointing` copies of the executors)
    Ckpt(Option<usize>) }

/// element / key types the same run is repeated with (`sample-depends-on-element-type`)
trait Conv: RFBound {
    fn of(x: i64) -> Self;
    fn back(&self) -> i64;
}
impl Conv for i64 {
    fn of(x: i64) -> Self { x }
    fn back(&self) -> i64 { *self }
}
impl Conv for String {
    fn of(x: i64) -> Self { format!("v{x}") }
    fn back(&self) -> i64 { self[1..].parse().unwrap() }
}
#[derive(Clone, Debug, PartialEq, Eq, Hash)]
struct Rec { id: i64, pad: String, w: [u8; 3] }
impl Conv for Rec {
    fn of(x: i64) -> Self { Rec { id: x, pad: format!("{:05}", x.rem_euclid(1000)), w: [x as u8, 1, 2] } }
    fn back(&self) -> i64 { self.id }
}

static PLAN: Mutex<Vec<Vec<String>>> = Mutex::new(Vec::new());

fn install_plan_hook() {
    ironbeam::verif_hooks::set_plan_callback(Some(Arc::new(|k: &[String]| PLAN.lock().unwrap().push(k.to_vec()))));
}
fn remove_plan_hook() { ironbeam::verif_hooks::set_plan_callback(None); }

/// `G` = CombineGlobal, `L` = CombineValues after the planner's lift (`local_pairs`), `U` = GroupByKey followed by
/// CombineValues with `local_groups`, `J` = CoGroup (the join side's chain is not reported), `X` = anything else
fn plan_token(kinds: &[Vec<String>]) -> String {
    if kinds.len() != 1 { return "X".into(); }
    let k = &kinds[0];
    let has = |s: &str| k.iter().any(|x| x == s);
    if has("CoGroup") { return "J".into(); }
    if has("CombineGlobal") && !has("CombineValues") && !has("CombineValues+lifted") && !has("GroupByKey") { return "G".into(); }
    if has("CombineValues") && !has("GroupByKey") && !has("CombineValues+lifted") && !has("CombineGlobal") { return "L".into(); }
    if let Some(p) = k.iter().position(|x| x == "GroupByKey") {
        if k.get(p + 1).map(String::as_str) == Some("CombineValues+lifted") && !has("CombineValues") && !has("CombineGlobal") { return "U".into(); }
    }
    "X".into()
}

fn collect<T: RFBound>(p: &Pipeline, c: ironbeam::PCollection<T>, mode: Mode) -> anyhow::Result<Vec<T>> {
    match mode {
        Mode::Seq => c.collect_seq(),
        Mode::Par(n) => c.collect_par(None, Some(n)),
        Mode::Auto => c.collect_par(None, None),
        Mode::Ckpt(par) => {
            let dir = tempfile::tempdir()?;
            let cfg = ironbeam::checkpoint::CheckpointConfig {
                enabled: true,
                directory: dir.path().to_path_buf(),
                policy: ironbeam::checkpoint::CheckpointPolicy::AfterEveryBarrier,
                auto_recover: false,
                max_checkpoints: Some(3),
            };
            let mode = match par { None => ironbeam::ExecMode::Sequential, Some(n) => ironbeam::ExecMode::Parallel { threads: None, partitions: Some(n) } };
            ironbeam::Runner { mode, checkpoint_config: Some(cfg), ..Default::default() }.run_collect::<T>(p, c.node_id())
        }
    }
}

fn with_pre<T: Conv>(c: ironbeam::PCollection<T>, pre: Pre) -> ironbeam::PCollection<T> {
    match pre {
        Pre::Id => c,
        Pre::Map(a, b) => c.map(move |t: &T| T::of(a * t.back() + b)),
        Pre::Dup(m) => c.flat_map(move |t: &T| vec![t.clone(); t.back().rem_euclid(m) as usize]),
        f => c.filter(move |t: &T| f.keep(t.back())),
    }
}
fn with_pre_kv<K: Conv, V: Conv>(c: ironbeam::PCollection<(K, V)>, pre: Pre) -> ironbeam::PCollection<(K, V)> {
    match pre {
        Pre::Id => c,
        Pre::Map(a, b) => c.map(move |r: &(K, V)| (r.0.clone(), V::of(a * r.1.back() + b))),
        Pre::Dup(m) => c.flat_map(move |r: &(K, V)| vec![r.clone(); r.1.back().rem_euclid(m) as usize]),
        f => c.filter(move |r: &(K, V)| f.keep(r.1.back())),
    }
}

/// one run of one entry point with element type `V` and key type `K`; `join`: the sample feeds `join_inner`
/// whose right side holds every key exactly once (so the joined rows ARE the sample). Returns the canonical
/// output and the plan token observed through `on_plan`.
fn run_typed<K: Conv + Eq + Hash, V: Conv>(e: Entry, k: usize, seed: u64, mode: Mode, pre: Pre, join: bool, xs: &[i64], rows: &[(i64, i64)]) -> (Out, String) {
    PLAN.lock().unwrap().clear();
    let r = guarded(|| -> anyhow::Result<Out> {
        let p = Pipeline::default();
        let src = || with_pre(from_vec(&p, xs.iter().map(|x| V::of(*x)).collect::<Vec<V>>()), pre);
        let ksrc = || with_pre_kv(from_vec(&p, rows.iter().map(|r| (K::of(r.0), V::of(r.1))).collect::<Vec<(K, V)>>()), pre);
        let right = || {
            let mut ks: Vec<i64> = rows.iter().map(|r| r.0).collect();
            ks.sort();
            ks.dedup();
            from_vec(&p, ks.into_iter().map(|x| (K::of(x), 0i64)).collect::<Vec<(K, i64)>>())
        };
        Ok(match e {
            Entry::GVec => {
                // (a `Vec` row cannot be a join key/value pair without a map; the join form of the global sample is `gflat`)
                let c = src().sample_reservoir_vec(k, seed);
                Out::GVec(collect(&p, c, mode)?.into_iter().map(|row| row.iter().map(Conv::back).collect()).collect())
            }
            Entry::GFlat => {
                let c = src().sample_reservoir(k, seed);
                if join {
                    let j = c.map(|t: &V| (0i64, t.clone())).join_inner(&from_vec(&p, vec![(0i64, 0i64)]));
                    Out::GFlat(collect(&p, j, mode)?.into_iter().map(|r| r.1.0.back()).collect())
                } else {
                    Out::GFlat(collect(&p, c, mode)?.iter().map(Conv::back).collect())
                }
            }
            Entry::KVec => {
                let c = ksrc().sample_values_reservoir_vec(k, seed);
                let mut v: Vec<(i64, Vec<i64>)> = if join {
                    collect(&p, c.join_inner(&right()), mode)?.into_iter().map(|r| (r.0.back(), r.1.0.iter().map(Conv::back).collect())).collect()
                } else {
                    collect(&p, c, mode)?.into_iter().map(|r| (r.0.back(), r.1.iter().map(Conv::back).collect())).collect()
                };
                v.sort_by_key(|r| r.0);
                Out::KVec(v)
            }
            Entry::KFlat => {
                let c = ksrc().sample_values_reservoir(k, seed);
                let mut v: Vec<(i64, i64)> = if join {
                    collect(&p, c.join_inner(&right()), mode)?.into_iter().map(|r| (r.0.back(), r.1.0.back())).collect()
                } else {
                    collect(&p, c, mode)?.into_iter().map(|r| (r.0.back(), r.1.back())).collect()
                };
                v.sort_by_key(|r| r.0); // stable: the order inside each key's sample is kept
                Out::KFlat(v)
            }
        })
    });
    let plan = plan_token(&PLAN.lock().unwrap());
    let out = match r {
        Ok(Ok(o)) => o,
        Ok(Err(_)) => Out::Fail("ERR".into()),
        Err(_) => Out::Fail("PANIC".into()),
    };
    (out, plan)
}

fn run_entry(e: Entry, k: usize, seed: u64, mode: Mode, pre: Pre, join: bool, xs: &[i64], rows: &[(i64, i64)]) -> (Out, String) {
    run_typed::<i64, i64>(e, k, seed, mode, pre, join, xs, rows)
}

/// the chunks the engine starts from: the clamp of `exec_par` / `run_subplan_par`, then the REAL `VecOps::split`
fn real_split<T: Clone + Send + Sync + 'static>(v: &[T], p: usize) -> Vec<Vec<T>> {
    let data: Vec<T> = v.to_vec();
    let parts = p.max(1).min(data.len().max(1));
    let got = guarded(|| {
        let ops = vec_ops_for::<T>();
        ops.split(&data, parts).and_then(|ps| ps.into_iter().map(|b| b.downcast::<Vec<T>>().ok().map(|b| *b)).collect::<Option<Vec<Vec<T>>>>())
    });
    match got { Ok(Some(c)) => c, _ => vec![data] }
}
/// the chunk sizes `type_token.rs` is modelled with (`vecSplit`): one chunk, or `ceil(len / n)` sized ones
fn reference_sizes(len: usize, p: usize) -> Vec<usize> {
    let n = p.max(1).min(len.max(1));
    if n <= 1 || len <= 1 { return vec![len]; }
    let c = len.div_ceil(n);
    let mut out = vec![];
    let mut left = len;
    while left > 0 { out.push(left.min(c)); left -= left.min(c); }
    out
}

/* ---- the REAL combiner driven by hand over the engine's chunks (model-independent prediction) ---- */

fn fold_acc<C, A>(c: &C, vals: &[i64]) -> A where C: CombineFn<i64, A, Vec<i64>> {
    let mut a = c.create();
    for v in vals { c.add_input(&mut a, *v); }
    a
}
fn global_by_hand<C, A>(c: &C, parts: &[Vec<i64>]) -> Vec<i64> where C: CombineFn<i64, A, Vec<i64>> {
    let mut it = parts.iter();
    let mut acc = match it.next() { Some(p) => fold_acc(c, p), None => c.create() };
    for p in it { let a = fold_acc(c, p); c.merge(&mut acc, a); }
    c.finish(acc)
}
/// lifted plan: `local_pairs` per chunk, then per key `merge(entry.or_insert_with(create), acc)` in chunk order
fn keyed_lifted_by_hand<C, A>(c: &C, parts: &[Vec<(i64, i64)>]) -> Vec<(i64, Vec<i64>)> where C: CombineFn<i64, A, Vec<i64>> {
    let mut accs: BTreeMap<i64, A> = BTreeMap::new();
    for p in parts {
        let mut m: BTreeMap<i64, A> = BTreeMap::new();
        for (k, v) in p { c.add_input(m.entry(*k).or_insert_with(|| c.create()), *v); }
        for (k, a) in m { c.merge(accs.entry(k).or_insert_with(|| c.create()), a); }
    }
    accs.into_iter().map(|(k, a)| (k, c.finish(a))).collect()
}
/// un-lifted plan: GroupByKey barrier, ONE `build_from_group` per key, merged into a fresh `create()`
fn keyed_unlifted_by_hand<C, A>(c: &C, parts: &[Vec<(i64, i64)>]) -> Vec<(i64, Vec<i64>)>
where C: CombineFn<i64, A, Vec<i64>> + LiftableCombiner<i64, A, Vec<i64>> {
    let mut groups: BTreeMap<i64, Vec<i64>> = BTreeMap::new();
    for p in parts { for (k, v) in p { groups.entry(*k).or_default().push(*v); } }
    groups.into_iter().map(|(k, vs)| {
        let a = c.build_from_group(&vs);
        let mut e = c.create();
        c.merge(&mut e, a);
        (k, c.finish(e))
    }).collect()
}
/// what the executed plan yields when the REAL combiner is driven over `chunks` (already cut, `pre` not yet applied)
fn by_hand(e: Entry, plan: &str, k: usize, seed: u64, pre: Pre, gch: &[Vec<i64>], kch: &[Vec<(i64, i64)>]) -> Option<Out> {
    let plan = plan.to_string();
    guarded(move || {
        let c = PriorityReservoir::<i64>::new(k, seed);
        if e.keyed() {
            let parts: Vec<Vec<(i64, i64)>> = kch.iter().map(|p| p.iter().flat_map(|r| pre.apply(r.1).into_iter().map(|v| (r.0, v))).collect()).collect();
            let kd = match plan.as_str() { "L" => keyed_lifted_by_hand(&c, &parts), "U" => keyed_unlifted_by_hand(&c, &parts), _ => return None };
            Some(if e == Entry::KVec { Out::KVec(kd) } else { Out::KFlat(kd.iter().flat_map(|(kk, vs)| vs.iter().map(|v| (*kk, *v))).collect()) })
        } else {
            if plan != "G" { return None; }
            let parts: Vec<Vec<i64>> = gch.iter().map(|p| p.iter().flat_map(|x| pre.apply(*x)).collect()).collect();
            let row = global_by_hand(&c, &parts);
            Some(if e == Entry::GVec { Out::GVec(vec![row]) } else { Out::GFlat(row) })
        }
    }).ok().flatten()
}

/// the property's statement about ONE run's output, evaluated on the real output only
fn check_one(cx: &mut Ctx, i: usize, e: Entry, k: usize, label: &str, out: &Out, xs: &[i64], rows: &[(i64, i64)]) {
    let Some(per_key) = out.per_key() else {
        let sig = if matches!(out, Out::Fail(_)) { "sample-run-fails" } else { "global-sample-not-one-row" };
        cx.oracle_fail(i, sig, format!("{} {label}: {}", e.name(), out.enc()));
        return;
    };
    // expected keys and their values
    let mut groups: BTreeMap<i64, Vec<i64>> = BTreeMap::new();
    if e.keyed() {
        for (kk, v) in rows { groups.entry(*kk).or_default().push(*v); }
    } else {
        groups.insert(0, xs.to_vec());
    }
    // keys: the vec form lists every key exactly once (also when its sample is empty); the flattened
    // form can only show keys with a non-empty sample
    let got_keys: Vec<i64> = per_key.iter().map(|r| r.0).collect();
    let mut dedup = got_keys.clone();
    dedup.dedup();
    if dedup.len() != got_keys.len() || got_keys.iter().any(|kk| !groups.contains_key(kk)) {
        cx.oracle_fail(i, "keyed-sample-wrong-keys", format!("{} {label}: keys {got_keys:?} vs input keys {:?}", e.name(), groups.keys().collect::<Vec<_>>()));
        return;
    }
    for (kk, vals) in &groups {
        let want = k.min(vals.len());
        let got: &[i64] = per_key.iter().find(|r| r.0 == *kk).map(|r| r.1.as_slice()).unwrap_or(&[]);
        let listed = per_key.iter().any(|r| r.0 == *kk);
        if e == Entry::KVec && !listed {
            cx.oracle_fail(i, "keyed-sample-wrong-keys", format!("kvec {label}: key {kk} missing"));
        }
        if got.len() != want {
            cx.oracle_fail(i, "sample-wrong-size", format!("{} {label} key {kk}: len {} but min(k={k}, n={}) = {want}", e.name(), got.len(), vals.len()));
        }
        if !sub_multiset(got, vals) {
            let show = |v: &[i64]| if v.len() > 40 { format!("{:?}… ({} values)", &v[..40], v.len()) } else { format!("{v:?}") };
            cx.oracle_fail(i, "sample-not-submultiset", format!("{} {label} key {kk}: {} not a sub-multiset of {}", e.name(), show(got), show(vals)));
        }
    }
}

/// the per-key view of an output with empty samples removed (the flattened forms cannot show them)
fn nonempty(pk: &[(i64, Vec<i64>)]) -> Vec<(i64, Vec<i64>)> {
    pk.iter().filter(|r| !r.1.is_empty()).cloned().collect()
}
fn short(s: String) -> String { if s.len() > 600 { format!("{}… ({} chars)", &s[..600], s.len()) } else { s } }

struct PipeRes { case: usize, outs: Vec<Out>, modes: Vec<Mode> }

/// `xs`/`rows` are the SOURCE rows; `pre` sits between the source and the sample; `join`: the sample feeds a join
fn one_pipe(cx: &mut Ctx, e: Entry, k: usize, seed: u64, parts: &[usize], pre: Pre, join: bool, xs: &[i64], rows: &[(i64, i64)]) -> PipeRes {
    let n_src = if e.keyed() { rows.len() } else { xs.len() };
    // what the sample is taken from
    let fxs: Vec<i64> = xs.iter().flat_map(|x| pre.apply(*x)).collect();
    let frows: Vec<(i64, i64)> = rows.iter().flat_map(|r| pre.apply(r.1).into_iter().map(|v| (r.0, v))).collect();
    let n = if e.keyed() { frows.len() } else { fxs.len() };
    let data = if e.keyed() { enc_pairs(rows) } else { enc_ints(xs, ",") };
    crate::ctx::breadcrumb(&format!("SAMPLE-PIPE entry={e:?} k={k} seed={seed} parts={parts:?} join={join} data={data}"));
    let mut labels: Vec<String> = vec!["seq".into()];
    let mut modes: Vec<Mode> = vec![Mode::Seq];
    for p in parts { labels.push(format!("p{p}")); modes.push(Mode::Par(*p)); }
    // the chunks every run starts from (sequential mode: the whole source)
    let gchunks: Vec<Vec<Vec<i64>>> = modes.iter().map(|m| match m { Mode::Par(p) if !e.keyed() => real_split(xs, *p), _ => vec![xs.to_vec()] }).collect();
    let kchunks: Vec<Vec<Vec<(i64, i64)>>> = modes.iter().map(|m| match m { Mode::Par(p) if e.keyed() => real_split(rows, *p), _ => vec![rows.to_vec()] }).collect();
    let sizes: Vec<Vec<usize>> = (0..modes.len()).map(|j| if e.keyed() { kchunks[j].iter().map(Vec::len).collect() } else { gchunks[j].iter().map(Vec::len).collect() }).collect();
    for (j, m) in modes.iter().enumerate() {
        if let Mode::Par(p) = m {
            if sizes[j] == reference_sizes(n_src, *p) { cx.count("pipe:split=modelled-vecSplit"); } else {
                cx.count("pipe:split!=modelled-vecSplit");
                if !cx.notes.iter().any(|s| s.starts_with("VecOps::split")) {
                    cx.notes.push(format!("VecOps::split no longer cuts ceil(len/n) chunks (e.g. len {n_src}, {p} partitions -> sizes {:?}): the model follows the sizes observed, Lean `vecSplit` / `partsOf` should be re-modelled", sizes[j]));
                }
            }
        }
    }
    let runs: Vec<(Out, String)> = modes.iter().map(|m| run_entry(e, k, seed, *m, pre, join, xs, rows)).collect();
    let again: Vec<(Out, String)> = modes.iter().map(|m| run_entry(e, k, seed, *m, pre, join, xs, rows)).collect();
    let outs: Vec<Out> = runs.iter().map(|r| r.0.clone()).collect();
    // the plan that ran: a join side is executed as built (no planner pass); otherwise as reported by `on_plan`
    let plan: String = if join {
        if runs.iter().all(|r| r.1 == "J") { if e.keyed() { "U".into() } else { "G".into() } } else { "X".into() }
    } else if runs.iter().all(|r| r.1 == runs[0].1) { runs[0].1.clone() } else { "X".into() };
    let run_toks: Vec<String> = (1..modes.len()).map(|j| format!("{}@{}", parts[j - 1], sizes[j].iter().map(|s| s.to_string()).collect::<Vec<_>>().join("."))).collect();
    let req = format!("{} {} {k} {seed} {} {plan} {} {data}", if join { "SAMPLEJOIN" } else { "SAMPLEPIPE" }, e.name(), pre.enc(),
        if run_toks.is_empty() { "-".to_string() } else { run_toks.join(",") });
    let ans = labels.iter().zip(&outs).map(|(l, o)| format!("{l}={}", o.enc())).collect::<Vec<_>>().join(" ");
    let i = cx.case(req, ans, n >= 2 && k >= 1 && !parts.is_empty());
    let tag = if join { "join" } else if pre != Pre::Id { "pre" } else { "pipe" };
    cx.count(&format!("{tag}:{}", e.name()));
    cx.count(&format!("{tag}:{}", k_class(k, n)));
    cx.count(&format!("{tag}:n:{}", n_class(n)));
    cx.count(&format!("plan:{plan}"));
    if pre != Pre::Id {
        cx.count(&format!("pre:op:{}", pre.class()));
        if pre.is_filter() {
            cx.count(&format!("pre:kept:{}", if n == n_src { "all" } else if n == 0 { "nothing" } else if 2 * n >= n_src { ">=half" } else { "<half" }));
        }
        // shape of the partitions the combiner sees (global path)
        if !e.keyed() {
            for j in 1..modes.len() {
                if gchunks[j].len() <= 1 { continue; }
                let sz: Vec<usize> = gchunks[j].iter().map(|c| c.iter().map(|x| pre.apply(*x).len()).sum()).collect();
                let empty = sz.iter().filter(|s| **s == 0).count();
                let (mn, mx) = (sz.iter().min().copied().unwrap_or(0), sz.iter().max().copied().unwrap_or(0));
                cx.count(if empty == sz.len() { "pre:partitions:all-empty" } else if empty > 0 { "pre:partitions:some-empty" } else if mx > mn + 1 { "pre:partitions:skewed" } else { "pre:partitions:even" });
                if sz.first() == Some(&0) && empty < sz.len() { cx.count("pre:partitions:first-empty"); }
            }
        }
    }
    for j in 1..modes.len() {
        cx.count(&format!("pipe:chunks:{}", match sizes[j].len() { 1 => "1", 2..=4 => "2-4", 5..=16 => "5-16", 17..=61 => "17-61", _ => "62+" }));
        if sizes[j].iter().any(|s| *s >= 64) && sizes[j].len() > 1 { cx.count("pipe:merge-of-chunks>=64-rows"); }
    }
    if plan == "X" {
        cx.oracle_fail(i, "unexpected-plan-shape", format!("{} join={join}: on_plan reported {:?}", e.name(), runs.iter().map(|r| r.1.clone()).collect::<Vec<_>>()));
    }
    for (j, o) in outs.iter().enumerate() {
        check_one(cx, i, e, k, &labels[j], o, &fxs, &frows);
        if *o != again[j].0 {
            cx.oracle_fail(i, "sample-not-reproducible", short(format!("{} {}: {} then {}", e.name(), labels[j], o.enc(), again[j].0.enc())));
        }
        // real vs real: the pipeline's output is the REAL combiner driven over the engine's chunks as the plan prescribes
        if let Some(want) = by_hand(e, &plan, k, seed, pre, &gchunks[j], &kchunks[j]) {
            cx.count("pipe:compared-with-combiner-on-engine-chunks");
            if *o != want {
                cx.oracle_fail(i, "pipeline-sample-differs-from-combiner-on-engine-chunks", short(format!("{} k={k} seed={seed} pre={} plan={plan} {} (chunk sizes {:?}): pipeline {} but PriorityReservoir driven by hand over these chunks gives {}", e.name(), pre.enc(), labels[j], sizes[j], o.enc(), want.enc())));
            }
        }
    }
    // the flattened entry points return exactly the rows of the Vec form of the same run, flattened in order
    // (Lean: sampleFlatSeq_eq / sampleFlatPar_eq; flattenKeyed is the keyed flattening by definition)
    if matches!(e, Entry::GFlat | Entry::KFlat) && !(join && e == Entry::GFlat) {
        let ve = if e == Entry::GFlat { Entry::GVec } else { Entry::KVec };
        for (j, m) in modes.iter().enumerate() {
            let vo = run_entry(ve, k, seed, *m, pre, join, xs, rows).0;
            let same = match (&outs[j], &vo) {
                (Out::GFlat(f), Out::GVec(rows)) => *f == rows.iter().flatten().copied().collect::<Vec<i64>>(),
                (Out::KFlat(f), Out::KVec(rows)) => *f == rows.iter().flat_map(|(kk, vs)| vs.iter().map(|v| (*kk, *v))).collect::<Vec<(i64, i64)>>(),
                (Out::Fail(a), Out::Fail(b)) => a == b,
                _ => false,
            };
            cx.count("pipe:flat-vs-vec-compared");
            if !same {
                cx.oracle_fail(i, "flattened-sample-differs-from-vec-form", short(format!("{} {}: {} but {} gives {}", e.name(), labels[j], outs[j].enc(), ve.name(), vo.enc())));
            }
        }
    }
    // what the restarted stream yields when every partition holds <= 1 source row: the last k (kept) values,
    // per key (global entry points: the single key 0)
    let mut groups: BTreeMap<i64, Vec<i64>> = BTreeMap::new();
    if e.keyed() {
        for (kk, v) in &frows { groups.entry(*kk).or_default().push(*v); }
    } else {
        groups.insert(0, fxs.clone());
    }
    let last_k: Vec<(i64, Vec<i64>)> = groups.iter().map(|(kk, vs)| (*kk, vs[vs.len() - k.min(vs.len())..].to_vec())).collect();
    // documented: identical for sequential and parallel execution and for every partitioning
    let seq_pk = outs[0].per_key();
    let mut known_fail: Option<(&str, String)> = None;
    for j in 1..outs.len() {
        let p = parts[j - 1];
        let single = p <= 1 || n_src <= 1;
        // every chunk hands <= 1 row to the sampler (the modelled split: p >= n_src, and an op that emits <= 1 row per row)
        let fed: Vec<usize> = if e.keyed() { kchunks[j].iter().map(|c| c.iter().map(|r| pre.apply(r.1).len()).sum()).collect() } else { gchunks[j].iter().map(|c| c.iter().map(|x| pre.apply(*x).len()).sum()).collect() };
        let singletons = !single && sizes[j].len() > 1 && fed.iter().all(|s| *s <= 1);
        let is_last_k = outs[j].per_key().map(|pk| nonempty(&pk) == nonempty(&last_k)).unwrap_or(false);
        if singletons && plan != "U" {
            cx.count(if is_last_k { "pipe:singleton-chunks:sample=last-k" } else { "pipe:singleton-chunks:sample!=last-k" });
        }
        if single { cx.count("pipe:single-partition-run"); }
        if outs[j] == outs[0] { continue; }
        cx.count("pipe:seq!=par");
        let ctx_s = format!("{} k={k} seed={seed} pre={} plan={plan}", e.name(), pre.enc());
        if single {
            // NOT the known finding: one partition runs the very same fold as sequential mode
            cx.oracle_fail(i, "single-partition-run-differs-from-sequential", short(format!("{ctx_s}: seq {} but {} (one partition: requested {p}, {n_src} source rows) {}", outs[0].enc(), labels[j], outs[j].enc())));
            continue;
        }
        if plan == "U" && e.keyed() {
            // NOT the known finding: after the GroupByKey barrier every key is sampled by ONE build_from_group
            cx.oracle_fail(i, "unlifted-keyed-run-differs-from-sequential", short(format!("{ctx_s}: seq {} but {} {}", outs[0].enc(), labels[j], outs[j].enc())));
            continue;
        }
        if singletons && !is_last_k {
            // NOT the known finding: the restarted stream yields exactly the last k inputs here
            cx.oracle_fail(i, "sample-differs-from-seq-and-is-not-last-k-at-singleton-partitions", short(format!("{ctx_s}: {} partitions for {n_src} source rows give {} (sequential {}), the restarted-stream mechanism of the known finding predicts {}", p, outs[j].enc(), outs[0].enc(), enc_groups(&nonempty(&last_k)))));
            continue;
        }
        // the known finding (reported once per request: the first differing partition count)
        if known_fail.is_some() { continue; }
        let same_elems = match (&seq_pk, outs[j].per_key()) {
            (Some(a), Some(b)) => {
                a.len() == b.len() && a.iter().zip(b.iter()).all(|(x, y)| x.0 == y.0 && same_multiset(&x.1, &y.1))
            }
            _ => false,
        };
        let sig = if same_elems { "sample-order-differs-between-seq-and-par" } else { "sample-differs-between-seq-and-par" };
        known_fail = Some((sig, short(format!("{ctx_s}: seq {} but {} {}", outs[0].enc(), labels[j], outs[j].enc()))));
    }
    // emitted after the dedicated signatures so that a replay names the more specific failure first
    if let Some((sig, detail)) = known_fail { cx.oracle_fail(i, sig, detail); }
    PipeRes { case: i, outs, modes }
}

/// the same runs with `String` elements / `String` keys and with a struct element type must give the i64 run's
/// sample (through the index map), and `collect_par(None, None)` (machine-dependent partition count: oracle only)
/// must satisfy size / sub-multiset / reproducibility
fn typed_and_auto(cx: &mut Ctx, r: &PipeRes, e: Entry, k: usize, seed: u64, pre: Pre, xs: &[i64], rows: &[(i64, i64)]) {
    for (j, m) in r.modes.iter().enumerate() {
        let s = run_typed::<String, String>(e, k, seed, *m, pre, false, xs, rows).0;
        let t = run_typed::<i64, Rec>(e, k, seed, *m, pre, false, xs, rows).0;
        cx.count("typed:String+struct-runs-compared");
        for (name, o) in [("String elements and keys", &s), ("struct elements", &t)] {
            if *o != r.outs[j] {
                cx.oracle_fail(r.case, "sample-depends-on-element-type", short(format!("{} k={k} seed={seed} {:?}: i64 run {} but {name} give {}", e.name(), m, r.outs[j].enc(), o.enc())));
            }
        }
    }
    // the checkpointing copies of the executors (`exec_seq_with_checkpointing` / `exec_par_with_checkpointing`)
    for (j, m) in r.modes.iter().enumerate() {
        let cm = match m { Mode::Seq => Mode::Ckpt(None), Mode::Par(n) => Mode::Ckpt(Some(*n)), _ => continue };
        let o = run_entry(e, k, seed, cm, pre, false, xs, rows).0;
        cx.count("ckpt:checkpointed-runs-compared");
        if o != r.outs[j] {
            cx.oracle_fail(r.case, "checkpointed-run-differs-from-plain-run", short(format!("{} k={k} seed={seed} {:?}: plain run {} but with checkpointing enabled {}", e.name(), m, r.outs[j].enc(), o.enc())));
        }
    }
    let fxs: Vec<i64> = xs.iter().flat_map(|x| pre.apply(*x)).collect();
    let frows: Vec<(i64, i64)> = rows.iter().flat_map(|r| pre.apply(r.1).into_iter().map(|v| (r.0, v))).collect();
    let a1 = run_entry(e, k, seed, Mode::Auto, pre, false, xs, rows).0;
    let a2 = run_entry(e, k, seed, Mode::Auto, pre, false, xs, rows).0;
    cx.count("auto:collect_par(None,None)-runs");
    check_one(cx, r.case, e, k, "auto-partitions", &a1, &fxs, &frows);
    if a1 != a2 {
        cx.oracle_fail(r.case, "sample-not-reproducible", short(format!("{} collect_par(None, None): {} then {}", e.name(), a1.enc(), a2.enc())));
    }
}

/// a sample taken AFTER a hash-ordered barrier: `from_vec(rows).group_by_key().map(|g| g.0).sample_reservoir_vec(k, seed)`.
/// The `map` records the order in which the (single) post-barrier partition is laid out, i.e. the order in which the
/// sampler is fed. Two runs of the same pipeline: the model must reproduce each run's sample from the order it saw.
fn one_gbk(cx: &mut Ctx, k: usize, seed: u64, mode: Mode, rows: &[(i64, i64)]) {
    let run = || -> (Vec<i64>, Out) {
        let rec: Arc<Mutex<Vec<i64>>> = Arc::new(Mutex::new(vec![]));
        let rec2 = rec.clone();
        let r = guarded(|| -> anyhow::Result<Vec<Vec<i64>>> {
            let p = Pipeline::default();
            let c = from_vec(&p, rows.to_vec()).group_by_key().map(move |g: &(i64, Vec<i64>)| { rec2.lock().unwrap().push(g.0); g.0 }).sample_reservoir_vec(k, seed);
            collect(&p, c, mode)
        });
        let order = rec.lock().unwrap().clone();
        (order, match r { Ok(Ok(v)) => Out::GVec(v), Ok(Err(_)) => Out::Fail("ERR".into()), Err(_) => Out::Fail("PANIC".into()) })
    };
    let (o1, s1) = run();
    let (o2, s2) = run();
    let i = cx.case(format!("SAMPLEGBK {k} {seed} {} {}", enc_ints(&o1, ","), enc_ints(&o2, ",")), format!("r1={} r2={}", s1.enc(), s2.enc()), o1.len() >= 2 && k >= 1);
    cx.count("gbk:requests");
    let mut keys: Vec<i64> = rows.iter().map(|r| r.0).collect();
    keys.sort();
    keys.dedup();
    for (o, s, l) in [(&o1, &s1, "run 1"), (&o2, &s2, "run 2")] {
        let mut so = o.clone();
        so.sort();
        if so != keys {
            cx.oracle_fail(i, "sampler-input-after-barrier-is-not-the-key-set", format!("{l}: the sampler was fed {o:?}, keys {keys:?}"));
        }
        check_one(cx, i, Entry::GVec, k, l, s, &keys, &[]);
    }
    if s1 != s2 {
        if o1 == o2 {
            cx.oracle_fail(i, "sample-not-reproducible", format!("after group_by_key, same feeding order {o1:?}: {} then {}", s1.enc(), s2.enc()));
        } else {
            cx.count("gbk:two-runs-differ");
            cx.oracle_fail(i, "sample-not-reproducible-after-hash-ordered-barrier", format!("from_vec(..).group_by_key().map(key).sample_reservoir_vec({k}, {seed}) {mode:?}: run 1 fed {o1:?} -> {}, run 2 fed {o2:?} -> {}", s1.enc(), s2.enc()));
        }
    } else {
        cx.count("gbk:two-runs-agree");
    }
}

fn one_ord(cx: &mut Ctx, a: u64, b: u64) {
    let r = guarded(|| OrdF64(f64::from_bits(a)).cmp(&OrdF64(f64::from_bits(b))));
    let ans = match r { Ok(std::cmp::Ordering::Less) => "LT", Ok(std::cmp::Ordering::Equal) => "EQ", Ok(std::cmp::Ordering::Greater) => "GT", Err(_) => "PANIC" };
    cx.case(format!("ORDF64 {a} {b}"), ans.to_string(), a != b);
    cx.count("ordf64:pairs");
}

/* ------------------------------------------------------------------ generators */

fn gen_values(cx: &mut Ctx, n: usize) -> Vec<i64> {
    // duplicates are the interesting part: small domains most of the time
    let dom = *cx.rng.pick(&[1i64, 2, 3, 5, 10, 1000]);
    let neg = cx.rng.chance(1, 5);
    (0..n).map(|_| { let v = cx.rng.range(0, dom); if neg && cx.rng.chance(1, 2) { -v } else { v } }).collect()
}
fn gen_k(cx: &mut Ctx, n: usize) -> usize {
    match cx.rng.below(8) {
        0 => 0,
        1 => 1,
        2 => n,
        3 => n + 1,
        4 => n.saturating_sub(1),
        5 => n + 1 + cx.rng.below(5),
        _ => cx.rng.below(n + 2),
    }
}
fn gen_seed(cx: &mut Ctx) -> u64 {
    match cx.rng.below(8) {
        0 => 0,
        1 => 42,
        2 => u64::MAX,
        3 => cx.rng.below(10) as u64,
        _ => cx.rng.next_u64(),
    }
}
/// random split of `vals` into `m` contiguous (possibly empty) leaves
fn gen_split(cx: &mut Ctx, vals: &[i64], m: usize) -> Vec<Vec<i64>> {
    let mut cuts: Vec<usize> = (0..m.saturating_sub(1)).map(|_| cx.rng.below(vals.len() + 1)).collect();
    cuts.sort();
    let mut out = vec![];
    let mut prev = 0;
    for c in cuts { out.push(vals[prev..c].to_vec()); prev = c; }
    out.push(vals[prev..].to_vec());
    out
}
/// random binary tree over the given leaf order
fn gen_tree(cx: &mut Ctx, leaves: &[usize]) -> Shape {
    if leaves.len() == 1 {
        return Shape::Leaf(leaves[0], cx.rng.chance(1, 4));
    }
    let cut = 1 + cx.rng.below(leaves.len() - 1);
    let l = gen_tree(cx, &leaves[..cut]);
    let r = gen_tree(cx, &leaves[cut..]);
    Shape::Node(Box::new(l), Box::new(r))
}
fn left_comb(m: usize) -> Shape {
    let mut t = Shape::Leaf(0, false);
    for i in 1..m { t = Shape::Node(Box::new(t), Box::new(Shape::Leaf(i, false))); }
    t
}
fn right_comb(lo: usize, hi: usize) -> Shape {
    if lo + 1 == hi { Shape::Leaf(lo, false) } else { Shape::Node(Box::new(Shape::Leaf(lo, false)), Box::new(right_comb(lo + 1, hi))) }
}
fn balanced(lo: usize, hi: usize) -> Shape {
    if lo + 1 == hi { Shape::Leaf(lo, false) } else { let mid = (lo + hi) / 2; Shape::Node(Box::new(balanced(lo, mid)), Box::new(balanced(mid, hi))) }
}
/// the same tree with every leaf built by `build_from_group`
fn lift_all(sh: &Shape) -> Shape {
    match sh {
        Shape::Leaf(i, _) => Shape::Leaf(*i, true),
        Shape::Node(l, r) => Shape::Node(Box::new(lift_all(l)), Box::new(lift_all(r))),
    }
}
/// all binary tree shapes over the leaf sequence
fn all_trees(leaves: &[usize]) -> Vec<Shape> {
    if leaves.len() == 1 { return vec![Shape::Leaf(leaves[0], false)]; }
    let mut out = vec![];
    for cut in 1..leaves.len() {
        for l in all_trees(&leaves[..cut]) {
            for r in all_trees(&leaves[cut..]) {
                out.push(Shape::Node(Box::new(l.clone()), Box::new(r)));
            }
        }
    }
    out
}
fn permutations(m: usize) -> Vec<Vec<usize>> {
    fn go(cur: &mut Vec<usize>, used: &mut Vec<bool>, out: &mut Vec<Vec<usize>>) {
        if cur.len() == used.len() { out.push(cur.clone()); return; }
        for i in 0..used.len() {
            if !used[i] { used[i] = true; cur.push(i); go(cur, used, out); cur.pop(); used[i] = false; }
        }
    }
    let mut out = vec![];
    go(&mut vec![], &mut vec![false; m], &mut out);
    out
}
/// all ways to cut `n` items into `m` contiguous, possibly empty, pieces (as sizes)
fn compositions(n: usize, m: usize) -> Vec<Vec<usize>> {
    if m == 1 { return vec![vec![n]]; }
    let mut out = vec![];
    for first in 0..=n {
        for mut rest in compositions(n - first, m - 1) {
            let mut v = vec![first];
            v.append(&mut rest);
            out.push(v);
        }
    }
    out
}
fn cut_sizes(vals: &[i64], sizes: &[usize]) -> Vec<Vec<i64>> {
    let mut out = vec![];
    let mut p = 0;
    for s in sizes { out.push(vals[p..p + s].to_vec()); p += s; }
    out
}
fn keyed_rows(cx: &mut Ctx, vals: &[i64]) -> Vec<(i64, i64)> {
    let nk = *cx.rng.pick(&[1i64, 2, 3, 5, 12, 40]);
    let skew = cx.rng.chance(1, 3);
    vals.iter().map(|v| {
        let k = if skew && cx.rng.chance(2, 3) { 0 } else { cx.rng.range(0, nk - 1) };
        (k, *v)
    }).collect()
}
/// a stateless op in front of the sample; thresholds inside and at the ends of the value range
fn gen_pre(cx: &mut Ctx, vals: &[i64]) -> Pre {
    let lo = vals.iter().min().copied().unwrap_or(0);
    let hi = vals.iter().max().copied().unwrap_or(0);
    match cx.rng.below(13) {
        0 => Pre::All,
        1 => Pre::Nothing,
        2 | 3 | 4 => Pre::Lt(cx.rng.range(lo - 1, hi + 1)),
        5 | 6 => Pre::Ge(cx.rng.range(lo - 1, hi + 1)),
        7 | 8 => { let m = cx.rng.range(2, 4); Pre::Mod(m, cx.rng.range(0, m - 1)) }
        9 | 10 => Pre::Map(cx.rng.range(-3, 3), cx.rng.range(-5, 5)),
        _ => Pre::Dup(cx.rng.range(1, 4)),
    }
}
fn partition_choices(n: usize) -> Vec<usize> {
    let mut v = vec![0, 1, 2, 3, 4, n.saturating_sub(1).max(1), n.max(1), n + 1, 7, 13, 64];
    v.sort();
    v.dedup();
    v
}

/* ---- seeds whose i-th draw (i <= 4) is m = 0, so that `add_input` takes its `u == 0.0` branch ----
   SplitMix64's output function is a bijection; `create` starts the state at seed * 0xA24BAED40B9C497C (all
   multiples of 4 are reachable), draw i uses state s0 + i*gamma. Solve for the seed. */
fn inv_odd(a: u64) -> u64 { let mut x = a; for _ in 0..6 { x = x.wrapping_mul(2u64.wrapping_sub(a.wrapping_mul(x))); } x }
fn unmix(mut z: u64) -> u64 {
    fn unxs(z: u64, s: u32) -> u64 { let mut x = z; let mut i = s; while i < 64 { x = z ^ (x >> s); i += s; } x }
    z = unxs(z, 31);
    z = z.wrapping_mul(inv_odd(0x94D0_49BB_1331_11EB));
    z = unxs(z, 27);
    z = z.wrapping_mul(inv_odd(0xBF58_476D_1CE4_E5B9));
    unxs(z, 30)
}
/// `(seed, i)`: the i-th `next_u64()` of an accumulator created with `seed` is `z` (for `z < 2048`: m = 0)
fn seed_with_draw(z: u64) -> Option<(u64, usize)> {
    const GAMMA: u64 = 0x9E37_79B9_7F4A_7C15;
    const C: u64 = 0xA24B_AED4_0B9C_497C;
    let t = unmix(z);
    for i in 1..=4u64 {
        let s0 = t.wrapping_sub(GAMMA.wrapping_mul(i));
        if s0 % 4 == 0 {
            let seed = (s0 / 4).wrapping_mul(inv_odd(C / 4));
            if seed.wrapping_mul(C) == s0 { return Some((seed, i as usize)); }
        }
    }
    None
}

fn big_rows(n: usize, nkeys: i64) -> (Vec<i64>, Vec<(i64, i64)>) {
    let vals: Vec<i64> = (0..n as i64).map(|i| (i * 37 + 11) % 101).collect();
    // skewed keys: key 0 takes every other row, the rest rotate
    let rows: Vec<(i64, i64)> = vals.iter().enumerate().map(|(i, v)| (if i % 2 == 0 { 0 } else { 1 + (i as i64 / 2) % (nkeys - 1).max(1) }, *v)).collect();
    (vals, rows)
}

/// inputs beyond the 60-row scope: stores >= 64 slots, k in {63, 64, 65, 100, 1000}, > 61 accumulators per merge
fn big_block(cx: &mut Ctx) {
    let ns = [64usize, 65, 127, 128, 257, 1000];
    let ks = [63usize, 64, 65, 100, 1000];
    let parts = [1usize, 2, 3, 5, 65, 128];
    let mut c = 0usize;
    for (ix, n) in ns.iter().enumerate() {
        let (vals, rows) = big_rows(*n, 3);
        for j in 0..scope(cx, 2, 5, 3) {
            let k = ks[(ix + 2 * j) % ks.len()];
            let e = ENTRIES[(ix + j) % 4];
            one_pipe(cx, e, k, 42 + j as u64, &parts, Pre::Id, false, &vals, &rows);
            c += 1;
        }
    }
    // skewed partitions of big chunks behind a filter, and the join side
    let (vals, rows) = big_rows(300, 4);
    one_pipe(cx, Entry::GVec, 64, 7, &[2, 3, 4], Pre::Ge(40), false, &vals, &rows);
    one_pipe(cx, Entry::KVec, 65, 7, &[2, 3, 4], Pre::Mod(3, 1), false, &vals, &rows);
    one_pipe(cx, Entry::KVec, 100, 7, &[2, 4, 150], Pre::Id, true, &vals, &rows);
    one_pipe(cx, Entry::GFlat, 70, 7, &[2, 4, 150], Pre::Id, true, &vals, &rows);
    c += 4;
    // the combiner directly: leaves of >= 64 rows under three tree shapes; 70 accumulators in one merge chain
    let (v256, _) = big_rows(256, 3);
    for (k, seed) in [(64usize, 1u64), (65, 42), (200, 7), (300, 0)] {
        let four = cut_sizes(&v256, &[64, 64, 65, 63]);
        one_reservoir_opt(cx, k, seed, &four, &left_comb(4), true);
        one_reservoir(cx, k, seed, &four, &balanced(0, 4));
        one_reservoir(cx, k, seed, &four, &right_comb(0, 4));
        one_reservoir(cx, k, seed, &four, &lift_all(&balanced(0, 4)));
        c += 5;
    }
    let (v140, _) = big_rows(140, 3);
    let seventy = cut_sizes(&v140, &vec![2; 70]);
    for k in [1usize, 64, 69, 140] {
        one_reservoir(cx, k, 42, &seventy, &left_comb(70));
        one_reservoir(cx, k, 42, &seventy, &balanced(0, 70));
        c += 2;
    }
    // huge k that is not usize::MAX
    one_reservoir(cx, usize::MAX - 1, 3, &cut_sizes(&v140, &[70, 70]), &left_comb(2));
    one_reservoir(cx, 1usize << 32, 3, &cut_sizes(&v140, &[70, 70]), &left_comb(2));
    one_pipe(cx, Entry::KFlat, usize::MAX - 1, 3, &[2, 3], Pre::Id, false, &v140, &big_rows(140, 3).1);
    c += 3;
    cx.exhaustive_blocks.push(format!("beyond 60 rows (fixed corpus, every tier): n in {{64,65,127,128,257,1000}} x k in {{63,64,65,100,1000}} x partitions {{1,2,3,5,65,128}} rotating over the 4 entry points; filters / join side at n = 300; combiner leaves of 63-65 rows under left-comb / balanced / right-comb / all-lifted trees; 70 accumulators per merge; k = 2^32, usize::MAX-1 ({c} requests)"));

    // oracle only (no model request: the model is quadratic): 70 000 rows in ONE accumulator (seq, 1 and 2 partitions)
    let n = 70_000usize;
    let vals: Vec<i64> = (0..n as i64).map(|i| (i * 7919) % 10_007).collect();
    let rows: Vec<(i64, i64)> = vals.iter().map(|v| (0, *v)).collect();
    let head: Vec<i64> = vals[..8].to_vec();
    let anchor = one_pipe(cx, Entry::GVec, 10, 99, &[1], Pre::Id, false, &head, &[]).case;
    for e in [Entry::GVec, Entry::KFlat] {
        for m in [Mode::Seq, Mode::Par(1), Mode::Par(2)] {
            let (o, _) = run_entry(e, 10, 99, m, Pre::Id, false, &vals, &rows);
            let (o2, _) = run_entry(e, 10, 99, m, Pre::Id, false, &vals, &rows);
            cx.count("big:70000-rows-oracle-only-runs");
            check_one(cx, anchor, e, 10, &format!("[oracle-only run, n = {n}, {m:?}]"), &o, &vals, &rows);
            if o != o2 { cx.oracle_fail(anchor, "sample-not-reproducible", format!("{} n={n} {m:?}: {} then {}", e.name(), o.enc(), o2.enc())); }
            if m == Mode::Par(1) {
                let (s, _) = run_entry(e, 10, 99, Mode::Seq, Pre::Id, false, &vals, &rows);
                if s != o { cx.oracle_fail(anchor, "single-partition-run-differs-from-sequential", format!("{} n={n}: seq {} but p1 {}", e.name(), s.enc(), o.enc())); }
            }
        }
    }
}

fn boundary_bits() -> Vec<u64> {
    vec![
        0, 1, 2, 0x000F_FFFF_FFFF_FFFF, 0x0010_0000_0000_0000,       // +0, smallest subnormals, largest subnormal, smallest normal
        0x3CA0_0000_0000_0000, 0x3CA0_0000_0000_0001,                // 2^-53 (m = 1) and its successor
        0x3FDF_FFFF_FFFF_FFFF, 0x3FE0_0000_0000_0000, 0x3FE0_0000_0000_0001, // around 0.5
        0x3FEF_FFFF_FFFF_FFFF, 0x3FF0_0000_0000_0000,                // 1 - 2^-53 (m = 2^53 - 1), 1.0
        0x7FF0_0000_0000_0000, 0x7FF8_0000_0000_0000,                // +inf, NaN
        0x8000_0000_0000_0000, 0x8000_0000_0000_0001, 0xBFE0_0000_0000_0000, 0xFFF8_0000_0000_0000, // -0, -subnormal, -0.5, -NaN
    ]
}

pub fn run(cx: &mut Ctx) {
    install_plan_hook();
    run_inner(cx);
    remove_plan_hook();
}

fn scope(cx: &Ctx, quick: usize, thorough: usize, search: usize) -> usize {
    match cx.tier { crate::ctx::Tier::Quick => quick, crate::ctx::Tier::Thorough => thorough, crate::ctx::Tier::Search => search }
}

fn run_inner(cx: &mut Ctx) {
    /* (1) corpus: the design-time witness of the known finding and boundary cases */
    let w: Vec<i64> = (0..20).collect();
    let wk: Vec<(i64, i64)> = w.iter().map(|v| (v % 2, *v)).collect();
    let six: [(i64, i64); 6] = [(0, 0), (1, 5), (0, 1), (1, 6), (0, 2), (1, 7)];
    for e in ENTRIES {
        let r = one_pipe(cx, e, 5, 42, &[0, 1, 2, 3, 4, 20, 21], Pre::Id, false, &w, &wk);
        typed_and_auto(cx, &r, e, 5, 42, Pre::Id, &w, &wk);
        one_pipe(cx, e, 0, 42, &[1, 3], Pre::Id, false, &w, &wk);
        one_pipe(cx, e, 20, 42, &[1, 3], Pre::Id, false, &w, &wk);
        one_pipe(cx, e, 21, 42, &[1, 3], Pre::Id, false, &w, &wk);
        one_pipe(cx, e, 3, 7, &[0, 1, 2], Pre::Id, false, &[], &[]);
        one_pipe(cx, e, usize::MAX, u64::MAX, &[1, 3, 64], Pre::Id, false, &w, &wk); // largest k and seed
        // a stateless op in front of the sample: even thinning, only the first / only the last partitions keep
        // anything, nothing kept, everything kept, a map, a flat_map that deletes / duplicates
        for f in [Pre::Mod(2, 0), Pre::Lt(5), Pre::Ge(15), Pre::Lt(12), Pre::Nothing, Pre::All, Pre::Map(-2, 3), Pre::Dup(3)] {
            let r = one_pipe(cx, e, 5, 42, &[0, 1, 2, 3, 4, 19, 20, 21], f, false, &w, &wk);
            if matches!(f, Pre::Lt(12) | Pre::Dup(3)) { typed_and_auto(cx, &r, e, 5, 42, f, &w, &wk); }
        }
        one_pipe(cx, e, 3, 7, &[0, 1, 2], Pre::All, false, &[], &[]);
        one_pipe(cx, e, 1, 42, &[1, 2, 3, 6, 7], Pre::Mod(2, 0), false, &[0, 1, 2, 3, 4, 5], &six); // Lean: filter_seq_ne_par
        one_pipe(cx, e, 1, 42, &[1, 2, 3, 6, 7], Pre::Id, false, &[0, 1, 2], &six); // Lean: seq_ne_par, keyed_seq_ne_par
        // the sample as a join input: the join side's chain runs un-planned (GroupByKey barrier + local_groups)
        if e != Entry::GVec {
            one_pipe(cx, e, 5, 42, &[0, 1, 2, 3, 4, 20, 21], Pre::Id, true, &w, &wk);
            one_pipe(cx, e, 1, 42, &[1, 2, 3, 6, 7], Pre::Id, true, &[0, 1, 2], &six); // Lean: keyed_unlifted_eq_seq_witness
            one_pipe(cx, e, 0, 42, &[1, 3], Pre::Id, true, &w, &wk);
            one_pipe(cx, e, 25, 42, &[1, 3], Pre::Lt(12), true, &w, &wk);
            one_pipe(cx, e, 3, 7, &[0, 2], Pre::Id, true, &[], &[]);
        }
    }
    one_reservoir(cx, usize::MAX, 0, &cut_sizes(&w, &[7, 7, 6]), &left_comb(3));
    one_reservoir_opt(cx, 5, 42, &[w.clone()], &Shape::Leaf(0, false), true);
    one_reservoir_opt(cx, 5, 42, &cut_sizes(&w, &[5, 5, 5, 5]), &left_comb(4), true);
    one_reservoir_opt(cx, 5, 42, &cut_sizes(&w, &[7, 7, 6]), &left_comb(3), true);
    // in-order leaves under three tree shapes (audit-D driver probes)
    let twelve: Vec<i64> = (0..12).collect();
    for (k, seed, sizes) in [(3usize, 42u64, [3usize, 3, 3, 3]), (5, 7, [2, 4, 3, 3])] {
        let parts = cut_sizes(&twelve, &sizes);
        for sh in [left_comb(4), balanced(0, 4), right_comb(0, 4)] { one_reservoir_opt(cx, k, seed, &parts, &sh, true); }
    }
    // systematic ties (same priority and seq in every partition): equal-size leaves of identical values
    one_reservoir_opt(cx, 2, 1, &cut_sizes(&[1, 2, 3, 1, 2, 3, 1, 2, 3], &[3, 3, 3]), &left_comb(3), true);
    one_reservoir_opt(cx, 3, 1, &cut_sizes(&[1, 2, 3, 1, 2, 3], &[3, 3]), &Shape::Node(Box::new(Shape::Leaf(1, false)), Box::new(Shape::Leaf(0, true))), true);
    // the `u == 0.0` branch of add_input: seeds whose i-th draw has its top 53 bits clear (m = 0)
    let mut zero_seeds = 0usize;
    for z in [0u64, 1, 5, 2047] {
        if let Some((seed, i)) = seed_with_draw(z) {
            zero_seeds += 1;
            let six_v: Vec<i64> = (0..6).collect();
            one_reservoir_opt(cx, 10, seed, &[six_v.clone()], &Shape::Leaf(0, false), true); // nothing evicted: all 6 priorities visible
            one_reservoir_opt(cx, 2, seed, &[six_v.clone()], &Shape::Leaf(0, false), true);
            one_reservoir_opt(cx, 3, seed, &cut_sizes(&six_v, &[i, 6 - i]), &left_comb(2), true);
            one_reservoir_opt(cx, 4, seed, &cut_sizes(&six_v, &[3, 3]), &Shape::Node(Box::new(Shape::Leaf(1, true)), Box::new(Shape::Leaf(0, false))), true);
            for e in ENTRIES { one_pipe(cx, e, 3, seed, &[1, 2, 3], Pre::Id, false, &six_v, &six); }
        }
    }
    cx.count_n("corpus:seeds-with-a-zero-priority-draw", zero_seeds as u64);
    // OrdF64::cmp is f64::total_cmp (the model orders priorities by their 53-bit integers, `prioBits` maps them to
    // the stored bit patterns): all pairs of boundary patterns, neighbours of real priorities
    let bb = boundary_bits();
    for a in &bb { for b in &bb { one_ord(cx, *a, *b); } }
    for m in [1u64, 2, 3, (1 << 52) - 1, 1 << 52, (1 << 52) + 1, (1 << 53) - 2, (1 << 53) - 1, 0x000A_BCDE_F012_3456] {
        let u = (m as f64) * (1.0 / ((1u64 << 53) as f64));
        let b = u.to_bits();
        for d in [1u64, 2, 1000, 4_000_000] { one_ord(cx, b, b + d); one_ord(cx, b + d, b); }
    }
    // a sample taken after a hash-ordered barrier
    let gr: Vec<(i64, i64)> = (0..12).map(|i| (i % 6, i)).collect();
    for k in [0usize, 1, 2, 5, 6, 7] {
        for (seed, mode) in [(42u64, Mode::Seq), (7, Mode::Par(3))] { one_gbk(cx, k, seed, mode, &gr); }
    }
    // beyond 60 rows
    big_block(cx);

    /* (2) exhaustive small scope */
    // (2a) the combiner: every n <= N, every split into <= 3 (possibly empty) leaves, every tree shape over
    //      every leaf order, every k in 0..=n+1, two seeds; values with duplicates. Seed 42: also with every leaf
    //      built by build_from_group, and with the accumulator state compared.
    let nmax = scope(cx, 4, 7, 5);
    let mut n_ex = 0usize;
    for n in 0..=nmax {
        let vals: Vec<i64> = (0..n as i64).map(|i| (i * 7 + 3) % 3).collect();
        for m in 1..=3usize {
            let shapes: Vec<Shape> = permutations(m).iter().flat_map(|p| all_trees(p)).collect();
            for sizes in compositions(n, m) {
                let parts = cut_sizes(&vals, &sizes);
                for sh in &shapes {
                    let lifted = lift_all(sh);
                    for k in 0..=n + 1 {
                        one_reservoir(cx, k, 0, &parts, sh);
                        one_reservoir_opt(cx, k, 42, &parts, sh, true);
                        one_reservoir(cx, k, 42, &parts, &lifted);
                        n_ex += 4;
                    }
                }
            }
        }
    }
    cx.exhaustive_blocks.push(format!("combiner: n <= {nmax} x all splits into <= 3 possibly-empty leaves x all merge trees over all leaf orders x k in 0..=n+1 x seeds {{0,42}}; seed 42 also with every leaf lifted (build_from_group) and with the accumulator state (priority bit patterns, seq, tombstones, alive, heap length) compared ({n_ex} requests)"));
    // (2b) the pipelines: every n <= N, every k in 0..=n+1, all four entry points, seq + every partition count 0..=n+2
    let pmax = scope(cx, 6, 12, 8);
    let mut p_ex = 0usize;
    for n in 0..=pmax {
        let vals: Vec<i64> = (0..n as i64).map(|i| (i * 5 + 1) % 4).collect();
        let rows: Vec<(i64, i64)> = vals.iter().enumerate().map(|(i, v)| ((i as i64 * 3 + 1) % 2, *v)).collect();
        let parts: Vec<usize> = (0..=n + 2).collect();
        for k in 0..=n + 1 {
            for seed in [0u64, 1, 42] {
                for e in ENTRIES {
                    one_pipe(cx, e, k, seed, &parts, Pre::Id, false, &vals, &rows);
                    p_ex += 1;
                }
            }
        }
    }
    cx.exhaustive_blocks.push(format!("pipelines: n <= {pmax} x k in 0..=n+1 x seeds {{0,1,42}} x 4 entry points x seq + partitions 0..=n+2 ({p_ex} requests)"));
    // (2c) a stateless op in front of the sample: every n <= N (values = positions, so `lt`/`ge` keep a prefix / a
    //      suffix and whole partitions become empty), every prefix, every suffix, three residue classes, a map, a
    //      deleting/duplicating flat_map, every k in 0..=n+1, all four entry points, seq + every partition count 0..=n+2
    let fmax = scope(cx, 4, 8, 5);
    let mut f_ex = 0usize;
    for n in 0..=fmax {
        let vals: Vec<i64> = (0..n as i64).collect();
        let rows: Vec<(i64, i64)> = vals.iter().map(|v| ((v * 3 + 1) % 2, *v)).collect();
        let parts: Vec<usize> = (0..=n + 2).collect();
        let mut pres: Vec<Pre> = vec![Pre::Mod(2, 0), Pre::Mod(2, 1), Pre::Mod(3, 1), Pre::Map(2, 1), Pre::Dup(3)];
        for c in 0..=n as i64 { pres.push(Pre::Lt(c)); pres.push(Pre::Ge(c)); }
        for f in &pres {
            let kmax = if matches!(f, Pre::Dup(_)) { 2 * n + 1 } else { n + 1 };
            for k in 0..=kmax {
                for e in ENTRIES {
                    one_pipe(cx, e, k, 42, &parts, *f, false, &vals, &rows);
                    f_ex += 1;
                }
            }
        }
    }
    cx.exhaustive_blocks.push(format!("pipelines with a stateless op before the sample: n <= {fmax} (values = positions) x every prefix (lt) / suffix (ge) / residue classes mod 2, mod 3 / map 2x+1 / flat_map (x mod 3 copies) x k in 0..=n+1 (dup: 0..=2n+1) x seed 42 x 4 entry points x seq + partitions 0..=n+2 ({f_ex} requests)"));
    // (2d) the sample as a join input (un-planned join side): every n <= N, every k, seq + every partition count
    let jmax = scope(cx, 4, 7, 5);
    let mut j_ex = 0usize;
    for n in 0..=jmax {
        let vals: Vec<i64> = (0..n as i64).map(|i| (i * 5 + 1) % 4).collect();
        let rows: Vec<(i64, i64)> = vals.iter().enumerate().map(|(i, v)| ((i as i64 * 3 + 1) % 2, *v)).collect();
        let parts: Vec<usize> = (0..=n + 2).collect();
        for k in 0..=n + 1 {
            for e in [Entry::GFlat, Entry::KVec, Entry::KFlat] {
                one_pipe(cx, e, k, 42, &parts, Pre::Id, true, &vals, &rows);
                j_ex += 1;
            }
        }
    }
    cx.exhaustive_blocks.push(format!("sample feeding join_inner: n <= {jmax} x k in 0..=n+1 x seed 42 x (sample_reservoir, sample_values_reservoir_vec, sample_values_reservoir) x seq + partitions 0..=n+2 ({j_ex} requests)"));

    /* (3) random */
    // search tier: 10x the quick rounds under a different seed (the exhaustive blocks stay small)
    let rounds = scope(cx, 4000, 80000, 40000);
    for r in 0..rounds {
        // thorough / search tier: one round in 20 beyond the 60-row scope
        let big = cx.tier != crate::ctx::Tier::Quick && r % 20 == 7;
        let n = if big { 61 + cx.rng.below(if r % 200 == 7 { 940 } else { 260 }) } else { match cx.rng.below(6) { 0 => cx.rng.below(4), 1 => 60, _ => cx.rng.below(61) } };
        let vals = gen_values(cx, n);
        let k = if big && cx.rng.chance(1, 2) { *cx.rng.pick(&[63usize, 64, 65, 100]) } else { gen_k(cx, n) };
        let seed = gen_seed(cx);
        // the combiner on a random split and a random tree over a random leaf order
        let m = 1 + cx.rng.below(6);
        let parts = if cx.rng.chance(1, 3) {
            // equal-size leaves: systematic priority ties between leaves
            let sz = n / m;
            if sz == 0 { gen_split(cx, &vals, m) } else {
                let mut sizes = vec![sz; m];
                sizes[m - 1] += n - sz * m;
                cut_sizes(&vals, &sizes)
            }
        } else { gen_split(cx, &vals, m) };
        let mut order: Vec<usize> = (0..parts.len()).collect();
        if cx.rng.chance(1, 2) {
            for i in (1..order.len()).rev() { let j = cx.rng.below(i + 1); order.swap(i, j); }
        }
        let sh = if cx.rng.chance(1, 3) { left_comb(parts.len()) } else { gen_tree(cx, &order) };
        one_reservoir_opt(cx, k, seed, &parts, &sh, r % 4 == 2);
        // one pipeline entry point (rotating), seq + three partition counts
        let e = ENTRIES[r % 4];
        let mut choices = partition_choices(n);
        if big { choices.extend([5, 65, 128]); }
        let mut ps: Vec<usize> = (0..3).map(|_| *cx.rng.pick(&choices)).collect();
        ps.sort();
        ps.dedup();
        // every other round: a stateless op in front of the sample; half of those on ascending values, so that the
        // kept rows are a prefix / suffix and the partitions are empty or skewed
        let pre = if (r / 4) % 2 == 1 { gen_pre(cx, &vals) } else { Pre::Id };
        let mut vals = vals;
        if pre != Pre::Id && cx.rng.chance(1, 2) { vals.sort(); }
        let rows = keyed_rows(cx, &vals);
        // k relative to the number of rows that reach the sampler half of the time
        let k = if pre != Pre::Id && cx.rng.chance(1, 2) { let kept: usize = vals.iter().map(|x| pre.apply(*x).len()).sum(); gen_k(cx, kept) } else { k };
        // one round in 8: the sample feeds a join (not for sample_reservoir_vec)
        let join = (r / 8) % 8 == 3 && e != Entry::GVec;
        let res = one_pipe(cx, e, k, seed, &ps, pre, join, &vals, &rows);
        if r % 32 == 5 && !join { typed_and_auto(cx, &res, e, k, seed, pre, &vals, &rows); }
        if r % 16 == 9 {
            let nk = 1 + cx.rng.below(12);
            let gr: Vec<(i64, i64)> = (0..n.min(30)).map(|i| (cx.rng.below(nk) as i64, i as i64)).collect();
            let mode = if cx.rng.chance(1, 2) { Mode::Seq } else { Mode::Par(1 + cx.rng.below(5)) };
            let gk = gen_k(cx, nk.min(gr.len()));
            one_gbk(cx, gk, seed, mode, &gr);
        }
        if r % 64 == 11 {
            // neighbours of a real priority
            let b = (((cx.rng.next_u64() >> 11) as f64) * (1.0 / ((1u64 << 53) as f64))).to_bits();
            let d = 1 + cx.rng.below(3) as u64;
            one_ord(cx, b, b.wrapping_add(d));
            one_ord(cx, b.wrapping_add(d), b);
        }
    }
}
