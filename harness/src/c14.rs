//! C14 — reservoir sampling: right size, real elements only, reproducible, mode-stable.
//!
//! Requests
//!   `RESERVOIR <k> <seed> <values> <sizes> <tree…>`  → `OK <sample>`
//!       the REAL `PriorityReservoir` driven directly: `values` cut into leaves of the given `sizes`,
//!       each leaf `L<i>` = `create` + `add_input…`, `B<i>` = `build_from_group`, `N a b` = `merge(a, b)`,
//!       then `finish`.
//!   `SAMPLEPIPE <gvec|gflat|kvec|kflat> <k> <seed> <parts> <rows>` → `seq=<out> p<n>=<out> …`
//!       the four REAL entry points (`sample_reservoir_vec`, `sample_reservoir`,
//!       `sample_values_reservoir_vec`, `sample_values_reservoir`) collected with `collect_seq` and with
//!       `collect_par(None, Some(n))` for every listed partition count. Keyed outputs are stably sorted by key
//!       (hash order is not part of the answer); the order inside a sample IS part of the answer.
//!   `SAMPLEFILT <entry> <k> <seed> <parts> <pred> <rows>` → same answer format
//!       the same four entry points with `.filter(pred)` between `from_vec` and the sample, so that in parallel
//!       mode the partitions the combiner sees are skewed or empty (`pred`: `all`, `none`, `lt:<c>`, `ge:<c>`,
//!       `mod:<m>:<r>`; on the element, or on the value of a keyed row).
//! The model must reproduce every sample exactly (elements and order).
//!
//! Oracle (does not go through the model): size = min(k, n) (per key: min(k, n_key), every key present once),
//! sub-multiset of the input (per key; with a filter: of the KEPT input), same-mode reproducibility (every run
//! is executed twice), and the documented stability: the sequential sample equals the sample of every
//! partition count. A cross-mode difference is attributed to the known finding's signatures ONLY where the
//! restarted random stream can explain it; two consequences that hold in spite of / because of that
//! mechanism, and the relation between the flattened and the Vec entry points, have signatures of their own,
//! which are NOT listed as known:
//!   * `flattened-sample-differs-from-vec-form` — `sample_reservoir` / `sample_values_reservoir` must return the
//!     rows of the `_vec` form of the same run, flattened in order (Lean: `sampleFlatSeq_eq`, `sampleFlatPar_eq`);
//!   * `single-partition-run-differs-from-sequential` — a run that the engine executes on ONE partition
//!     (requested count <= 1, or a source of <= 1 rows) must equal the sequential run
//!     (Lean: `mode_stable_single_partition_partial`, `keyed_mode_stable_single_partition_partial`, `filter_…`);
//!   * `sample-differs-from-seq-and-is-not-last-k-at-singleton-partitions` — with at least as many partitions
//!     as source rows every partition holds <= 1 row and the restarted stream yields exactly the last k (kept)
//!     inputs, per key (Lean: `samplePar_singleton_partitions`, `sampleKeyedPar_singleton_partitions`,
//!     `sample(Keyed)FilterPar_singleton_partitions`); a run there that differs from the sequential sample AND
//!     from that prediction is not the known finding.

use crate::ctx::{Ctx, guarded};
use ironbeam::collection::LiftableCombiner;
use ironbeam::combiners::PriorityReservoir;
use ironbeam::{CombineFn, Pipeline, from_vec};
use std::collections::BTreeMap;

/* ------------------------------------------------------------------ encoding */

fn enc_ints(a: &[i64], sep: &str) -> String {
    if a.is_empty() { "-".into() } else { a.iter().map(|x| x.to_string()).collect::<Vec<_>>().join(sep) }
}
fn enc_usizes(a: &[usize]) -> String {
    if a.is_empty() { "-".into() } else { a.iter().map(|x| x.to_string()).collect::<Vec<_>>().join(",") }
}
fn enc_pairs(a: &[(i64, i64)]) -> String {
    if a.is_empty() { "-".into() } else { a.iter().map(|(k, v)| format!("{k}:{v}")).collect::<Vec<_>>().join(",") }
}
fn enc_groups(a: &[(i64, Vec<i64>)]) -> String {
    if a.is_empty() {
        "-".into()
    } else {
        a.iter()
            .map(|(k, vs)| format!("{k}:{}", vs.iter().map(|x| x.to_string()).collect::<Vec<_>>().join(".")))
            .collect::<Vec<_>>()
            .join(",")
    }
}

/* ------------------------------------------------------------------ reference facts */

fn counts(a: &[i64]) -> BTreeMap<i64, usize> {
    let mut m = BTreeMap::new();
    for x in a { *m.entry(*x).or_insert(0) += 1; }
    m
}
/// every element of `s` occurs in `s` at most as often as in `input`
fn sub_multiset(s: &[i64], input: &[i64]) -> bool {
    let ci = counts(input);
    counts(s).iter().all(|(x, c)| ci.get(x).copied().unwrap_or(0) >= *c)
}
fn same_multiset(a: &[i64], b: &[i64]) -> bool { counts(a) == counts(b) }

/* ------------------------------------------------------------------ the combiner driven directly */

#[derive(Clone, Debug)]
enum Shape {
    Leaf(usize, bool),
    Node(Box<Shape>, Box<Shape>),
}
impl Shape {
    fn enc(&self, out: &mut Vec<String>) {
        match self {
            Shape::Leaf(i, lifted) => out.push(format!("{}{i}", if *lifted { "B" } else { "L" })),
            Shape::Node(l, r) => {
                out.push("N".into());
                l.enc(out);
                r.enc(out);
            }
        }
    }
    fn leaves(&self, out: &mut Vec<usize>) {
        match self {
            Shape::Leaf(i, _) => out.push(*i),
            Shape::Node(l, r) => { l.leaves(out); r.leaves(out); }
        }
    }
}

fn eval_shape<C, A>(c: &C, parts: &[Vec<i64>], sh: &Shape) -> A
where
    C: CombineFn<i64, A, Vec<i64>> + LiftableCombiner<i64, A, Vec<i64>>,
{
    match sh {
        Shape::Leaf(i, lifted) => {
            if *lifted {
                c.build_from_group(&parts[*i])
            } else {
                let mut acc = c.create();
                for v in &parts[*i] { c.add_input(&mut acc, *v); }
                acc
            }
        }
        Shape::Node(l, r) => {
            let mut a = eval_shape(c, parts, l);
            let b = eval_shape(c, parts, r);
            c.merge(&mut a, b);
            a
        }
    }
}

fn real_reservoir(k: usize, seed: u64, parts: &[Vec<i64>], sh: &Shape) -> Result<Vec<i64>, String> {
    guarded(|| {
        let c = PriorityReservoir::<i64>::new(k, seed);
        let acc = eval_shape(&c, parts, sh);
        c.finish(acc)
    })
}

fn one_reservoir(cx: &mut Ctx, k: usize, seed: u64, parts: &[Vec<i64>], sh: &Shape) {
    let vals: Vec<i64> = parts.iter().flatten().copied().collect();
    let sizes: Vec<usize> = parts.iter().map(Vec::len).collect();
    let mut toks = vec![];
    sh.enc(&mut toks);
    let req = format!("RESERVOIR {k} {seed} {} {} {}", enc_ints(&vals, ","), enc_usizes(&sizes), toks.join(" "));
    let r1 = real_reservoir(k, seed, parts, sh);
    let r2 = real_reservoir(k, seed, parts, sh);
    let ans = match &r1 { Ok(s) => format!("OK {}", enc_ints(s, ",")), Err(_) => "PANIC".to_string() };
    // the leaves actually used by the tree (each exactly once in generated cases)
    let mut used = vec![];
    sh.leaves(&mut used);
    let input: Vec<i64> = used.iter().flat_map(|i| parts[*i].iter().copied()).collect();
    let n = input.len();
    let i = cx.case(req, ans, n >= 2 && k >= 1 && used.len() >= 2);
    cx.count(&format!("reservoir:leaves:{}", match used.len() { 1 => "1", 2 => "2", 3 => "3", _ => "4+" }));
    cx.count(&format!("reservoir:{}", k_class(k, n)));
    match (&r1, &r2) {
        (Ok(s), Ok(s2)) => {
            if s.len() != k.min(n) {
                cx.oracle_fail(i, "sample-wrong-size", format!("combiner: len {} but min(k={k}, n={n}) = {}", s.len(), k.min(n)));
            }
            if !sub_multiset(s, &input) {
                cx.oracle_fail(i, "sample-not-submultiset", format!("combiner: sample {s:?} is not a sub-multiset of {input:?}"));
            }
            if s != s2 {
                cx.oracle_fail(i, "sample-not-reproducible", format!("combiner: {s:?} then {s2:?}"));
            }
        }
        _ => cx.oracle_fail(i, "sample-panics", "combiner panicked".to_string()),
    }
}

fn k_class(k: usize, n: usize) -> &'static str {
    if k == 0 { "k=0" } else if k == 1 && n > 1 { "k=1" } else if k < n { "1<k<n" } else if k == n { "k=n" } else { "k>n" }
}

/* ------------------------------------------------------------------ the four pipeline entry points */

#[derive(Clone, Copy, PartialEq, Eq, Debug)]
enum Entry { GVec, GFlat, KVec, KFlat }
impl Entry {
    fn name(self) -> &'static str {
        match self { Entry::GVec => "gvec", Entry::GFlat => "gflat", Entry::KVec => "kvec", Entry::KFlat => "kflat" }
    }
    fn keyed(self) -> bool { matches!(self, Entry::KVec | Entry::KFlat) }
}
const ENTRIES: [Entry; 4] = [Entry::GVec, Entry::GFlat, Entry::KVec, Entry::KFlat];

/// canonical real output of one run
#[derive(Clone, PartialEq, Eq, Debug)]
enum Out {
    GVec(Vec<Vec<i64>>),
    GFlat(Vec<i64>),
    KVec(Vec<(i64, Vec<i64>)>),
    KFlat(Vec<(i64, i64)>),
    Fail(String),
}
impl Out {
    fn enc(&self) -> String {
        match self {
            // exactly one row is expected; any other row count is made visible
            Out::GVec(rows) => {
                if rows.len() == 1 { enc_ints(&rows[0], ",") } else { format!("ROWS{}", rows.len()) }
            }
            Out::GFlat(v) => enc_ints(v, ","),
            Out::KVec(rows) => enc_groups(rows),
            Out::KFlat(rows) => enc_pairs(rows),
            Out::Fail(s) => s.clone(),
        }
    }
    /// per-key view: key -> sample in order (global entry points use the single key 0)
    fn per_key(&self) -> Option<Vec<(i64, Vec<i64>)>> {
        match self {
            Out::GVec(rows) => if rows.len() == 1 { Some(vec![(0, rows[0].clone())]) } else { None },
            Out::GFlat(v) => Some(vec![(0, v.clone())]),
            Out::KVec(rows) => Some(rows.clone()),
            Out::KFlat(rows) => {
                let mut out: Vec<(i64, Vec<i64>)> = vec![];
                for (k, v) in rows {
                    match out.last_mut() {
                        Some((lk, vs)) if lk == k => vs.push(*v),
                        _ => out.push((*k, vec![*v])),
                    }
                }
                Some(out)
            }
            Out::Fail(_) => None,
        }
    }
}

/// predicate put in front of the sample (`SAMPLEFILT`)
#[derive(Clone, Copy, PartialEq, Eq, Debug)]
enum Filt { All, None, Lt(i64), Ge(i64), Mod(i64, i64) }
impl Filt {
    fn keep(self, x: i64) -> bool {
        match self {
            Filt::All => true,
            Filt::None => false,
            Filt::Lt(c) => x < c,
            Filt::Ge(c) => x >= c,
            Filt::Mod(m, r) => x.rem_euclid(m) == r,
        }
    }
    fn enc(self) -> String {
        match self {
            Filt::All => "all".into(),
            Filt::None => "none".into(),
            Filt::Lt(c) => format!("lt:{c}"),
            Filt::Ge(c) => format!("ge:{c}"),
            Filt::Mod(m, r) => format!("mod:{m}:{r}"),
        }
    }
}

fn run_entry(e: Entry, k: usize, seed: u64, mode: Option<usize>, filt: Option<Filt>, xs: &[i64], rows: &[(i64, i64)]) -> Out {
    let r = guarded(|| -> anyhow::Result<Out> {
        let p = Pipeline::default();
        let src = || {
            let c = from_vec(&p, xs.to_vec());
            match filt { Some(f) => c.filter(move |x: &i64| f.keep(*x)), None => c }
        };
        let ksrc = || {
            let c = from_vec(&p, rows.to_vec());
            match filt { Some(f) => c.filter(move |r: &(i64, i64)| f.keep(r.1)), None => c }
        };
        Ok(match e {
            Entry::GVec => {
                let c = src().sample_reservoir_vec(k, seed);
                Out::GVec(match mode { None => c.collect_seq()?, Some(n) => c.collect_par(None, Some(n))? })
            }
            Entry::GFlat => {
                let c = src().sample_reservoir(k, seed);
                Out::GFlat(match mode { None => c.collect_seq()?, Some(n) => c.collect_par(None, Some(n))? })
            }
            Entry::KVec => {
                let c = ksrc().sample_values_reservoir_vec(k, seed);
                let mut v = match mode { None => c.collect_seq()?, Some(n) => c.collect_par(None, Some(n))? };
                v.sort_by_key(|r| r.0);
                Out::KVec(v)
            }
            Entry::KFlat => {
                let c = ksrc().sample_values_reservoir(k, seed);
                let mut v = match mode { None => c.collect_seq()?, Some(n) => c.collect_par(None, Some(n))? };
                v.sort_by_key(|r| r.0); // stable: the order inside each key's sample is kept
                Out::KFlat(v)
            }
        })
    });
    match r {
        Ok(Ok(o)) => o,
        Ok(Err(_)) => Out::Fail("ERR".into()),
        Err(_) => Out::Fail("PANIC".into()),
    }
}

/// the property's statement about ONE run's output, evaluated on the real output only
fn check_one(cx: &mut Ctx, i: usize, e: Entry, k: usize, label: &str, out: &Out, xs: &[i64], rows: &[(i64, i64)]) {
    let Some(per_key) = out.per_key() else {
        let sig = if matches!(out, Out::Fail(_)) { "sample-run-fails" } else { "global-sample-not-one-row" };
        cx.oracle_fail(i, sig, format!("{} {label}: {}", e.name(), out.enc()));
        return;
    };
    // expected keys and their values
    let mut groups: BTreeMap<i64, Vec<i64>> = BTreeMap::new();
    if e.keyed() {
        for (kk, v) in rows { groups.entry(*kk).or_default().push(*v); }
    } else {
        groups.insert(0, xs.to_vec());
    }
    // keys: the vec form lists every key exactly once (also when its sample is empty); the flattened
    // form can only show keys with a non-empty sample
    let got_keys: Vec<i64> = per_key.iter().map(|r| r.0).collect();
    let mut dedup = got_keys.clone();
    dedup.dedup();
    if dedup.len() != got_keys.len() || got_keys.iter().any(|kk| !groups.contains_key(kk)) {
        cx.oracle_fail(i, "keyed-sample-wrong-keys", format!("{} {label}: keys {got_keys:?} vs input keys {:?}", e.name(), groups.keys().collect::<Vec<_>>()));
        return;
    }
    for (kk, vals) in &groups {
        let want = k.min(vals.len());
        let got: &[i64] = per_key.iter().find(|r| r.0 == *kk).map(|r| r.1.as_slice()).unwrap_or(&[]);
        let listed = per_key.iter().any(|r| r.0 == *kk);
        if e == Entry::KVec && !listed {
            cx.oracle_fail(i, "keyed-sample-wrong-keys", format!("kvec {label}: key {kk} missing"));
        }
        if got.len() != want {
            cx.oracle_fail(i, "sample-wrong-size", format!("{} {label} key {kk}: len {} but min(k={k}, n={}) = {want}", e.name(), got.len(), vals.len()));
        }
        if !sub_multiset(got, vals) {
            cx.oracle_fail(i, "sample-not-submultiset", format!("{} {label} key {kk}: {got:?} not a sub-multiset of {vals:?}", e.name()));
        }
    }
}

/// the per-key view of an output with empty samples removed (the flattened forms cannot show them)
fn nonempty(pk: &[(i64, Vec<i64>)]) -> Vec<(i64, Vec<i64>)> {
    pk.iter().filter(|r| !r.1.is_empty()).cloned().collect()
}

/// `xs`/`rows` are the SOURCE rows; `filt` (if any) sits between the source and the sample
fn one_pipe(cx: &mut Ctx, e: Entry, k: usize, seed: u64, parts: &[usize], filt: Option<Filt>, xs: &[i64], rows: &[(i64, i64)]) {
    let n_src = if e.keyed() { rows.len() } else { xs.len() };
    // what the sample is taken from
    let fxs: Vec<i64> = xs.iter().copied().filter(|x| filt.map_or(true, |f| f.keep(*x))).collect();
    let frows: Vec<(i64, i64)> = rows.iter().copied().filter(|r| filt.map_or(true, |f| f.keep(r.1))).collect();
    let n = if e.keyed() { frows.len() } else { fxs.len() };
    let data = if e.keyed() { enc_pairs(rows) } else { enc_ints(xs, ",") };
    let req = match filt {
        None => format!("SAMPLEPIPE {} {k} {seed} {} {data}", e.name(), enc_usizes(parts)),
        Some(f) => format!("SAMPLEFILT {} {k} {seed} {} {} {data}", e.name(), enc_usizes(parts), f.enc()),
    };
    let mut labels: Vec<String> = vec!["seq".into()];
    let mut modes: Vec<Option<usize>> = vec![None];
    for p in parts { labels.push(format!("p{p}")); modes.push(Some(*p)); }
    let outs: Vec<Out> = modes.iter().map(|m| run_entry(e, k, seed, *m, filt, xs, rows)).collect();
    let again: Vec<Out> = modes.iter().map(|m| run_entry(e, k, seed, *m, filt, xs, rows)).collect();
    let ans = labels.iter().zip(&outs).map(|(l, o)| format!("{l}={}", o.enc())).collect::<Vec<_>>().join(" ");
    let i = cx.case(req, ans, n >= 2 && k >= 1 && !parts.is_empty());
    let tag = if filt.is_some() { "filt" } else { "pipe" };
    cx.count(&format!("{tag}:{}", e.name()));
    cx.count(&format!("{tag}:{}", k_class(k, n)));
    cx.count(&format!("{tag}:n:{}", match n { 0 => "0", 1 => "1", 2..=4 => "2-4", 5..=15 => "5-15", 16..=40 => "16-40", _ => "41+" }));
    if let Some(f) = filt {
        cx.count(&format!("filt:pred:{}", match f { Filt::All => "all", Filt::None => "none", Filt::Lt(_) => "lt", Filt::Ge(_) => "ge", Filt::Mod(..) => "mod" }));
        cx.count(&format!("filt:kept:{}", if n == n_src { "all" } else if n == 0 { "nothing" } else if 2 * n >= n_src { ">=half" } else { "<half" }));
        // shape of the partitions the combiner sees (global path; reference split = ceil(len/parts) chunks)
        if !e.keyed() {
            for p in parts {
                let pc = (*p).max(1).min(n_src.max(1));
                if pc <= 1 || n_src <= 1 { continue; }
                let sz = n_src.div_ceil(pc);
                let sizes: Vec<usize> = xs.chunks(sz).map(|c| c.iter().filter(|x| f.keep(**x)).count()).collect();
                let empty = sizes.iter().filter(|s| **s == 0).count();
                let (mn, mx) = (sizes.iter().min().copied().unwrap_or(0), sizes.iter().max().copied().unwrap_or(0));
                cx.count(if empty == sizes.len() { "filt:partitions:all-empty" } else if empty > 0 { "filt:partitions:some-empty" } else if mx > mn + 1 { "filt:partitions:skewed" } else { "filt:partitions:even" });
                if sizes.first() == Some(&0) && empty < sizes.len() { cx.count("filt:partitions:first-empty"); }
            }
        }
    }
    for (j, o) in outs.iter().enumerate() {
        check_one(cx, i, e, k, &labels[j], o, &fxs, &frows);
        if *o != again[j] {
            cx.oracle_fail(i, "sample-not-reproducible", format!("{} {}: {} then {}", e.name(), labels[j], o.enc(), again[j].enc()));
        }
    }
    // the flattened entry points return exactly the rows of the Vec form of the same run, flattened in order
    // (Lean: sampleFlatSeq_eq / sampleFlatPar_eq; flattenKeyed is the keyed flattening by definition)
    if matches!(e, Entry::GFlat | Entry::KFlat) {
        let ve = if e == Entry::GFlat { Entry::GVec } else { Entry::KVec };
        for (j, m) in modes.iter().enumerate() {
            let vo = run_entry(ve, k, seed, *m, filt, xs, rows);
            let same = match (&outs[j], &vo) {
                (Out::GFlat(f), Out::GVec(rows)) => *f == rows.iter().flatten().copied().collect::<Vec<i64>>(),
                (Out::KFlat(f), Out::KVec(rows)) => *f == rows.iter().flat_map(|(kk, vs)| vs.iter().map(|v| (*kk, *v))).collect::<Vec<(i64, i64)>>(),
                (Out::Fail(a), Out::Fail(b)) => a == b,
                _ => false,
            };
            cx.count("pipe:flat-vs-vec-compared");
            if !same {
                cx.oracle_fail(i, "flattened-sample-differs-from-vec-form", format!("{} {}: {} but {} gives {}", e.name(), labels[j], outs[j].enc(), ve.name(), vo.enc()));
            }
        }
    }
    // what the restarted stream yields when every partition holds <= 1 source row: the last k (kept) values,
    // per key (global entry points: the single key 0)
    let mut groups: BTreeMap<i64, Vec<i64>> = BTreeMap::new();
    if e.keyed() {
        for (kk, v) in &frows { groups.entry(*kk).or_default().push(*v); }
    } else {
        groups.insert(0, fxs.clone());
    }
    let last_k: Vec<(i64, Vec<i64>)> = groups.iter().map(|(kk, vs)| (*kk, vs[vs.len() - k.min(vs.len())..].to_vec())).collect();
    // documented: identical for sequential and parallel execution and for every partitioning
    let seq_pk = outs[0].per_key();
    let mut known_fail: Option<(&str, String)> = None;
    for j in 1..outs.len() {
        let p = modes[j].unwrap_or(1);
        let single = p <= 1 || n_src <= 1;
        let singletons = !single && p >= n_src;
        let is_last_k = outs[j].per_key().map(|pk| nonempty(&pk) == nonempty(&last_k)).unwrap_or(false);
        if singletons {
            cx.count(if is_last_k { "pipe:parts>=n:sample=last-k" } else { "pipe:parts>=n:sample!=last-k" });
        }
        if single { cx.count("pipe:single-partition-run"); }
        if outs[j] == outs[0] { continue; }
        cx.count("pipe:seq!=par");
        if single {
            // NOT the known finding: one partition runs the very same fold as sequential mode
            cx.oracle_fail(i, "single-partition-run-differs-from-sequential", format!("{} k={k} seed={seed} filter={}: seq {} but {} (one partition: requested {p}, {n_src} source rows) {}", e.name(), filt.map_or("-".into(), Filt::enc), outs[0].enc(), labels[j], outs[j].enc()));
            continue;
        }
        if singletons && !is_last_k {
            // NOT the known finding: the restarted stream yields exactly the last k inputs here
            cx.oracle_fail(i, "sample-differs-from-seq-and-is-not-last-k-at-singleton-partitions", format!("{} k={k} seed={seed} filter={}: {} partitions for {n_src} source rows give {} (sequential {}), the restarted-stream mechanism of the known finding predicts {}", e.name(), filt.map_or("-".into(), Filt::enc), p, outs[j].enc(), outs[0].enc(), enc_groups(&nonempty(&last_k))));
            continue;
        }
        // the known finding (reported once per request: the first differing partition count)
        if known_fail.is_some() { continue; }
        let same_elems = match (&seq_pk, outs[j].per_key()) {
            (Some(a), Some(b)) => {
                a.len() == b.len() && a.iter().zip(b.iter()).all(|(x, y)| x.0 == y.0 && same_multiset(&x.1, &y.1))
            }
            _ => false,
        };
        let sig = if same_elems { "sample-order-differs-between-seq-and-par" } else { "sample-differs-between-seq-and-par" };
        known_fail = Some((sig, format!("{} k={k} seed={seed}: seq {} but {} {}", e.name(), outs[0].enc(), labels[j], outs[j].enc())));
    }
    // emitted after the dedicated signatures so that a replay names the more specific failure first
    if let Some((sig, detail)) = known_fail { cx.oracle_fail(i, sig, detail); }
}

/* ------------------------------------------------------------------ generators */

fn gen_values(cx: &mut Ctx, n: usize) -> Vec<i64> {
    // duplicates are the interesting part: small domains most of the time
    let dom = *cx.rng.pick(&[1i64, 2, 3, 5, 10, 1000]);
    let neg = cx.rng.chance(1, 5);
    (0..n).map(|_| { let v = cx.rng.range(0, dom); if neg && cx.rng.chance(1, 2) { -v } else { v } }).collect()
}
fn gen_k(cx: &mut Ctx, n: usize) -> usize {
    match cx.rng.below(8) {
        0 => 0,
        1 => 1,
        2 => n,
        3 => n + 1,
        4 => n.saturating_sub(1),
        5 => n + 1 + cx.rng.below(5),
        _ => cx.rng.below(n + 2),
    }
}
fn gen_seed(cx: &mut Ctx) -> u64 {
    match cx.rng.below(8) {
        0 => 0,
        1 => 42,
        2 => u64::MAX,
        3 => cx.rng.below(10) as u64,
        _ => cx.rng.next_u64(),
    }
}
/// random split of `vals` into `m` contiguous (possibly empty) leaves
fn gen_split(cx: &mut Ctx, vals: &[i64], m: usize) -> Vec<Vec<i64>> {
    let mut cuts: Vec<usize> = (0..m.saturating_sub(1)).map(|_| cx.rng.below(vals.len() + 1)).collect();
    cuts.sort();
    let mut out = vec![];
    let mut prev = 0;
    for c in cuts { out.push(vals[prev..c].to_vec()); prev = c; }
    out.push(vals[prev..].to_vec());
    out
}
/// random binary tree over the given leaf order
fn gen_tree(cx: &mut Ctx, leaves: &[usize]) -> Shape {
    if leaves.len() == 1 {
        return Shape::Leaf(leaves[0], cx.rng.chance(1, 4));
    }
    let cut = 1 + cx.rng.below(leaves.len() - 1);
    let l = gen_tree(cx, &leaves[..cut]);
    let r = gen_tree(cx, &leaves[cut..]);
    Shape::Node(Box::new(l), Box::new(r))
}
fn left_comb(m: usize) -> Shape {
    let mut t = Shape::Leaf(0, false);
    for i in 1..m { t = Shape::Node(Box::new(t), Box::new(Shape::Leaf(i, false))); }
    t
}
/// all binary tree shapes over the leaf sequence
fn all_trees(leaves: &[usize]) -> Vec<Shape> {
    if leaves.len() == 1 { return vec![Shape::Leaf(leaves[0], false)]; }
    let mut out = vec![];
    for cut in 1..leaves.len() {
        for l in all_trees(&leaves[..cut]) {
            for r in all_trees(&leaves[cut..]) {
                out.push(Shape::Node(Box::new(l.clone()), Box::new(r)));
            }
        }
    }
    out
}
fn permutations(m: usize) -> Vec<Vec<usize>> {
    fn go(cur: &mut Vec<usize>, used: &mut Vec<bool>, out: &mut Vec<Vec<usize>>) {
        if cur.len() == used.len() { out.push(cur.clone()); return; }
        for i in 0..used.len() {
            if !used[i] { used[i] = true; cur.push(i); go(cur, used, out); cur.pop(); used[i] = false; }
        }
    }
    let mut out = vec![];
    go(&mut vec![], &mut vec![false; m], &mut out);
    out
}
/// all ways to cut `n` items into `m` contiguous, possibly empty, pieces (as sizes)
fn compositions(n: usize, m: usize) -> Vec<Vec<usize>> {
    if m == 1 { return vec![vec![n]]; }
    let mut out = vec![];
    for first in 0..=n {
        for mut rest in compositions(n - first, m - 1) {
            let mut v = vec![first];
            v.append(&mut rest);
            out.push(v);
        }
    }
    out
}
fn cut_sizes(vals: &[i64], sizes: &[usize]) -> Vec<Vec<i64>> {
    let mut out = vec![];
    let mut p = 0;
    for s in sizes { out.push(vals[p..p + s].to_vec()); p += s; }
    out
}
fn keyed_rows(cx: &mut Ctx, vals: &[i64]) -> Vec<(i64, i64)> {
    let nk = *cx.rng.pick(&[1i64, 2, 3, 5, 12, 40]);
    let skew = cx.rng.chance(1, 3);
    vals.iter().map(|v| {
        let k = if skew && cx.rng.chance(2, 3) { 0 } else { cx.rng.range(0, nk - 1) };
        (k, *v)
    }).collect()
}
/// a predicate for the filter in front of the sample; thresholds inside and at the ends of the value range
fn gen_filt(cx: &mut Ctx, vals: &[i64]) -> Filt {
    let lo = vals.iter().min().copied().unwrap_or(0);
    let hi = vals.iter().max().copied().unwrap_or(0);
    match cx.rng.below(10) {
        0 => Filt::All,
        1 => Filt::None,
        2 | 3 | 4 => Filt::Lt(cx.rng.range(lo - 1, hi + 1)),
        5 | 6 => Filt::Ge(cx.rng.range(lo - 1, hi + 1)),
        _ => { let m = cx.rng.range(2, 4); Filt::Mod(m, cx.rng.range(0, m - 1)) }
    }
}
fn partition_choices(n: usize) -> Vec<usize> {
    let mut v = vec![0, 1, 2, 3, 4, n.saturating_sub(1).max(1), n.max(1), n + 1, 7, 13, 64];
    v.sort();
    v.dedup();
    v
}

pub fn run(cx: &mut Ctx) {
    /* (1) corpus: the design-time witness of the known finding and boundary cases */
    let w: Vec<i64> = (0..20).collect();
    let wk: Vec<(i64, i64)> = w.iter().map(|v| (v % 2, *v)).collect();
    for e in ENTRIES {
        one_pipe(cx, e, 5, 42, &[0, 1, 2, 3, 4, 20, 21], None, &w, &wk);
        one_pipe(cx, e, 0, 42, &[1, 3], None, &w, &wk);
        one_pipe(cx, e, 20, 42, &[1, 3], None, &w, &wk);
        one_pipe(cx, e, 21, 42, &[1, 3], None, &w, &wk);
        one_pipe(cx, e, 3, 7, &[0, 1, 2], None, &[], &[]);
        one_pipe(cx, e, usize::MAX, u64::MAX, &[1, 3, 64], None, &w, &wk); // largest k and seed
        // a filter in front of the sample: even thinning, only the first / only the last partitions keep
        // anything, nothing kept, everything kept
        for f in [Filt::Mod(2, 0), Filt::Lt(5), Filt::Ge(15), Filt::Lt(12), Filt::None, Filt::All] {
            one_pipe(cx, e, 5, 42, &[0, 1, 2, 3, 4, 19, 20, 21], Some(f), &w, &wk);
        }
        one_pipe(cx, e, 3, 7, &[0, 1, 2], Some(Filt::All), &[], &[]);
        one_pipe(cx, e, 1, 42, &[1, 2, 3, 6, 7], Some(Filt::Mod(2, 0)), &[0, 1, 2, 3, 4, 5], &[(0, 0), (1, 5), (0, 1), (1, 6), (0, 2), (1, 7)]); // Lean: filter_seq_ne_par
        one_pipe(cx, e, 1, 42, &[1, 2, 3, 6, 7], None, &[0, 1, 2], &[(0, 0), (1, 5), (0, 1), (1, 6), (0, 2), (1, 7)]); // Lean: seq_ne_par, keyed_seq_ne_par
    }
    one_reservoir(cx, usize::MAX, 0, &cut_sizes(&w, &[7, 7, 6]), &left_comb(3));
    one_reservoir(cx, 5, 42, &[w.clone()], &Shape::Leaf(0, false));
    one_reservoir(cx, 5, 42, &cut_sizes(&w, &[5, 5, 5, 5]), &left_comb(4));
    one_reservoir(cx, 5, 42, &cut_sizes(&w, &[7, 7, 6]), &left_comb(3));
    // systematic ties (same priority and seq in every partition): equal-size leaves of identical values
    one_reservoir(cx, 2, 1, &cut_sizes(&[1, 2, 3, 1, 2, 3, 1, 2, 3], &[3, 3, 3]), &left_comb(3));
    one_reservoir(cx, 3, 1, &cut_sizes(&[1, 2, 3, 1, 2, 3], &[3, 3]), &Shape::Node(Box::new(Shape::Leaf(1, false)), Box::new(Shape::Leaf(0, true))));

    /* (2) exhaustive small scope */
    // (2a) the combiner: every n <= N, every split into <= 3 (possibly empty) leaves, every tree shape over
    //      every leaf order, every k in 0..=n+1, two seeds; values with duplicates
    let nmax = cx.budget(4, 7);
    let mut n_ex = 0usize;
    for n in 0..=nmax {
        let vals: Vec<i64> = (0..n as i64).map(|i| (i * 7 + 3) % 3).collect();
        for m in 1..=3usize {
            let shapes: Vec<Shape> = permutations(m).iter().flat_map(|p| all_trees(p)).collect();
            for sizes in compositions(n, m) {
                let parts = cut_sizes(&vals, &sizes);
                for sh in &shapes {
                    for k in 0..=n + 1 {
                        for seed in [0u64, 42] {
                            one_reservoir(cx, k, seed, &parts, sh);
                            n_ex += 1;
                        }
                    }
                }
            }
        }
    }
    cx.exhaustive_blocks.push(format!("combiner: n <= {nmax} x all splits into <= 3 possibly-empty leaves x all merge trees over all leaf orders x k in 0..=n+1 x seeds {{0,42}} ({n_ex} cases)"));
    // (2b) the pipelines: every n <= N, every k in 0..=n+1, all four entry points, seq + every partition count 1..=n+2
    let pmax = cx.budget(6, 12);
    let mut p_ex = 0usize;
    for n in 0..=pmax {
        let vals: Vec<i64> = (0..n as i64).map(|i| (i * 5 + 1) % 4).collect();
        let rows: Vec<(i64, i64)> = vals.iter().enumerate().map(|(i, v)| ((i as i64 * 3 + 1) % 2, *v)).collect();
        let parts: Vec<usize> = (0..=n + 2).collect();
        for k in 0..=n + 1 {
            for seed in [0u64, 1, 42] {
                for e in ENTRIES {
                    one_pipe(cx, e, k, seed, &parts, None, &vals, &rows);
                    p_ex += 1;
                }
            }
        }
    }
    cx.exhaustive_blocks.push(format!("pipelines: n <= {pmax} x k in 0..=n+1 x seeds {{0,1,42}} x 4 entry points x seq + partitions 0..=n+2 ({p_ex} requests)"));
    // (2c) a filter in front of the sample: every n <= N (values = positions, so `lt`/`ge` keep a prefix / a
    //      suffix and whole partitions become empty), every prefix, every suffix, three residue classes,
    //      every k in 0..=n+1, all four entry points, seq + every partition count 0..=n+2
    let fmax = cx.budget(4, 8);
    let mut f_ex = 0usize;
    for n in 0..=fmax {
        let vals: Vec<i64> = (0..n as i64).collect();
        let rows: Vec<(i64, i64)> = vals.iter().map(|v| ((v * 3 + 1) % 2, *v)).collect();
        let parts: Vec<usize> = (0..=n + 2).collect();
        let mut filts: Vec<Filt> = vec![Filt::Mod(2, 0), Filt::Mod(2, 1), Filt::Mod(3, 1)];
        for c in 0..=n as i64 { filts.push(Filt::Lt(c)); filts.push(Filt::Ge(c)); }
        for f in &filts {
            for k in 0..=n + 1 {
                for e in ENTRIES {
                    one_pipe(cx, e, k, 42, &parts, Some(*f), &vals, &rows);
                    f_ex += 1;
                }
            }
        }
    }
    cx.exhaustive_blocks.push(format!("pipelines with filter before the sample: n <= {fmax} (values = positions) x every prefix (lt) / suffix (ge) / residue classes mod 2, mod 3 x k in 0..=n+1 x seed 42 x 4 entry points x seq + partitions 0..=n+2 ({f_ex} requests)"));

    /* (3) random: inputs <= 60 with duplicates */
    let rounds = cx.budget(4000, 80000);
    for r in 0..rounds {
        let n = match cx.rng.below(6) { 0 => cx.rng.below(4), 1 => 60, _ => cx.rng.below(61) };
        let vals = gen_values(cx, n);
        let k = gen_k(cx, n);
        let seed = gen_seed(cx);
        // the combiner on a random split and a random tree over a random leaf order
        let m = 1 + cx.rng.below(6);
        let parts = if cx.rng.chance(1, 3) {
            // equal-size leaves: systematic priority ties between leaves
            let sz = n / m;
            if sz == 0 { gen_split(cx, &vals, m) } else {
                let mut sizes = vec![sz; m];
                sizes[m - 1] += n - sz * m;
                cut_sizes(&vals, &sizes)
            }
        } else { gen_split(cx, &vals, m) };
        let mut order: Vec<usize> = (0..parts.len()).collect();
        if cx.rng.chance(1, 2) {
            for i in (1..order.len()).rev() { let j = cx.rng.below(i + 1); order.swap(i, j); }
        }
        let sh = if cx.rng.chance(1, 3) { left_comb(parts.len()) } else { gen_tree(cx, &order) };
        one_reservoir(cx, k, seed, &parts, &sh);
        // one pipeline entry point (rotating), seq + three partition counts
        let e = ENTRIES[r % 4];
        let choices = partition_choices(n);
        let mut ps: Vec<usize> = (0..3).map(|_| *cx.rng.pick(&choices)).collect();
        ps.sort();
        ps.dedup();
        // every other round: a filter in front of the sample; half of those on ascending values, so that the
        // kept rows are a prefix / suffix and the partitions are empty or skewed
        let filt = if (r / 4) % 2 == 1 { Some(gen_filt(cx, &vals)) } else { None };
        let mut vals = vals;
        if filt.is_some() && cx.rng.chance(1, 2) { vals.sort(); }
        let rows = keyed_rows(cx, &vals);
        // k relative to the number of KEPT rows half of the time
        let k = match filt {
            Some(f) if cx.rng.chance(1, 2) => { let kept = vals.iter().filter(|x| f.keep(**x)).count(); gen_k(cx, kept) }
            _ => k,
        };
        one_pipe(cx, e, k, seed, &ps, filt, &vals, &rows);
    }
}
