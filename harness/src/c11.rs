//! C11 — checkpointing is transparent, cleans up after success and survives crashes.
//!
//! One request kind (see `lean/IbModel/Driver/D11.lean`):
//!   CKPT dir=<ok|file|empty|rel> pol=<barrier|every:n|time:s|hybrid:<T|F>:s> max=<none|n> rec=<T|F>
//!        first=<none|full|crash:j|crashb:j>
//!        mut=<none|trunc:o|flip:i:b|set:hex> add=<names|-> pre=<dir|-> ty=<ok|wrong> sab=<none|j>
//!        mode=<seq|par:n|par:none:<s|none>:<d>> canon=.. src <rows> ; steps
//!   => `[<first outcome> own=<0|+> last=<fields|-> || ]<outcome> rec=<log> own=<0|+> last=<fields|-> other=<names|->`
//!
//! A job = a generated pipeline (`pipe.rs` generators; reorder-inert, panic-free; barriers, global combines,
//! joins; a share with slice-dependent chunk functions before the first barrier, so that the partition count is
//! observable; a share that returns `Err` at a node in the middle of the chain) × policy (parameters incl. 0, values
//! around and far beyond the chain length, intervals up to u64::MAX s) × retention (incl. usize::MAX) × mode (`seq`,
//! `partitions: Some(n)`, `partitions: None` [+ `threads`]) × auto_recover, run by the REAL
//! `Runner { checkpoint_config }.run_collect::<T>` in a scratch directory:
//!   * `dir`   `file`: the configured checkpoint directory path is a REGULAR FILE (`create_dir_all` fails);
//!             `empty`: the EMPTY path, the current directory being the scratch directory; `rel`: a relative path;
//!   * `pre`   entries placed before anything runs (own-named files with valid / torn / garbage / hostile content —
//!             valid records carry edge values in EVERY field, multi-MiB files, a sparse 3 GiB file that cannot be
//!             read into the child's address space —, look-alike and foreign names; own-named, look-alike and
//!             foreign SUB-DIRECTORIES);
//!   * `first` an earlier run of the same pipeline that runs to its end (`full`) or is killed: `crash:j` — step `j`
//!             is an identity step (`map ident`, or `filter tt` where the rows are grouped, e.g. directly after a
//!             group_by_key) whose closure panics while armed; `crashb:j` — the closure that panics is the user
//!             combiner (`add_input`) of the BARRIER step following the identity step `j`, i.e. the panic unwinds out
//!             of a CombineValues / CombineGlobal node. Caught; whatever files the run wrote stay;
//!   * `mut`/`add` damage to the newest file the earlier run left / extra foreign files;
//!   * `ty`    `wrong`: `run_collect::<T>` is asked for an element type the terminal collection does not have;
//!   * `sab`   `j`: the identity step `j` RENAMES the checkpoint directory away during the run proper: every later
//!             `save_checkpoint` and the final `clear_checkpoints` fail (the only way to make them fail as uid 0);
//!   * the run proper.
//! Every REAL run that faces directory content an undamaged run of the current code did not write itself — the
//! earlier run over `pre` entries as well as the run proper —, every run that needs its own current directory and
//! every run with an edge policy parameter happens in a CHILD process (`ibh child c11 <first|final> …`) with a
//! watchdog and an address-space limit, and so does every call of the real `load_checkpoint` on such content.
//!
//! Oracles (none goes through the model): the run's result == the result of the same pipeline WITHOUT
//! checkpointing (and == the plain-vector reference interpreter, where that applies); after an `Ok` result no file
//! created by this run or by the earlier run of the same pipeline is left, no new entry exists, and no regular file
//! with a well-formed checkpoint name of THIS run's pipeline id is left (the id is a hash of the chain length
//! [+ partition count], so planted files "of an equal-length pipeline" are this id's files by design — Lean
//! `same_length_same_id`); entries that are not checkpoint files of this pipeline id — foreign files and every
//! sub-directory, own-named ones included (`remove_file` cannot remove them) — are untouched; the run never panics /
//! aborts / hangs because of what is in the directory. With `dir=file` (a precondition of the property is violated)
//! the run must either return the plain result or fail with the set-up error, and leave the path alone. With `sab`
//! (the store is taken away) only the result is demanded; what stays is compared with the model.
//!
//! NO VERDICT DEPENDS ON WALL-CLOCK LUCK: a HANG / ABORT verdict (watchdog expiry, child killed) is believed only
//! when the whole job, redone from scratch in a fresh directory, ends the same way; checkpoint-free runs are
//! re-executed in place; a job during which the wall clock stepped (wall vs monotonic duration) is redone / dropped;
//! with a wall clock outside 2004..2061 the jobs with planted stamps are skipped; a scratch file system that refuses
//! a write drops the job. All of these are NOTES in the evidence.
//! Wall-clock stamps never appear in answers: the listing is reduced to "are there own files" + the decoded record
//! of the newest one (without timestamp and checksum) + the sorted other names.

use crate::ctx::{Ctx, Rng, Tier, guarded, hex};
use crate::pipe::{self, Coll, Comb, Fn_, GenOpts, JoinKind, MaxT, Mode, Outcome, Pred, Prog, RefOut, Shape, Step, V};
use ironbeam::checkpoint::{
    CheckpointConfig, CheckpointManager, CheckpointMetadata, CheckpointPolicy, CheckpointState, compute_checksum,
};
use ironbeam::{ExecMode, Pipeline, Runner};
use std::collections::{BTreeMap, BTreeSet};
use std::io::{BufRead, BufReader, Write};
use std::path::{Path, PathBuf};
use std::process::{Command, Stdio};
use std::sync::Mutex;
use std::sync::atomic::{AtomicBool, AtomicUsize, Ordering};
use std::sync::mpsc;
use std::time::{Duration, Instant, SystemTime, UNIX_EPOCH};

/// address-space limit of the child (KiB). Hostile length prefixes are ≥ 2^31, so an unbounded decoder dies.
const CHILD_AS_LIMIT_KIB: u64 = 1536 * 1024;
const CHILD_WATCHDOG_S: u64 = 120;   // > 7 x the in-process watchdog of run_once (10 s + grace 60 s)

/// the injected closure panics only while this is set (first run of a `crash:j` job)
static ARMED: AtomicBool = AtomicBool::new(false);
/// `sab:j` jobs: while this holds a path, the first call of the marker closure RENAMES that directory to
/// `<path>.moved` (once): from then on `File::create` / `read_dir` on the configured path fail
static SABOTAGE: Mutex<Option<PathBuf>> = Mutex::new(None);
/// set by `run_once` when the wall clock and the monotonic clock disagree about the duration of a run (a clock step):
/// the stamps / time policies of that run are not what the scripted clock of the model assumes — the job is redone
static CLOCK_ANOMALY: AtomicBool = AtomicBool::new(false);
/// in-process watchdog verdicts that were re-executed (a HANG must be seen twice)
static HANG_RETRIES: AtomicUsize = AtomicUsize::new(0);
static HANGS_CONFIRMED: AtomicUsize = AtomicUsize::new(0);
/// watchdog expiries seen by this process (parent or child)
static HANGS_SEEN: AtomicUsize = AtomicUsize::new(0);
/// `default_partitions` of every Runner the harness builds (used when `partitions: None` and no planner suggestion)
const DEFAULT_PARTS: usize = 3;
/// files larger than this are listed by size, not by content
const BIG_LISTING: u64 = 16 << 20;
/// size of the sparse `BIG` leftover: more than the child's address space
const BIG_FILE_LEN: u64 = 3 << 30;
/// the planted stamps assume the wall clock lies strictly between these (ms since the epoch; the model's scripted
/// clock is 1.7e12): outside the window jobs with planted stamps are skipped (a note), not judged
const CLOCK_WINDOW_MS: (u64, u64) = (1_100_000_000_000, 2_900_000_000_000);

#[derive(Clone, Copy, Debug, PartialEq)]
enum Pol {
    Barrier,
    Every(usize),
    Time(u64),
    Hybrid(bool, u64),
}
impl Pol {
    fn enc(&self) -> String {
        match self {
            Pol::Barrier => "barrier".into(),
            Pol::Every(n) => format!("every:{n}"),
            Pol::Time(s) => format!("time:{s}"),
            Pol::Hybrid(b, s) => format!("hybrid:{}:{s}", if *b { "T" } else { "F" }),
        }
    }
    fn real(&self) -> CheckpointPolicy {
        match *self {
            Pol::Barrier => CheckpointPolicy::AfterEveryBarrier,
            Pol::Every(n) => CheckpointPolicy::EveryNNodes(n),
            Pol::Time(s) => CheckpointPolicy::TimeInterval(s),
            Pol::Hybrid(b, s) => CheckpointPolicy::Hybrid { barriers: b, interval_secs: s },
        }
    }
}
/// an interval far longer than any run: the time condition is true exactly once (no previous checkpoint)
const LONG: u64 = 1_000_000;
const ALL_POLS: &[Pol] = &[
    Pol::Barrier,
    Pol::Every(0),
    Pol::Every(1),
    Pol::Every(2),
    Pol::Every(3),
    Pol::Time(0),
    Pol::Time(LONG),
    Pol::Hybrid(true, 0),
    Pol::Hybrid(true, LONG),
    Pol::Hybrid(false, 0),
    Pol::Hybrid(false, LONG),
];
const ALL_MAX: &[Option<usize>] = &[None, Some(0), Some(1), Some(3)];
/// huge intervals ("checkpoint once, never again"): like `LONG`, never due a second time whatever the machine does
const HUGE_SECS: &[u64] = &[i64::MAX as u64, u64::MAX - 1, u64::MAX];
/// short intervals: whether a SECOND time-based save happens depends on how long the run takes — only used where no
/// file can survive the run (a successful run from a directory without own files, no earlier run)
const SHORT_SECS: &[u64] = &[1, 3600];
const EXTREME_MAX: &[Option<usize>] = &[None, Some(0), Some(1), Some(usize::MAX)];

/// policies whose PARAMETER is at or beyond an edge; `timing_free`: only those whose saves do not depend on the
/// duration of the run
fn extreme_pols(timing_free: bool) -> Vec<Pol> {
    let mut v: Vec<Pol> = [4usize, 5, 6, 7, usize::MAX - 1, usize::MAX].iter().map(|n| Pol::Every(*n)).collect();
    for s in HUGE_SECS {
        v.push(Pol::Time(*s));
        v.push(Pol::Hybrid(true, *s));
        v.push(Pol::Hybrid(false, *s));
    }
    if !timing_free {
        for s in SHORT_SECS {
            v.push(Pol::Time(*s));
            v.push(Pol::Hybrid(true, *s));
            v.push(Pol::Hybrid(false, *s));
        }
    }
    v
}

/// is there a checkpoint configuration, and is it enabled
#[derive(Clone, Copy, Debug, PartialEq)]
enum En {
    On,
    /// `checkpoint_config: Some(CheckpointConfig { enabled: false, .. })`
    Off,
    /// `checkpoint_config: None`
    NoCfg,
}

#[derive(Clone, Debug, PartialEq)]
enum First {
    None,
    Full,
    /// the identity step at this index panics while armed
    Crash(usize),
    /// `marker`: an (unarmed) identity step; `barrier`: the following barrier step, whose user combiner panics
    CrashBarrier { marker: usize, barrier: usize },
}
/// what the configured checkpoint directory path is
#[derive(Clone, Copy, Debug, PartialEq)]
enum DirKind {
    Ok,
    /// a regular file: `create_dir_all` fails
    File,
    /// `PathBuf::new()`, the process' current directory being the scratch directory (child process only)
    Empty,
    /// a relative path, the current directory being the scratch root (child process only)
    Rel,
}
impl DirKind {
    fn enc(&self) -> &'static str {
        match self {
            DirKind::Ok => "ok",
            DirKind::File => "file",
            DirKind::Empty => "empty",
            DirKind::Rel => "rel",
        }
    }
    fn needs_cwd(&self) -> bool {
        matches!(self, DirKind::Empty | DirKind::Rel)
    }
}
const FILE_AS_DIR_CONTENT: &[u8] = b"this path is a regular file, not a directory\n";
#[derive(Clone, Debug, PartialEq)]
enum Mu {
    None,
    Trunc(usize),
    Flip(usize, u8),
    Set(Vec<u8>),
}
impl Mu {
    fn enc(&self) -> String {
        match self {
            Mu::None => "none".into(),
            Mu::Trunc(o) => format!("trunc:{o}"),
            Mu::Flip(i, b) => format!("flip:{i}:{b}"),
            Mu::Set(b) => format!("set:{}", hex(b)),
        }
    }
    fn apply(&self, c: &[u8]) -> Vec<u8> {
        match self {
            Mu::None => c.to_vec(),
            Mu::Trunc(o) => c[..(*o).min(c.len())].to_vec(),
            Mu::Flip(i, b) => {
                let mut v = c.to_vec();
                if *i < v.len() {
                    v[*i] ^= 1 << b;
                }
                v
            }
            Mu::Set(b) => b.clone(),
        }
    }
}

/// content of a pre-placed own-named file
#[derive(Clone, Debug)]
enum Content {
    /// a genuine record of this pipeline id with this stamp (written by the real `save_checkpoint`; the checksum is
    /// the right one for the protected fields), then damaged
    Valid { idx: usize, total: usize, rest: Rest, mu: Mu },
    Raw(Vec<u8>),
    /// `n` times one byte (request token `REP<hh>x<n>`)
    Rep(u8, usize),
    /// a sparse file of `BIG_FILE_LEN` bytes (request token `BIG`): cannot be read into the child's address space
    Big,
}
/// the fields of a planted record the earlier generators kept constant
#[derive(Clone, Debug, PartialEq)]
struct Rest {
    pc: usize,
    em: String,
    lnt: String,
    pp: u8,
}
impl Rest {
    fn plain() -> Rest {
        Rest { pc: 1, em: "sequential".into(), lnt: "Stateless".into(), pp: 50 }
    }
}
#[derive(Clone, Debug)]
enum PreFile {
    Own(u64, Content),
    /// `{}` in the template is replaced by the pipeline id
    Named(String, Vec<u8>),
    /// a SUB-DIRECTORY `checkpoint_<pid>_<stamp>.bin/` (holding one file)
    OwnDir(u64),
    /// a sub-directory under a look-alike / foreign name
    NamedDir(String),
}

#[derive(Clone, Debug)]
struct Job {
    prog: Prog,
    mode: Mode,
    pol: Pol,
    en: En,
    max: Option<usize>,
    rec: bool,
    first: First,
    mu: Mu,
    add: Vec<String>,
    pre: Vec<PreFile>,
    dirkind: DirKind,
    tag: &'static str,
    /// `ExecMode::Parallel { partitions: None }`: the count comes from the planner's suggestion, else DEFAULT_PARTS
    /// (`mode` must be `Par(_)`; its number is ignored)
    parts_none: bool,
    /// `ExecMode::Parallel { threads }`
    threads: Option<usize>,
    /// `run_collect::<T>` with a `T` the terminal collection does not have
    wrong_t: bool,
    /// step index of an identity marker whose closure renames the checkpoint directory away during the run proper
    sab: Option<usize>,
    /// run every real run of this job in the watchdog child even if the directory content is benign
    force_child: bool,
}
impl Job {
    /// anything in the directory that an undamaged run of the current code did not write itself (or a run that needs
    /// its own current directory / was asked to run in the child)?
    fn needs_child(&self) -> bool {
        !self.pre.is_empty() || self.mu != Mu::None || self.dirkind.needs_cwd() || self.force_child
    }
    /// does the EARLIER run already face such content?
    fn first_in_child(&self) -> bool {
        self.first != First::None && (!self.pre.is_empty() || self.dirkind.needs_cwd() || self.force_child)
    }
    fn has_big(&self) -> bool {
        self.pre.iter().any(|f| matches!(f, PreFile::Own(_, Content::Big)))
    }
    fn has_planted_stamp(&self) -> bool {
        self.pre.iter().any(|f| matches!(f, PreFile::Own(..) | PreFile::OwnDir(_)))
    }
    /// the identity step carrying the special closure, if any
    fn marker(&self) -> Option<usize> {
        match self.first {
            First::Crash(m) => Some(m),
            _ => self.sab,
        }
    }
    /// a slice-dependent chunk function anywhere — in the main chain or inside a join's right side (its own chain,
    /// partitioned like the main one in parallel mode)
    fn has_nonlocal(&self) -> bool {
        fn any(steps: &[Step]) -> bool {
            steps.iter().any(|s| match s {
                Step::MapBatches(_, f) | Step::MapValuesBatches(_, f) => !f.elementwise(),
                Step::Join(_, r) => any(&r.steps),
                _ => false,
            })
        }
        any(&self.prog.steps)
    }
}

// ───────────────────────────── real pipeline with the crash marker ─────────────────────────────

fn row_kv(r: &(V, V)) -> V {
    V::pair(r.0.clone(), r.1.clone())
}
fn row_kg(r: &(V, Vec<V>)) -> V {
    V::pair(r.0.clone(), V::L(r.1.clone()))
}
fn trip() {
    if ARMED.load(Ordering::SeqCst) {
        panic!("injected crash");
    }
    // `sab:j`: take the checkpoint directory away (once), keeping its content under another name
    if let Ok(mut g) = SABOTAGE.try_lock() {
        if let Some(d) = g.take() {
            let _ = std::fs::rename(&d, moved_path(&d));
        }
    }
}
/// where a sabotaged checkpoint directory is renamed to
fn moved_path(dir: &Path) -> PathBuf {
    let mut n = dir.file_name().map(|x| x.to_os_string()).unwrap_or_default();
    n.push(".moved");
    dir.with_file_name(n)
}
/// the directory holding what the checkpoint directory held (itself, or where the sabotage moved it)
fn effective_dir(dir: &Path) -> PathBuf {
    let m = moved_path(dir);
    if !dir.exists() && m.is_dir() { m } else { dir.to_path_buf() }
}
/// the identity step `s` (`map ident` / `filter tt`) with a closure that panics while `ARMED`
fn apply_marker(c: Coll, s: &Step) -> Coll {
    match s {
        Step::Map(Fn_::Ident) => Coll::T(match c {
            Coll::T(x) => x.map(|v: &V| {
                trip();
                v.clone()
            }),
            Coll::KV(x) => x.map(|r: &(V, V)| {
                trip();
                row_kv(r)
            }),
            Coll::KG(x) => x.map(|r: &(V, Vec<V>)| {
                trip();
                row_kg(r)
            }),
            Coll::R(x) => x.map(|r: &Result<V, String>| {
                trip();
                pipe::result_v(r)
            }),
        }),
        Step::Filter(Pred::Tt) => match c {
            Coll::T(x) => Coll::T(x.filter(|_v: &V| {
                trip();
                true
            })),
            Coll::KV(x) => Coll::KV(x.filter(|_r: &(V, V)| {
                trip();
                true
            })),
            Coll::KG(x) => Coll::KG(x.filter(|_r: &(V, Vec<V>)| {
                trip();
                true
            })),
            Coll::R(_) => panic!("harness: marker on R"),
        },
        other => panic!("harness: step {} is not a crash marker", other.enc()),
    }
}

/// `pipe::MaxT` (total max, a USER combiner) whose `add_input` panics while `ARMED`: the panic unwinds out of the
/// barrier node's own closure (`local` of CombineValues / CombineGlobal)
#[derive(Clone)]
struct TripMaxT;
impl ironbeam::CombineFn<V, Option<V>, V> for TripMaxT {
    fn create(&self) -> Option<V> {
        MaxT.create()
    }
    fn add_input(&self, acc: &mut Option<V>, v: V) {
        trip();
        MaxT.add_input(acc, v);
    }
    fn merge(&self, acc: &mut Option<V>, other: Option<V>) {
        MaxT.merge(acc, other);
    }
    fn finish(&self, acc: Option<V>) -> V {
        MaxT.finish(acc)
    }
}
impl ironbeam::collection::LiftableCombiner<V, Option<V>, V> for TripMaxT {}

/// the barrier step `s` (a `maxt` combine) built with `TripMaxT`
fn apply_trip_barrier(c: Coll, s: &Step) -> Coll {
    match (s, c) {
        (Step::CombineValues(Comb::MaxT), Coll::KV(x)) => Coll::KV(x.combine_values(TripMaxT)),
        (Step::CombineValuesLifted(Comb::MaxT), Coll::KG(x)) => Coll::KV(x.combine_values_lifted(TripMaxT)),
        (Step::CombineGlobally(Comb::MaxT, fo), Coll::T(x)) => Coll::T(x.combine_globally(TripMaxT, *fo)),
        (other, _) => panic!("harness: step {} cannot carry the barrier crash", other.enc()),
    }
}

fn build_marked(p: &Pipeline, job: &Job) -> Coll {
    let prog = &job.prog;
    // `pipe::build` on the step-less program sets the harness' current-pipeline slot and yields the source
    let mut c = pipe::build(p, &Prog { shape: prog.shape, src: prog.src.clone(), steps: vec![] });
    let marker = job.marker();
    for (j, s) in prog.steps.iter().enumerate() {
        c = match &job.first {
            _ if marker == Some(j) => apply_marker(c, s),
            First::CrashBarrier { barrier, .. } if *barrier == j => apply_trip_barrier(c, s),
            _ => pipe::apply_step(c, s),
        };
    }
    c
}

fn terminal_id(c: &Coll) -> ironbeam::NodeId {
    match c {
        Coll::T(x) => x.node_id(),
        Coll::KV(x) => x.node_id(),
        Coll::KG(x) => x.node_id(),
        Coll::R(x) => x.node_id(),
    }
}

fn collect_with(runner: &Runner, p: &Pipeline, c: Coll, wrong_t: bool) -> anyhow::Result<Vec<V>> {
    if wrong_t {
        // ask for an element type the terminal collection does not have
        return Ok(match c {
            Coll::T(x) => runner.run_collect::<(V, V)>(p, x.node_id())?.iter().map(row_kv).collect(),
            Coll::KV(x) => runner.run_collect::<V>(p, x.node_id())?,
            Coll::KG(x) => runner.run_collect::<(V, V)>(p, x.node_id())?.iter().map(row_kv).collect(),
            Coll::R(x) => runner.run_collect::<V>(p, x.node_id())?,
        });
    }
    Ok(match c {
        Coll::T(x) => runner.run_collect::<V>(p, x.node_id())?,
        Coll::KV(x) => runner.run_collect::<(V, V)>(p, x.node_id())?.iter().map(row_kv).collect(),
        Coll::KG(x) => runner.run_collect::<(V, Vec<V>)>(p, x.node_id())?.iter().map(row_kg).collect(),
        Coll::R(x) => runner.run_collect::<Result<V, String>>(p, x.node_id())?.iter().map(pipe::result_v).collect(),
    })
}

fn exec_mode(job: &Job) -> ExecMode {
    match job.mode {
        Mode::Seq => ExecMode::Sequential,
        Mode::Par(n) => ExecMode::Parallel { threads: job.threads, partitions: if job.parts_none { None } else { Some(n) } },
    }
}

/// the path to put into `CheckpointConfig::directory` for the scratch directory `dir`; `dir=empty` / `dir=rel` jobs
/// switch the current directory of the (child) process
fn config_dir(job: &Job, dir: &Path) -> PathBuf {
    match job.dirkind {
        DirKind::Ok | DirKind::File => dir.to_path_buf(),
        DirKind::Empty => {
            let _ = std::env::set_current_dir(dir);
            PathBuf::new()
        }
        DirKind::Rel => {
            if let Some(parent) = dir.parent() {
                let _ = std::env::set_current_dir(parent);
            }
            PathBuf::from(dir.file_name().unwrap_or_default())
        }
    }
}

fn ckpt_config(job: &Job, dir: &Path) -> CheckpointConfig {
    CheckpointConfig {
        enabled: job.en == En::On,
        directory: config_dir(job, dir),
        policy: job.pol.real(),
        auto_recover: job.rec,
        max_checkpoints: job.max,
    }
}

#[derive(Clone, Copy, PartialEq)]
enum Arm {
    No,
    /// the marker / barrier closure panics
    Crash,
    /// the marker closure renames the checkpoint directory away
    Sabotage,
}

fn run_once_raw(job: &Job, dir: Option<&Path>, arm: Arm, secs: u64) -> Outcome {
    let job2 = job.clone();
    let dir2 = dir.map(Path::to_path_buf);
    ARMED.store(arm == Arm::Crash, Ordering::SeqCst);
    *SABOTAGE.lock().unwrap_or_else(|e| e.into_inner()) = if arm == Arm::Sabotage { dir2.clone() } else { None };
    let (w0, m0) = (SystemTime::now(), Instant::now());
    let r = pipe::with_watchdog(secs, move || {
        let p = Pipeline::default();
        let c = build_marked(&p, &job2);
        let runner = Runner {
            mode: exec_mode(&job2),
            default_partitions: DEFAULT_PARTS,
            checkpoint_config: if job2.en == En::NoCfg { None } else { dir2.as_ref().map(|d| ckpt_config(&job2, d)) },
        };
        collect_with(&runner, &p, c, job2.wrong_t)
    });
    let (w1, m1) = (SystemTime::now(), Instant::now());
    ARMED.store(false, Ordering::SeqCst);
    *SABOTAGE.lock().unwrap_or_else(|e| e.into_inner()) = None;
    // a wall-clock step during the run (the two clocks disagree about its duration by more than 100 ms)
    let mono = m1.duration_since(m0).as_secs_f64();
    let wall = match w1.duration_since(w0) {
        Ok(d) => d.as_secs_f64(),
        Err(e) => -e.duration().as_secs_f64(),
    };
    if (wall - mono).abs() > 0.1 {
        CLOCK_ANOMALY.store(true, Ordering::SeqCst);
    }
    match r {
        None => Outcome::Hang,
        Some(Err(msg)) => Outcome::Panic(msg),
        Some(Ok(Err(e))) => Outcome::Err(format!("{e:#}")),
        Some(Ok(Ok(rows))) => Outcome::Rows(rows),
    }
}

/// one REAL run; `dir = None`: without checkpointing. The in-process watchdog (10 s + 60 s grace) only says that the
/// run did not come back in time; runs WITHOUT a directory are simply re-executed (twice, with 20 s + 120 s) before
/// HANG is believed. Runs WITH a directory cannot be repeated in place (the first attempt may have written files):
/// their HANG is passed on and the whole job is redone in a fresh directory by `run` (`execute` / retry pass).
fn run_once(job: &Job, dir: Option<&Path>, arm: Arm) -> Outcome {
    // after three expiries in this process the runs that follow get 3 s + 18 s: a real non-terminating engine is
    // established by then, and every further expiry would cost 70 s (verdicts are still confirmed by re-execution)
    let secs = if HANGS_SEEN.load(Ordering::SeqCst) >= 3 { 3 } else { 10 };
    let mut out = run_once_raw(job, dir, arm, secs);
    if out == Outcome::Hang {
        HANGS_SEEN.fetch_add(1, Ordering::SeqCst);
    }
    if dir.is_none() {
        let mut tries = 0;
        while out == Outcome::Hang && tries < 2 && HANGS_CONFIRMED.load(Ordering::SeqCst) < 3 {
            tries += 1;
            HANG_RETRIES.fetch_add(1, Ordering::SeqCst);
            out = run_once_raw(job, None, arm, 20);
        }
        if out == Outcome::Hang {
            HANGS_CONFIRMED.fetch_add(1, Ordering::SeqCst);
        }
    }
    out
}

/// canonical answer of a run; the two set-up errors of the checkpointing engines get their own classes
fn answer(o: &Outcome, canon: &str) -> String {
    match o {
        Outcome::Err(e) if e.contains("Failed to create checkpoint directory") => "ERR ckpt-create-dir".into(),
        Outcome::Err(e) if e.contains("Failed to read checkpoint directory") => "ERR ckpt-read-dir".into(),
        _ => pipe::outcome_answer(o, canon),
    }
}

/// what the harness needs to know about the planned job
#[derive(Clone, Debug)]
struct PlanInfo {
    /// chain length after planning (the real planner)
    len: usize,
    /// this run's pipeline id as the code derives it — from the chain length and, in parallel mode, the partition
    /// count the SPECIFICATION of `run_collect` resolves (`partitions.or(suggested).unwrap_or(default)`)
    pid: String,
    /// the `mode=` token of the request
    mode_tok: String,
}

fn plan_info(job: &Job) -> Option<PlanInfo> {
    let job2 = job.clone();
    let (len, sugg) = guarded(move || {
        let p = Pipeline::default();
        let c = build_marked(&p, &job2);
        ironbeam::planner::build_plan(&p, terminal_id(&c)).map(|pl| (pl.chain.len(), pl.suggested_partitions))
    })
    .ok()?
    .ok()?;
    let (key, mode_tok) = match job.mode {
        Mode::Seq => (format!("{len}"), "seq".to_string()),
        Mode::Par(n) if !job.parts_none => (format!("{len}:{n}"), format!("par:{n}")),
        Mode::Par(_) => {
            let n = sugg.unwrap_or(DEFAULT_PARTS);
            (format!("{len}:{n}"), format!("par:none:{}:{DEFAULT_PARTS}", sugg.map_or("none".to_string(), |s| s.to_string())))
        }
    };
    Some(PlanInfo { len, pid: compute_checksum(key.as_bytes())[..16].to_string(), mode_tok })
}

// ───────────────────────────── directory helpers ─────────────────────────────

/// scratch root: `/dev/shm` when a probe write of 64 MiB succeeds there (it may be full: other checks run on this
/// machine), else the system temp directory
fn tmproot() -> tempfile::TempDir {
    let shm = Path::new("/dev/shm");
    if shm.is_dir() {
        if let Ok(t) = tempfile::tempdir_in(shm) {
            let probe = t.path().join("probe");
            let ok = std::fs::write(&probe, vec![1u8; 64 << 20]).is_ok();
            let _ = std::fs::remove_file(&probe);
            if ok {
                return t;
            }
        }
    }
    tempfile::tempdir().expect("tempdir")
}

/// an entry of the checkpoint directory
#[derive(Clone, Debug, PartialEq)]
enum Ent {
    File(Vec<u8>),
    /// a regular file larger than `BIG_LISTING`: its length only
    BigFile(u64),
    /// a sub-directory, with the sorted names inside it
    Dir(Vec<String>),
}
impl Ent {
    fn is_file(&self) -> bool {
        matches!(self, Ent::File(_) | Ent::BigFile(_))
    }
}

fn listing(dir: &Path) -> BTreeMap<String, Ent> {
    let mut m = BTreeMap::new();
    if let Ok(rd) = std::fs::read_dir(dir) {
        for e in rd.flatten() {
            if let Some(n) = e.file_name().to_str() {
                let ent = if e.path().is_dir() {
                    let mut inner: Vec<String> = std::fs::read_dir(e.path())
                        .map(|r| r.flatten().filter_map(|x| x.file_name().to_str().map(str::to_string)).collect())
                        .unwrap_or_default();
                    inner.sort();
                    Ent::Dir(inner)
                } else {
                    match e.metadata().map(|m| m.len()) {
                        Ok(l) if l > BIG_LISTING => Ent::BigFile(l),
                        _ => Ent::File(std::fs::read(e.path()).unwrap_or_default()),
                    }
                };
                m.insert(n.to_string(), ent);
            }
        }
    }
    m
}

/// harness-side definition of "well-formed checkpoint file of pid": `checkpoint_<pid>_<digits>.bin`, digits a u64
fn own_stamp(pid: &str, name: &str) -> Option<u64> {
    let s = name.strip_prefix(&format!("checkpoint_{pid}_"))?.strip_suffix(".bin")?;
    if s.is_empty() || !s.bytes().all(|b| b.is_ascii_digit()) {
        return None;
    }
    s.parse().ok()
}

fn newest_own(pid: &str, names: impl Iterator<Item = String>) -> Option<String> {
    names.filter_map(|n| own_stamp(pid, &n).map(|t| (t, n))).max().map(|x| x.1)
}

/// canonical class of a `load_checkpoint` error (same classes as the C12 harness)
fn load_err_class(e: &anyhow::Error) -> &'static str {
    if e.to_string().contains("checksum mismatch") {
        return "checksum";
    }
    for cause in e.chain() {
        let c = cause.to_string();
        if c.starts_with("UnexpectedEnd") {
            return "eof";
        } else if c.starts_with("LimitExceeded") {
            return "limit";
        } else if c.starts_with("InvalidIntegerType") {
            return "int-type";
        } else if c.starts_with("Utf8") {
            return "utf8";
        }
    }
    if e.to_string().contains("Failed to open") || e.to_string().contains("Failed to read") {
        return "io";
    }
    "other"
}

fn probe_manager(dir: &Path) -> Option<CheckpointManager> {
    CheckpointManager::new(CheckpointConfig {
        enabled: true,
        directory: dir.to_path_buf(),
        policy: CheckpointPolicy::AfterEveryBarrier,
        auto_recover: true,
        max_checkpoints: None,
    })
    .ok()
}

fn last_fields(s: &CheckpointState) -> String {
    format!(
        "idx:{},pc:{},em:{},tn:{},lnt:{},pp:{},pid:{}",
        s.completed_node_index,
        s.partition_count,
        hex(s.exec_mode.as_bytes()),
        s.metadata.total_nodes,
        hex(s.metadata.last_node_type.as_bytes()),
        s.metadata.progress_percent,
        hex(s.pipeline_id.as_bytes())
    )
}

/// `own=<0|+> last=<…>` of a real directory (loads the newest own file with the REAL `load_checkpoint`)
fn own_str(pid: &str, dir: &Path) -> String {
    let names = listing(dir);
    match newest_own(pid, names.keys().cloned()) {
        None => "own=0 last=-".into(),
        Some(n) => {
            let path = dir.join(&n);
            let r = guarded(|| probe_manager(dir).map(|m| m.load_checkpoint(&path)));
            match r {
                Err(_) => "own=+ last=bad:PANIC".into(),
                Ok(None) => "own=+ last=bad:io".into(),
                Ok(Some(Ok(s))) => format!("own=+ last={}", last_fields(&s)),
                Ok(Some(Err(e))) => format!("own=+ last=bad:{}", load_err_class(&e)),
            }
        }
    }
}

fn other_str(pid: &str, dir: &Path) -> String {
    let mut v: Vec<Vec<u8>> =
        listing(dir).keys().filter(|n| own_stamp(pid, n).is_none()).map(|n| n.as_bytes().to_vec()).collect();
    v.sort();
    if v.is_empty() { "-".into() } else { v.iter().map(|b| hex(b)).collect::<Vec<_>>().join(",") }
}

/// what the recovery block of the run is about to see, obtained with the REAL store functions
fn rec_probe(job: &Job, pid: &str, dir: &Path) -> String {
    if !job.rec || job.en != En::On {
        return "off".into();
    }
    if job.dirkind == DirKind::File {
        return "-".into();
    }
    if job.has_big() {
        // the class of the error on a file that cannot be read into memory is not part of the answer (it depends on
        // how `load_checkpoint` bounds its read); the probe is still executed: it must not kill the process
        let _ = guarded(|| {
            let m = probe_manager(dir)?;
            let latest = m.find_latest_checkpoint(pid).ok()?;
            Some(latest.map(|p| m.load_checkpoint(&p).is_ok()))
        });
        return "*".into();
    }
    let r = guarded(|| {
        let m = probe_manager(dir)?;
        let latest = m.find_latest_checkpoint(pid).ok()?;
        Some(latest.map(|p| m.load_checkpoint(&p)))
    });
    match r {
        Err(_) => "died".into(),
        Ok(None) => "err:io".into(),
        Ok(Some(None)) => "none".into(),
        Ok(Some(Some(Ok(s)))) => {
            format!("ok:{}:{}:{}", s.completed_node_index, s.metadata.total_nodes, s.metadata.progress_percent)
        }
        Ok(Some(Some(Err(e)))) => format!("err:{}", load_err_class(&e)),
    }
}

// ───────────────────────────── the run proper (in-process or in the child) ─────────────────────────────

/// `<outcome> rec=<log> own=.. last=.. other=..` of the final run of `job` in `dir`
fn run_final(job: &Job, pid: &str, dir: &Path) -> String {
    let rec = match job.mu {
        Mu::Flip(..) => {
            let _ = rec_probe(job, pid, dir); // still executed: it must not kill the process
            "*".to_string()
        }
        _ => rec_probe(job, pid, dir),
    };
    let out = run_once(job, Some(dir), if job.sab.is_some() { Arm::Sabotage } else { Arm::No });
    let ans = answer(&out, job.prog.canon());
    let rec = if ans.starts_with("ERR ckpt-") { "-".to_string() } else { rec };
    let eff = effective_dir(dir);
    format!("{ans} rec={rec} {} other={}", own_str(pid, &eff), other_str(pid, &eff))
}

/// `<outcome> own=.. last=..` of the EARLIER run of `job` in `dir`. A panic of an armed run that is not the injected
/// one is reported as `PANIC-NOT-INJECTED`.
fn run_first(job: &Job, pid: &str, dir: &Path) -> String {
    let armed = matches!(job.first, First::Crash(_) | First::CrashBarrier { .. });
    let out = run_once(job, Some(dir), if armed { Arm::Crash } else { Arm::No });
    let a = match &out {
        Outcome::Panic(msg) if armed && !msg.contains("injected crash") => "PANIC-NOT-INJECTED".to_string(),
        _ => answer(&out, job.prog.canon()),
    };
    format!("{a} {}", own_str(pid, dir))
}

// ───────────────────────────── generators (pure: depend on the PRNG only) ─────────────────────────────

fn gen_varint(out: &mut Vec<u8>, v: u64) {
    if v <= 250 {
        out.push(v as u8);
    } else if v <= 0xffff {
        out.push(251);
        out.extend_from_slice(&(v as u16).to_le_bytes());
    } else if v <= 0xffff_ffff {
        out.push(252);
        out.extend_from_slice(&(v as u32).to_le_bytes());
    } else {
        out.push(253);
        out.extend_from_slice(&v.to_le_bytes());
    }
}

/// hostile / garbage file contents (generator-side only)
fn gen_garbage(rng: &mut Rng) -> Vec<u8> {
    let mut out = vec![];
    match rng.below(10) {
        0 => {}
        1 => {
            // string length prefix 2^63: "capacity overflow" in an unbounded decoder
            gen_varint(&mut out, 1 << 63);
        }
        2 => {
            gen_varint(&mut out, *rng.pick(&[1u64 << 31, 1 << 33, 1 << 40, 1 << 62, u64::MAX]));
            out.extend_from_slice(b"abc");
        }
        3 => out.push(*rng.pick(&[254u8, 255])),
        4 => {
            // a plausible pipeline id, then a hostile checksum length
            gen_varint(&mut out, 16);
            out.extend_from_slice(b"0123456789abcdef");
            out.extend_from_slice(&[3, 7, 1]);
            gen_varint(&mut out, *rng.pick(&[1u64 << 32, 1 << 63]));
        }
        5 => {
            // just above the running code's decode limit
            gen_varint(&mut out, (ironbeam::checkpoint::MAX_CHECKPOINT_DECODE_BYTES as u64) + rng.below(3) as u64);
            out.extend_from_slice(&[b'x'; 8]);
        }
        6 => out.extend_from_slice(&[2, 0xff, 0xfe, 0, 0, 0]), // invalid UTF-8 in the id
        _ => {
            let n = rng.below(40);
            for _ in 0..n {
                out.push(rng.below(256) as u8);
            }
        }
    }
    out
}

fn gen_mu(rng: &mut Rng) -> Mu {
    match rng.below(8) {
        0 => Mu::None,
        1 | 2 => Mu::Trunc(rng.below(65)),
        3 => Mu::Trunc(65 + rng.below(70)),
        4 | 5 => Mu::Flip(rng.below(125), rng.below(8) as u8),
        _ => Mu::Set(gen_garbage(rng)),
    }
}

/// stamps far away from both the wall clock and the model's scripted clock (≈ 1.7e12 .. 1.9e12 ms)
const STAMPS: &[u64] = &[0, 5, 1000, 999_999_999_999, 3_000_000_000_000, 1 << 63, u64::MAX];

const LOOKALIKES: &[&str] = &[
    "checkpoint_{}_.bin",
    "checkpoint_{}_12x.bin",
    "checkpoint_{}_5.bin.tmp",
    "checkpoint_{}x_5.bin",
    "checkpoint_{}_+5.bin",
    "CHECKPOINT_{}_5.bin",
    "checkpoint_{}_18446744073709551616.bin",
    "checkpoint_{}_5.BIN",
    "checkpoint_{}_7",
    "checkpoint_0000000000000000_5.bin",
    "notes.txt",
    ".hidden",
    "checkpoint_",
];

fn gen_pre(rng: &mut Rng) -> Vec<PreFile> {
    let mut pre = vec![];
    let n_own = match rng.below(4) {
        0 => 0,
        1 | 2 => 1,
        _ => 2 + rng.below(2),
    };
    let mut stamps: Vec<u64> = vec![];
    for _ in 0..n_own {
        let st = *rng.pick(STAMPS);
        if stamps.contains(&st) {
            continue;
        }
        stamps.push(st);
        let content = match rng.below(4) {
            0 => Content::Valid { idx: rng.below(6), total: rng.below(9), rest: Rest::plain(), mu: Mu::None },
            1 => Content::Valid { idx: rng.below(6), total: 1 + rng.below(8), rest: Rest::plain(), mu: gen_mu(rng) },
            2 => Content::Valid { idx: gen_usize_edge(rng), total: gen_usize_edge(rng), rest: gen_rest(rng), mu: Mu::None },
            _ => Content::Raw(gen_garbage(rng)),
        };
        pre.push(PreFile::Own(st, content));
    }
    let n_other = rng.below(3);
    let mut used: Vec<&str> = vec![];
    for _ in 0..n_other {
        let t = *rng.pick(LOOKALIKES);
        if used.contains(&t) {
            continue;
        }
        used.push(t);
        let body = if rng.chance(1, 2) { vec![] } else { gen_garbage(rng) };
        pre.push(PreFile::Named(t.to_string(), body));
    }
    // sub-directories: own-named (a stamp not used by a file above), look-alike, foreign
    if rng.chance(1, 5) {
        let st = *rng.pick(STAMPS);
        if !stamps.contains(&st) {
            pre.push(PreFile::OwnDir(st));
        }
    }
    if rng.chance(1, 8) {
        let t = *rng.pick(&["checkpoint_{}_9x.bin", "subdir", "checkpoint_{}_77.bin.d", "checkpoint_{}x_77.bin"]);
        if !used.contains(&t) {
            pre.push(PreFile::NamedDir(t.to_string()));
        }
    }
    pre
}

/// a `usize` field of a VALID record: small, or at an edge of the range
fn gen_usize_edge(rng: &mut Rng) -> usize {
    match rng.below(8) {
        0 | 1 | 2 => rng.below(9),
        3 => 100,
        4 => 251,
        5 => u32::MAX as usize,
        6 => usize::MAX - 1,
        _ => usize::MAX,
    }
}

/// the fields of a valid record that no checksum protects (`exec_mode`, `last_node_type`, `progress_percent`) and
/// the partition count: anything a record can legally hold
fn gen_rest(rng: &mut Rng) -> Rest {
    let em = match rng.below(6) {
        0 => "sequential".to_string(),
        1 => format!("parallel:{}", gen_usize_edge(rng)),
        2 => String::new(),
        3 => "junk \u{e9}\u{4e16}".to_string(),
        4 => "x".repeat(300),
        _ => "parallel:".to_string(),
    };
    let lnt = match rng.below(6) {
        0 => "Stateless".to_string(),
        1 => "Failed".to_string(),
        2 => String::new(),
        3 => "CoGroup".to_string(),
        4 => "\u{1f600}".repeat(70),
        _ => "no such node".to_string(),
    };
    let pp = *rng.pick(&[0u8, 1, 50, 99, 100, 101, 127, 128, 200, 254, 255]);
    Rest { pc: gen_usize_edge(rng), em, lnt, pp }
}

fn gen_add(rng: &mut Rng) -> Vec<String> {
    let mut v: Vec<String> = vec![];
    for _ in 0..rng.below(3) {
        let t = rng.pick(&["zz_foreign.dat", "checkpoint_other.bin", "checkpoint_ffffffffffffffff_9.bin", "a.bin"]).to_string();
        if !v.contains(&t) {
            v.push(t);
        }
    }
    v
}

fn gen_mode(rng: &mut Rng, len: usize) -> Mode {
    match rng.below(5) {
        0 | 1 => Mode::Seq,
        _ => Mode::Par(*rng.pick(&pipe::partition_choices(len))),
    }
}

fn shapes_along(prog: &Prog) -> Vec<Shape> {
    // shape BEFORE each step, plus the final shape
    let mut v = vec![prog.shape];
    let mut sh = prog.shape;
    for s in &prog.steps {
        sh = pipe::shape_after(sh, s).expect("legal program");
        v.push(sh);
    }
    v
}

/// insert the crash marker before step `pos`: `map ident` (followed by `topair` when the rows are key-value pairs),
/// or `filter tt` when the rows are grouped (e.g. directly after a group_by_key); returns the program and the
/// marker's step index. `None` for `Result` rows.
fn insert_marker(prog: &Prog, pos: usize) -> Option<(Prog, usize)> {
    let shapes = shapes_along(prog);
    let mut steps = prog.steps.clone();
    match shapes[pos] {
        Shape::T => steps.insert(pos, Step::Map(Fn_::Ident)),
        Shape::KV => {
            steps.insert(pos, Step::Topair);
            steps.insert(pos, Step::Map(Fn_::Ident));
        }
        Shape::KG => steps.insert(pos, Step::Filter(Pred::Tt)),
        Shape::R => return None,
    }
    Some((Prog { shape: prog.shape, src: prog.src.clone(), steps }, pos))
}

/// insert, before step `pos`, an identity marker FOLLOWED BY A BARRIER whose user combiner can be armed:
/// T: `map ident ; combine_globally maxt <fo>`, KV: `map ident ; topair ; combine_values maxt`. Returns the program,
/// the marker's and the barrier's step index. (Grouped rows: only where the program already continues with a lifted
/// `maxt` combine — see `fixed_barrier_crash_progs`.)
fn insert_barrier_crash(prog: &Prog, pos: usize, fo: Option<usize>) -> Option<(Prog, usize, usize)> {
    let shapes = shapes_along(prog);
    let mut steps = prog.steps.clone();
    let barrier = match shapes[pos] {
        Shape::T => {
            steps.insert(pos, Step::CombineGlobally(Comb::MaxT, fo));
            steps.insert(pos, Step::Map(Fn_::Ident));
            pos + 1
        }
        Shape::KV => {
            steps.insert(pos, Step::CombineValues(Comb::MaxT));
            steps.insert(pos, Step::Topair);
            steps.insert(pos, Step::Map(Fn_::Ident));
            pos + 2
        }
        Shape::KG | Shape::R => return None,
    };
    Some((Prog { shape: prog.shape, src: prog.src.clone(), steps }, pos, barrier))
}

/// rows that reach step `j` (plain-vector reference)
fn rows_at(prog: &Prog, j: usize) -> Option<usize> {
    match pipe::reference(&Prog { shape: prog.shape, src: prog.src.clone(), steps: prog.steps[..j].to_vec() }) {
        RefOut::Rows(r) => Some(r.len()),
        _ => None,
    }
}

/// slice-dependent chunk functions (`rev`, `sumall`) only BEFORE the first barrier: behind a barrier the row order is
/// the hash map's, and a function that looks across its slice would make two correct runs differ. (The generator
/// observes this; inserting a barrier in front of such a step — the barrier-crash jobs — would break it.)
fn nonlocal_before_barriers_only(prog: &Prog) -> bool {
    let mut after_barrier = false;
    for s in &prog.steps {
        if after_barrier && matches!(s, Step::MapBatches(_, f) | Step::MapValuesBatches(_, f) if !f.elementwise()) {
            return false;
        }
        if let Step::Join(_, r) = s {
            if !nonlocal_before_barriers_only(r) {
                return false;
            }
        }
        after_barrier |= s.is_barrier();
    }
    true
}

fn usable(prog: &Prog) -> bool {
    pipe::reorder_inert(prog) && nonlocal_before_barriers_only(prog) && matches!(pipe::reference(prog), RefOut::Rows(_))
}

fn gen_usable_prog(rng: &mut Rng, o: &GenOpts) -> Prog {
    loop {
        let p = pipe::gen_prog(rng, o);
        if usable(&p) {
            return p;
        }
    }
}

/// a crash job from `prog`: choose a position where rows arrive (so that the armed closure is really called)
fn with_crash(rng: &mut Rng, prog: &Prog) -> Option<(Prog, usize)> {
    let mut cands: Vec<usize> = (0..=prog.steps.len()).collect();
    while !cands.is_empty() {
        let pos = cands.remove(rng.below(cands.len()));
        if let Some((p2, j)) = insert_marker(prog, pos) {
            if usable(&p2) && rows_at(&p2, j).is_some_and(|n| n > 0) {
                return Some((p2, j));
            }
        }
    }
    None
}

/// a barrier-crash job from `prog`
fn with_barrier_crash(rng: &mut Rng, prog: &Prog) -> Option<(Prog, usize, usize)> {
    let mut cands: Vec<usize> = (0..=prog.steps.len()).collect();
    while !cands.is_empty() {
        let pos = cands.remove(rng.below(cands.len()));
        let fo = *rng.pick(&[None, Some(2), Some(3)]);
        if let Some((p2, m, b)) = insert_barrier_crash(prog, pos, fo) {
            if usable(&p2) && rows_at(&p2, m).is_some_and(|n| n > 0) {
                return Some((p2, m, b));
            }
        }
    }
    None
}

/// fixed programs with a `maxt` barrier right after an identity marker: (program, marker index, barrier index)
fn fixed_barrier_crash_progs() -> Vec<(Prog, usize, usize)> {
    let right = Prog { shape: Shape::KV, src: kv_rows(&[(1, 100), (3, 300), (1, 101)]), steps: vec![Step::MapValues(Fn_::Add(1))] };
    vec![
        // per-key combine on pairs
        (Prog { shape: Shape::KV, src: kv_rows(&[(1, 10), (2, 20), (1, 30), (3, 5)]), steps: vec![Step::MapValues(Fn_::Add(1)), Step::Map(Fn_::Ident), Step::Topair, Step::CombineValues(Comb::MaxT), Step::MapValues(Fn_::Mul(2))] }, 1, 3),
        // global combine
        (Prog { shape: Shape::T, src: (1..=7).map(V::I).collect(), steps: vec![Step::Map(Fn_::Mul(2)), Step::Map(Fn_::Ident), Step::CombineGlobally(Comb::MaxT, Some(2)), Step::Map(Fn_::Add(5))] }, 1, 2),
        // group_by_key, marker on the grouped rows, lifted combine (a barrier directly after a barrier)
        (Prog { shape: Shape::KV, src: kv_rows(&[(1, 10), (2, 20), (1, 30), (2, 2), (1, 1)]), steps: vec![Step::Gbk, Step::Filter(Pred::Tt), Step::CombineValuesLifted(Comb::MaxT), Step::MapValues(Fn_::Add(1))] }, 1, 2),
        // the armed barrier ends up inside a join's left sub-plan (the CoGroup node is where the run dies)
        (Prog { shape: Shape::KV, src: kv_rows(&[(1, 10), (2, 20), (1, 30)]), steps: vec![Step::MapValues(Fn_::Add(2)), Step::Map(Fn_::Ident), Step::Topair, Step::CombineValues(Comb::MaxT), Step::Join(JoinKind::Left, Box::new(right)), Step::Unkey] }, 1, 3),
    ]
}

fn kv_rows(pairs: &[(i64, i64)]) -> Vec<V> {
    pairs.iter().map(|(k, v)| V::pair(V::I(*k), V::I(*v))).collect()
}

/// fixed programs: stateless only / barrier / global combine / join / join + barrier / nested join (an `Err`)
fn fixed_progs() -> Vec<Prog> {
    let right = Prog { shape: Shape::KV, src: kv_rows(&[(1, 100), (3, 300), (1, 101)]), steps: vec![Step::MapValues(Fn_::Add(1))] };
    let nested = Prog { shape: Shape::KV, src: kv_rows(&[(1, 7)]), steps: vec![Step::Join(JoinKind::Inner, Box::new(right.clone()))] };
    vec![
        Prog { shape: Shape::T, src: (1..=6).map(V::I).collect(), steps: vec![Step::Map(Fn_::Add(1)), Step::Filter(pipe::Pred::Even), Step::Map(Fn_::Mul(3))] },
        Prog { shape: Shape::KV, src: kv_rows(&[(1, 10), (2, 20), (1, 30), (3, 5)]), steps: vec![Step::MapValues(Fn_::Add(1)), Step::Gbk, Step::Gsum, Step::MapValues(Fn_::Mul(2))] },
        Prog { shape: Shape::T, src: (1..=7).map(V::I).collect(), steps: vec![Step::Map(Fn_::Mul(2)), Step::CombineGlobally(pipe::Comb::Sum, Some(2)), Step::Map(Fn_::Add(5))] },
        Prog { shape: Shape::KV, src: kv_rows(&[(1, 10), (2, 20), (1, 30)]), steps: vec![Step::Join(JoinKind::Left, Box::new(right.clone())), Step::Unkey] },
        Prog { shape: Shape::KV, src: kv_rows(&[(1, 10), (2, 20), (1, 30)]), steps: vec![Step::MapValues(Fn_::Add(2)), Step::Join(JoinKind::Full, Box::new(right.clone())), Step::CombineValues(pipe::Comb::Count), Step::MapValues(Fn_::Add(1))] },
        Prog { shape: Shape::KV, src: kv_rows(&[(1, 10), (2, 20)]), steps: vec![Step::MapValues(Fn_::Add(1)), Step::Gbk, Step::Gsum, Step::Join(JoinKind::Inner, Box::new(nested))] },
        // group_by_key immediately followed by a lifted combine: the planner fuses them (CombineValues with local_groups)
        Prog { shape: Shape::KV, src: kv_rows(&[(1, 10), (2, 20), (1, 30), (2, 2), (1, 1)]), steps: vec![Step::Gbk, Step::CombineValuesLifted(pipe::Comb::Sum), Step::MapValues(Fn_::Add(1))] },
        // grouped source fed straight into a lifted combine (no preceding group_by_key), then a second barrier
        Prog { shape: Shape::KG, src: vec![V::pair(V::I(1), V::L(vec![V::I(1), V::I(2)])), V::pair(V::I(2), V::L(vec![V::I(5)])), V::pair(V::I(1), V::L(vec![V::I(7)]))], steps: vec![Step::CombineValuesLifted(pipe::Comb::MaxT), Step::Swapkv, Step::Gbk, Step::Glen] },
    ]
}

/// programs whose chunk functions look across their slice BEFORE the first barrier: the result depends on how the
/// source was partitioned (by design), so the partition count handed to `exec_par` is observable
fn nonlocal_progs() -> Vec<Prog> {
    vec![
        Prog { shape: Shape::T, src: (1..=7).map(V::I).collect(), steps: vec![Step::MapBatches(3, pipe::BatchFn::Rev)] },
        Prog { shape: Shape::T, src: (1..=9).map(V::I).collect(), steps: vec![Step::MapBatches(2, pipe::BatchFn::Sumall), Step::Map(Fn_::Add(1))] },
        Prog { shape: Shape::KV, src: kv_rows(&[(1, 10), (2, 20), (1, 30), (3, 5), (2, 7), (1, 1), (3, 9)]), steps: vec![Step::MapValuesBatches(2, pipe::BatchFn::Rev)] },
        Prog { shape: Shape::T, src: (1..=8).map(V::I).collect(), steps: vec![Step::MapBatches(3, pipe::BatchFn::Sumall), Step::KeyBy(pipe::KeyFn::Kmod(2)), Step::Gbk, Step::Glen] },
    ]
}

/// programs that return `Err` at a node in the MIDDLE of the chain (a join whose right side contains a join), with
/// barriers before and after it
fn err_mid_progs() -> Vec<Prog> {
    let right = Prog { shape: Shape::KV, src: kv_rows(&[(1, 100), (3, 300), (1, 101)]), steps: vec![Step::MapValues(Fn_::Add(1))] };
    let nested = Prog { shape: Shape::KV, src: kv_rows(&[(1, 7)]), steps: vec![Step::Join(JoinKind::Inner, Box::new(right))] };
    vec![
        Prog { shape: Shape::KV, src: kv_rows(&[(1, 10), (2, 20), (1, 5)]), steps: vec![Step::MapValues(Fn_::Add(1)), Step::Gbk, Step::Gsum, Step::Join(JoinKind::Inner, Box::new(nested.clone())), Step::MapValues(Fn_::Len), Step::Gbk, Step::Glen] },
        Prog { shape: Shape::KV, src: kv_rows(&[(1, 10), (2, 20)]), steps: vec![Step::Join(JoinKind::Left, Box::new(nested.clone())), Step::MapValues(Fn_::Len), Step::CombineValues(Comb::Count)] },
    ]
}

/// `prog` with a join whose right side contains a join inserted at a random position where the rows are pairs
fn with_err_mid(rng: &mut Rng, prog: &Prog) -> Option<Prog> {
    let shapes = shapes_along(prog);
    let cands: Vec<usize> = (0..=prog.steps.len()).filter(|i| shapes[*i] == Shape::KV).collect();
    if cands.is_empty() {
        return None;
    }
    let pos = *rng.pick(&cands);
    let right = Prog { shape: Shape::KV, src: kv_rows(&[(1, 100), (0, 3)]), steps: vec![] };
    let nested = Prog { shape: Shape::KV, src: kv_rows(&[(1, 7), (0, 1)]), steps: vec![Step::Join(JoinKind::Inner, Box::new(right))] };
    let mut steps = prog.steps[..pos].to_vec();
    steps.push(Step::Join(*rng.pick(&[JoinKind::Inner, JoinKind::Left, JoinKind::Full]), Box::new(nested)));
    // what follows the failing node never runs; keep it legal
    let mut sh = pipe::shape_after(Shape::KV, steps.last().unwrap())?;
    for st in &prog.steps[pos..] {
        match pipe::shape_after(sh, st) {
            Some(n) => {
                sh = n;
                steps.push(st.clone());
            }
            None => break,
        }
    }
    let p2 = Prog { shape: prog.shape, src: prog.src.clone(), steps };
    (pipe::reorder_inert(&p2) && pipe::reference(&p2) == RefOut::NestedJoin).then_some(p2)
}

fn base_job(prog: Prog, mode: Mode, pol: Pol, max: Option<usize>, tag: &'static str) -> Job {
    Job {
        prog, mode, pol, en: En::On, max, rec: true, first: First::None, mu: Mu::None, add: vec![], pre: vec![], dirkind: DirKind::Ok, tag,
        parts_none: false, threads: None, wrong_t: false, sab: None, force_child: false,
    }
}

/// The whole job list of a run — a pure function of (seed, tier), so that the child process rebuilds it.
fn plan_jobs(rng: &mut Rng, tier: Tier, blocks: &mut Vec<String>) -> Vec<Job> {
    let budget = |q: usize, t: usize| match tier {
        Tier::Quick => q,
        Tier::Thorough => t,
        Tier::Search => (q * 10).max(t),
    };
    let mut jobs: Vec<Job> = vec![];
    let fixed = fixed_progs();

    // (1) corpus: design witnesses
    {
        // DESIGN §8 #7: join + sequential + checkpointing (pinned commit: Err "CoGroup requires subplan execution")
        for pol in [Pol::Barrier, Pol::Every(1), Pol::Time(0)] {
            jobs.push(base_job(fixed[3].clone(), Mode::Seq, pol, Some(3), "corpus:join-seq"));
        }
        // DESIGN §8 #8: a 2^63 length prefix in the newest own file, auto_recover on
        let mut hostile = vec![];
        gen_varint(&mut hostile, 1 << 63);
        for (prog, mode) in [(fixed[1].clone(), Mode::Seq), (fixed[1].clone(), Mode::Par(2)), (fixed[3].clone(), Mode::Seq)] {
            let mut j = base_job(prog, mode, Pol::Barrier, Some(3), "corpus:hostile-prefix");
            j.pre = vec![PreFile::Own(5, Content::Raw(hostile.clone()))];
            jobs.push(j);
        }
        // an `Err` run in parallel mode leaves a "Failed" marker; the next run finds it
        for first in [First::None, First::Full] {
            let mut j = base_job(fixed[5].clone(), Mode::Par(2), Pol::Barrier, None, "corpus:failed-marker");
            j.first = first;
            jobs.push(j);
        }
        // the same `Err` sequentially: the saves made before the failing node stay
        let mut j = base_job(fixed[5].clone(), Mode::Seq, Pol::Every(1), None, "corpus:err-seq-leaves-files");
        j.first = First::Full;
        jobs.push(j);
        // files of ANOTHER pipeline with the same chain length (same id): found, ignored for the result, cleared
        let mut j = base_job(fixed[0].clone(), Mode::Seq, Pol::Barrier, None, "corpus:equal-length-pipeline");
        j.pre = vec![PreFile::Own(1000, Content::Valid { idx: 1, total: 2, rest: Rest::plain(), mu: Mu::None })];
        jobs.push(j);
        // a leftover whose UN-checksummed metadata is degenerate (total_nodes = 0, index beyond the total): it
        // passes the integrity check and reaches the recovery log
        for (mode, idx, total) in [(Mode::Seq, 0usize, 0usize), (Mode::Par(2), 3, 0), (Mode::Seq, 9, 1)] {
            let mut j = base_job(fixed[1].clone(), mode, Pol::Barrier, Some(1), "corpus:degenerate-metadata");
            j.pre = vec![PreFile::Own(1000, Content::Valid { idx, total, rest: Rest::plain(), mu: Mu::None })];
            jobs.push(j);
        }
    }

    // (1c) an own-named SUB-DIRECTORY `checkpoint_<pid>_<stamp>.bin/`: skipped by the three scans (regular files only,
    //      since the C12 fix), so never "the latest" even with the largest stamp, not counted by retention, still
    //      there after a successful run
    for (prog, mode) in [(fixed[1].clone(), Mode::Seq), (fixed[1].clone(), Mode::Par(2)), (fixed[3].clone(), Mode::Seq)] {
        for stamp in [5u64, u64::MAX] {
            for (pol, max) in [(Pol::Barrier, None), (Pol::Every(1), Some(1)), (Pol::Time(0), Some(0))] {
                for with_file in [false, true] {
                    let mut j = base_job(prog.clone(), mode, pol, max, "corpus:own-named-subdirectory");
                    j.pre = vec![PreFile::OwnDir(stamp)];
                    if with_file {
                        j.pre.push(PreFile::Own(1000, Content::Valid { idx: 1, total: 4, rest: Rest::plain(), mu: Mu::None }));
                    }
                    jobs.push(j);
                }
            }
        }
    }
    {
        // … under an earlier full / crashed run (retention of the earlier run counts the directory as a checkpoint)
        let (p2, m) = insert_marker(&fixed[1], 3).expect("marker");
        for stamp in [5u64, u64::MAX] {
            for (first, prog) in [(First::Full, fixed[1].clone()), (First::Crash(m), p2.clone())] {
                for max in [None, Some(1)] {
                    let mut j = base_job(prog.clone(), Mode::Seq, Pol::Every(1), max, "corpus:own-named-subdirectory");
                    j.first = first.clone();
                    j.pre = vec![PreFile::OwnDir(stamp), PreFile::NamedDir("checkpoint_{}_9x.bin".into()), PreFile::NamedDir("subdir".into())];
                    jobs.push(j);
                }
            }
        }
    }
    // (1d) the configured directory path is a REGULAR FILE: `CheckpointManager::new(config)?` is an exit that exists
    //      only in the checkpointing engines — outside the property's precondition (usable directory); the run must
    //      fail with exactly that error before any node runs (or return the plain result), and leave the path alone
    for (prog, mode) in [(fixed[1].clone(), Mode::Seq), (fixed[1].clone(), Mode::Par(2)), (fixed[3].clone(), Mode::Seq), (fixed[5].clone(), Mode::Par(2))] {
        for rec in [true, false] {
            for en in [En::On, En::Off, En::NoCfg] {
                for first in [First::None, First::Full] {
                    let mut j = base_job(prog.clone(), mode, Pol::Every(1), Some(1), "corpus:directory-is-a-regular-file");
                    j.dirkind = DirKind::File;
                    j.rec = rec;
                    j.en = en;
                    j.first = first;
                    jobs.push(j);
                }
            }
        }
    }
    {
        let (p2, m) = insert_marker(&fixed[1], 1).expect("marker");
        let mut j = base_job(p2, Mode::Seq, Pol::Barrier, None, "corpus:directory-is-a-regular-file");
        j.dirkind = DirKind::File;
        j.first = First::Crash(m);
        jobs.push(j);
    }

    // (1b) a configuration that is absent or not enabled: plain engines, the directory is not even looked at
    for (en, mode) in [(En::Off, Mode::Seq), (En::Off, Mode::Par(2)), (En::NoCfg, Mode::Seq), (En::NoCfg, Mode::Par(3))] {
        let mut j = base_job(fixed[1].clone(), mode, Pol::Every(1), Some(1), "corpus:not-enabled");
        j.en = en;
        j.pre = vec![PreFile::Own(5, Content::Valid { idx: 1, total: 4, rest: Rest::plain(), mu: Mu::None }), PreFile::Named("notes.txt".into(), vec![1, 2, 3])];
        jobs.push(j);
    }

    // (1e) leftovers that are VALID records (right checksum) with anything a record can legally hold in the fields
    //      the recovery block may look at: progress_percent 0..=255, indices / totals up to usize::MAX, any
    //      partition count, any exec_mode / last_node_type string
    {
        let n0 = jobs.len();
        for pp in [0u8, 100, 101, 127, 128, 200, 255] {
            for (prog, mode) in [(fixed[1].clone(), Mode::Seq), (fixed[1].clone(), Mode::Par(2))] {
                let mut j = base_job(prog, mode, Pol::Barrier, Some(1), "corpus:valid-leftover-any-fields");
                let rest = Rest { pc: 1, em: "sequential".into(), lnt: "Stateless".into(), pp };
                j.pre = vec![PreFile::Own(1000, Content::Valid { idx: 2, total: 4, rest, mu: Mu::None })];
                jobs.push(j);
            }
        }
        for (idx, total, pc) in [(usize::MAX, usize::MAX, usize::MAX), (usize::MAX, 0, 0), (0, usize::MAX, 1), (7, 3, usize::MAX - 1), (u32::MAX as usize, 251, 65536)] {
            for (prog, mode) in [(fixed[1].clone(), Mode::Seq), (fixed[3].clone(), Mode::Par(3))] {
                let mut j = base_job(prog, mode, Pol::Every(1), None, "corpus:valid-leftover-any-fields");
                let rest = Rest { pc, em: format!("parallel:{pc}"), lnt: "Failed".into(), pp: 255 };
                j.pre = vec![PreFile::Own(999_999_999_999, Content::Valid { idx, total, rest, mu: Mu::None })];
                jobs.push(j);
            }
        }
        for _ in 0..budget(12, 200) {
            let (prog, mode) = if rng.chance(1, 2) { (fixed[1].clone(), Mode::Seq) } else { (fixed[4].clone(), Mode::Par(2)) };
            let mut j = base_job(prog, mode, *rng.pick(ALL_POLS), *rng.pick(ALL_MAX), "corpus:valid-leftover-any-fields");
            j.pre = vec![PreFile::Own(*rng.pick(STAMPS), Content::Valid { idx: gen_usize_edge(rng), total: gen_usize_edge(rng), rest: gen_rest(rng), mu: Mu::None })];
            jobs.push(j);
        }
        blocks.push(format!("leftover files that are VALID records with edge values in every field (progress_percent 0..255, idx/total/partition_count up to usize::MAX, arbitrary exec_mode / last_node_type strings) = {} jobs", jobs.len() - n0));
    }
    // (1f) LARGE leftovers: a sparse {BIG_FILE_LEN}-byte own-named file (cannot be read into the child's address
    //      space: `read_to_end` of the whole file comes before the decode limit) and multi-MiB files of one byte value
    for (prog, mode) in [(fixed[1].clone(), Mode::Seq), (fixed[1].clone(), Mode::Par(2)), (fixed[3].clone(), Mode::Seq)] {
        for (k, content) in [Content::Big, Content::Rep(0, 2 << 20), Content::Rep(0xff, 2 << 20), Content::Rep(0x61, 3 << 20)].into_iter().enumerate() {
            if k > 0 && mode != Mode::Seq {
                continue;
            }
            let mut j = base_job(prog.clone(), mode, Pol::Every(1), Some(1), "corpus:large-leftover");
            j.pre = vec![PreFile::Own(3_000_000_000_000, content), PreFile::Own(5, Content::Valid { idx: 1, total: 4, rest: Rest::plain(), mu: Mu::None })];
            jobs.push(j);
        }
    }
    // (1g) the configured directory is the EMPTY path (current directory = scratch directory) or a RELATIVE path:
    //      both are usable directories — the run is transparent and leaves nothing of its own behind
    {
        let n0 = jobs.len();
        let (p2, m) = insert_marker(&fixed[1], 3).expect("marker");
        for dirkind in [DirKind::Empty, DirKind::Rel] {
            for (prog, mode) in [(fixed[1].clone(), Mode::Seq), (fixed[1].clone(), Mode::Par(2)), (fixed[3].clone(), Mode::Seq), (fixed[5].clone(), Mode::Par(2)), (fixed[5].clone(), Mode::Seq)] {
                for pol in [Pol::Every(1), Pol::Time(0)] {
                    for max in [None, Some(1)] {
                        for first in [First::None, First::Full] {
                            let mut j = base_job(prog.clone(), mode, pol, max, "corpus:directory-is-the-empty-or-a-relative-path");
                            j.dirkind = dirkind;
                            j.first = first;
                            jobs.push(j);
                        }
                    }
                }
            }
            for (pol, max) in [(Pol::Every(1), None), (Pol::Barrier, Some(1)), (Pol::Time(0), Some(0))] {
                let mut j = base_job(p2.clone(), Mode::Seq, pol, max, "corpus:directory-is-the-empty-or-a-relative-path");
                j.dirkind = dirkind;
                j.first = First::Crash(m);
                jobs.push(j);
                let mut j = base_job(fixed[1].clone(), Mode::Seq, pol, max, "corpus:directory-is-the-empty-or-a-relative-path");
                j.dirkind = dirkind;
                j.pre = vec![PreFile::Own(1000, Content::Valid { idx: 1, total: 4, rest: Rest::plain(), mu: Mu::None }), PreFile::Named("notes.txt".into(), vec![1, 2, 3])];
                jobs.push(j);
            }
        }
        blocks.push(format!("checkpoint directory = the empty path (cwd = scratch directory) / a relative path: 5 program-mode pairs x {{every:1,time:0}} x retention {{None,1}} x earlier run {{none,full}}, crash + recovery, pre-existing files = {} jobs (in the child: they need their own current directory)", jobs.len() - n0));
    }
    // (1h) STORE OPERATIONS THAT FAIL: an identity step whose closure RENAMES the checkpoint directory away while the
    //      run is in progress — every later `save_checkpoint` (File::create) and the final `clear_checkpoints`
    //      (read_dir) fail; the run must still return the plain result. At every position of three programs.
    {
        let n0 = jobs.len();
        for prog in [&fixed[1], &fixed[4], &fixed[2]] {
            for pos in 0..=prog.steps.len() {
                let Some((p2, m)) = insert_marker(prog, pos) else { continue };
                if !usable(&p2) || rows_at(&p2, m) == Some(0) {
                    continue;
                }
                for (k, pol) in [Pol::Every(1), Pol::Barrier, Pol::Time(0), Pol::Hybrid(true, LONG)].into_iter().enumerate() {
                    for max in [None, Some(1)] {
                        let mut j = base_job(p2.clone(), Mode::Seq, pol, max, "exh:store-fails-mid-run");
                        j.sab = Some(m);
                        if max.is_some() {
                            j.pre = vec![PreFile::Own(1000, Content::Valid { idx: 1, total: 4, rest: Rest::plain(), mu: Mu::None }), PreFile::Named("notes.txt".into(), vec![9])];
                        }
                        jobs.push(j);
                    }
                    if k < 2 {
                        let mut j = base_job(p2.clone(), Mode::Par(2), pol, None, "exh:store-fails-mid-run");
                        j.sab = Some(m);
                        jobs.push(j);
                    }
                }
            }
        }
        blocks.push(format!("the checkpoint directory is renamed away by a user closure at every step position of 3 fixed programs x {{every:1,barrier,time:0,hybrid}} x retention {{None,1}} (seq) + 2 policies (par:2): all later saves and the final clear fail = {} jobs", jobs.len() - n0));
    }
    // (1i) `run_collect::<T>` with a WRONG element type: both engines must return the same `Err`; the sequential
    //      checkpointing engine returns it after its saves and before the clear (files stay), the parallel one saves
    //      its "Failed" marker
    for prog in [&fixed[0], &fixed[1], &fixed[2], &fixed[3], &fixed[4], &fixed[6], &fixed[7]] {
        for mode in [Mode::Seq, Mode::Par(2)] {
            for pol in [Pol::Every(1), Pol::Barrier] {
                for first in [First::None, First::Full] {
                    let mut j = base_job(prog.clone(), mode, pol, Some(3), "corpus:wrong-terminal-type");
                    j.wrong_t = true;
                    j.first = first;
                    jobs.push(j);
                }
            }
        }
    }
    // (1j) `ExecMode::Parallel {{ partitions: None }}` (the crate's default): the partition count is the planner's
    //      suggestion, else `default_partitions` — resolved by TWO copies of the same expression in `run_collect`;
    //      with and without `threads: Some(2)`. (1k) programs whose result depends on the partition count.
    {
        let n0 = jobs.len();
        let nl = nonlocal_progs();
        for prog in fixed.iter().chain(nl.iter()) {
            for pol in [Pol::Barrier, Pol::Every(1)] {
                for threads in [None, Some(2)] {
                    let mut j = base_job(prog.clone(), Mode::Par(0), pol, Some(1), "corpus:partitions-none");
                    j.parts_none = true;
                    j.threads = threads;
                    jobs.push(j);
                }
            }
        }
        for prog in &nl {
            for mode in [Mode::Seq, Mode::Par(2), Mode::Par(3), Mode::Par(64)] {
                for pol in [Pol::Barrier, Pol::Every(1)] {
                    for first in [First::None, First::Full] {
                        let mut j = base_job(prog.clone(), mode, pol, None, "corpus:slice-dependent-batches");
                        j.first = first;
                        jobs.push(j);
                    }
                }
            }
        }
        blocks.push(format!("{} fixed + {} slice-dependent programs with partitions: None x {{barrier,every:1}} x threads {{None,2}}; the slice-dependent programs (map_batches rev / sumall before the first barrier, compared as exact sequences) x {{seq,par:2,par:3,par:64}} x 2 policies x earlier run {{none,full}} = {} jobs", fixed.len(), nl.len(), jobs.len() - n0));
    }
    // (1l) an `Err` at a node in the MIDDLE of the chain: the saves made before the failing node stay, none after it
    for prog in err_mid_progs() {
        for mode in [Mode::Seq, Mode::Par(2)] {
            for pol in [Pol::Every(1), Pol::Barrier, Pol::Time(0)] {
                for max in [None, Some(1)] {
                    for first in [First::None, First::Full] {
                        let mut j = base_job(prog.clone(), mode, pol, max, "corpus:err-in-the-middle-of-the-chain");
                        j.first = first;
                        jobs.push(j);
                    }
                }
            }
        }
    }
    // (1m) policy PARAMETERS at and beyond their edges (every:n around and far beyond the chain length; intervals of
    //      1 s, 1 h, i64::MAX, u64::MAX-1, u64::MAX seconds; retention usize::MAX), both modes, in the watchdog child
    {
        let n0 = jobs.len();
        let mut k = 0usize;
        for prog in [&fixed[1], &fixed[3], &fixed[2]] {
            for pol in extreme_pols(false) {
                for mode in [Mode::Seq, Mode::Par(2)] {
                    k += 1;
                    let mut j = base_job(prog.clone(), mode, pol, EXTREME_MAX[k % EXTREME_MAX.len()], "exh:policy-parameter-edges");
                    j.force_child = true;
                    jobs.push(j);
                }
            }
        }
        let (p2, m) = insert_marker(&fixed[1], 3).expect("marker");
        for pol in extreme_pols(true) {
            k += 1;
            let mut j = base_job(p2.clone(), Mode::Seq, pol, EXTREME_MAX[k % EXTREME_MAX.len()], "exh:policy-parameter-edges");
            j.first = First::Crash(m);
            j.force_child = true;
            jobs.push(j);
            // the same parameters in a run that returns `Err` (files stay and are compared)
            let mut j = base_job(fixed[5].clone(), if k % 2 == 0 { Mode::Seq } else { Mode::Par(2) }, pol, EXTREME_MAX[k % EXTREME_MAX.len()], "exh:policy-parameter-edges");
            j.force_child = true;
            jobs.push(j);
        }
        blocks.push(format!("policy parameter edges: every:{{4,5,6,7,usize::MAX-1,usize::MAX}}, time / hybrid intervals {{1,3600,i64::MAX,u64::MAX-1,u64::MAX}} s, retention {{None,0,1,usize::MAX}} x 3 fixed programs x {{seq,par:2}}, + crash/recovery and an Err program under the timing-free ones = {} jobs (in the child)", jobs.len() - n0));
    }

    // (2a) exhaustive: fixed programs × every policy × every retention × {seq, par 2, par 3}, fresh directory
    {
        let n0 = jobs.len();
        for prog in &fixed {
            for pol in ALL_POLS {
                for max in ALL_MAX {
                    for mode in [Mode::Seq, Mode::Par(2), Mode::Par(3)] {
                        jobs.push(base_job(prog.clone(), mode, *pol, *max, "exh:fresh"));
                    }
                }
            }
        }
        blocks.push(format!(
            "{} fixed programs (stateless, barrier, global combine, join, join+barrier, nested join=Err) x {} policies x retention {{None,0,1,3}} x {{seq,par:2,par:3}} from an empty directory = {} runs",
            fixed.len(), ALL_POLS.len(), jobs.len() - n0
        ));
    }
    // (2b) exhaustive: crash at every step position of two fixed programs × every policy, sequential, then an
    //      undamaged second run
    {
        let n0 = jobs.len();
        for prog in [&fixed[1], &fixed[4]] {
            for pos in 0..=prog.steps.len() {
                if let Some((p2, j)) = insert_marker(prog, pos) {
                    if !usable(&p2) || rows_at(&p2, j) == Some(0) {
                        continue;
                    }
                    for pol in ALL_POLS {
                        for max in [None, Some(0), Some(1)] {
                            let mut job = base_job(p2.clone(), Mode::Seq, *pol, max, "exh:crash-every-position");
                            job.first = First::Crash(j);
                            jobs.push(job);
                        }
                    }
                }
            }
        }
        blocks.push(format!("crash at every step position (incl. directly after group_by_key, on the grouped rows) of 2 fixed programs x {} policies x retention {{None,0,1}}, sequential, then an undamaged recovery run = {} jobs", ALL_POLS.len(), jobs.len() - n0));
    }
    // (2b') exhaustive: the crash INSIDE a barrier node's closure (user combiner of combine_values / combine_globally
    //       / lifted combine after group_by_key / a combine inside a join's sub-plan) × every policy × retention ×
    //       {seq, par 2}; and the crash at every position of a third program in PARALLEL mode
    {
        let n0 = jobs.len();
        for (prog, m, b) in fixed_barrier_crash_progs() {
            for pol in ALL_POLS {
                for max in [None, Some(1)] {
                    for mode in [Mode::Seq, Mode::Par(2)] {
                        let mut job = base_job(prog.clone(), mode, *pol, max, "exh:crash-inside-barrier");
                        job.first = First::CrashBarrier { marker: m, barrier: b };
                        jobs.push(job);
                    }
                }
            }
        }
        let prog = &fixed[6];
        for pos in 0..=prog.steps.len() {
            if let Some((p2, j)) = insert_marker(prog, pos) {
                if !usable(&p2) || rows_at(&p2, j) == Some(0) {
                    continue;
                }
                for pol in [Pol::Barrier, Pol::Every(1), Pol::Time(0), Pol::Hybrid(true, LONG)] {
                    for mode in [Mode::Seq, Mode::Par(3)] {
                        let mut job = base_job(p2.clone(), mode, pol, Some(1), "exh:crash-every-position");
                        job.first = First::Crash(j);
                        jobs.push(job);
                    }
                }
            }
        }
        blocks.push(format!("crash inside the closure of a barrier node (4 programs: combine_values, combine_globally, lifted combine directly after group_by_key, combine inside a join sub-plan) x {} policies x retention {{None,1}} x {{seq,par:2}}; crash at every position of a gbk+lifted-combine program x 4 policies x {{seq,par:3}} = {} jobs", ALL_POLS.len(), jobs.len() - n0));
    }
    // (2c) exhaustive: newest file of a crashed run truncated at EVERY offset 0..=limit, and every bit of the
    //      first bytes flipped
    {
        let n0 = jobs.len();
        let (p2, j) = insert_marker(&fixed[4], 3).expect("marker");
        let limit = 135; // the file is ~116 bytes: every offset up to and beyond its end, in every tier
        for o in 0..=limit {
            let mut job = base_job(p2.clone(), Mode::Seq, Pol::Every(1), None, "exh:truncate-every-offset");
            job.first = First::Crash(j);
            job.mu = Mu::Trunc(o);
            jobs.push(job);
        }
        for i in 0..125 {
            for b in 0..8u8 {
                // quick: the lowest and the highest bit of EVERY byte of the file (the last byte is the un-checksummed
                // progress_percent); thorough: every bit
                if tier == Tier::Quick && b != 0 && b != 7 {
                    continue;
                }
                let mut job = base_job(p2.clone(), Mode::Seq, Pol::Barrier, Some(1), "exh:bit-flips");
                job.first = First::Crash(j);
                job.mu = Mu::Flip(i, b);
                jobs.push(job);
            }
        }
        blocks.push(format!("newest file left by a crashed run truncated at every offset 0..={limit}; bit flips (quick: bits 0 and 7, else all) in every byte 0..125 = {} jobs (recovery run in the child)", jobs.len() - n0));
    }

    // (3) random
    let o = GenOpts { max_steps: 7, max_rows: 10, barriers: true, joins: true, globals: true, nonlocal_batches: false };
    let o_nl = GenOpts { nonlocal_batches: true, ..o };
    let timing_free = extreme_pols(true);
    let n = budget(1500, 30000);
    for _ in 0..n {
        // a fifth of the programs may contain slice-dependent chunk functions before their first barrier
        let opts = if rng.chance(1, 5) { &o_nl } else { &o };
        let prog = gen_usable_prog(rng, opts);
        let mode = gen_mode(rng, prog.src.len());
        let pol = if rng.chance(1, 6) { *rng.pick(&timing_free) } else { *rng.pick(ALL_POLS) };
        let max = if rng.chance(1, 8) { Some(usize::MAX) } else { *rng.pick(ALL_MAX) };
        let mut job = base_job(prog, mode, pol, max, "rnd");
        job.rec = !rng.chance(1, 6);
        if rng.chance(1, 14) {
            job.en = if rng.chance(1, 2) { En::Off } else { En::NoCfg };
        }
        if mode != Mode::Seq {
            job.parts_none = rng.chance(1, 6);
            if rng.chance(1, 8) {
                job.threads = Some(1 + rng.below(3));
            }
        }
        match rng.below(11) {
            0 | 1 => job.tag = "rnd:fresh",
            2 | 3 => {
                job.pre = gen_pre(rng);
                job.add = gen_add(rng);
                job.tag = "rnd:dirty";
            }
            4 => {
                job.first = First::Full;
                job.pre = if rng.chance(1, 3) { gen_pre(rng) } else { vec![] };
                job.tag = "rnd:after-full-run";
            }
            5 if rng.chance(1, 2) => {
                if let Some((p2, m, b)) = with_barrier_crash(rng, &job.prog.clone()) {
                    job.prog = p2;
                    job.first = First::CrashBarrier { marker: m, barrier: b };
                    job.mu = gen_mu(rng);
                    job.add = gen_add(rng);
                    if rng.chance(1, 4) {
                        job.pre = gen_pre(rng);
                    }
                    job.tag = "rnd:crash-inside-barrier";
                } else {
                    job.tag = "rnd:fresh";
                }
            }
            8 => {
                // the store stops working mid-run
                if let Some((p2, j)) = with_crash(rng, &job.prog.clone()) {
                    job.prog = p2;
                    job.sab = Some(j);
                    if rng.chance(1, 3) {
                        job.pre = gen_pre(rng);
                    }
                    if rng.chance(1, 4) {
                        job.first = First::Full;
                    }
                    job.tag = "rnd:store-fails-mid-run";
                } else {
                    job.tag = "rnd:fresh";
                }
            }
            9 => {
                if rng.chance(1, 2) {
                    job.wrong_t = true;
                    if rng.chance(1, 2) {
                        job.first = First::Full;
                    }
                    job.tag = "rnd:wrong-terminal-type";
                } else if let Some(p2) = with_err_mid(rng, &job.prog.clone()) {
                    job.prog = p2;
                    if rng.chance(1, 2) {
                        job.first = First::Full;
                    }
                    if rng.chance(1, 3) {
                        job.pre = gen_pre(rng);
                    }
                    job.tag = "rnd:err-in-the-middle-of-the-chain";
                } else {
                    job.tag = "rnd:fresh";
                }
            }
            10 => {
                job.dirkind = if rng.chance(1, 2) { DirKind::Empty } else { DirKind::Rel };
                match rng.below(3) {
                    0 => {}
                    1 => job.first = First::Full,
                    _ => job.pre = gen_pre(rng),
                }
                job.tag = "rnd:directory-is-the-empty-or-a-relative-path";
            }
            _ => {
                if let Some((p2, j)) = with_crash(rng, &job.prog.clone()) {
                    job.prog = p2;
                    job.first = First::Crash(j);
                    job.mu = gen_mu(rng);
                    job.add = gen_add(rng);
                    if rng.chance(1, 4) {
                        job.pre = gen_pre(rng);
                    }
                    job.tag = "rnd:crash-recover";
                } else {
                    job.tag = "rnd:fresh";
                }
            }
        }
        // whether rows reach the marker closure is decided with the one-slice reference interpreter: with a
        // slice-dependent chunk function upstream that is only right in sequential mode
        if (job.marker().is_some() || matches!(job.first, First::CrashBarrier { .. })) && job.has_nonlocal() && job.mode != Mode::Seq {
            job.mode = Mode::Seq;
            job.parts_none = false;
            job.threads = None;
        }
        if job.pre.is_empty() && job.mu == Mu::None && job.add.is_empty() && job.sab.is_none() && job.dirkind == DirKind::Ok && rng.chance(1, 40) {
            job.dirkind = DirKind::File;
            job.tag = "rnd:directory-is-a-regular-file";
        }
        jobs.push(job);
    }
    jobs
}

// ───────────────────────────── execution ─────────────────────────────

/// phase A of a job: the scratch path, the `pre` entries
struct PrepA {
    pid: String,
    len: usize,
    mode_tok: String,
    /// `pre=` token of the request
    pre_tok: String,
    /// names present before the earlier run
    before_first: BTreeSet<String>,
}

struct Prepared {
    pid: String,
    len: usize,
    mode_tok: String,
    pre_tok: String,
    /// first-phase part of the answer (with trailing ` || `), empty if there is no first run
    first_ans: String,
    /// outcome part of the earlier run's answer
    first_res: Option<String>,
    /// names created by the first run (still present after it)
    first_created: BTreeSet<String>,
    /// directory content right before the final run
    before: BTreeMap<String, Ent>,
}

/// `None`: the scratch file system refused a write (full / gone) — the job is dropped, not judged
fn place_pre(job: &Job, pid: &str, dir: &Path) -> Option<String> {
    let mut toks = vec![];
    for f in &job.pre {
        match f {
            PreFile::Own(stamp, content) => {
                let name = format!("checkpoint_{pid}_{stamp}.bin");
                let path = dir.join(&name);
                match content {
                    Content::Raw(b) => {
                        std::fs::write(&path, b).ok()?;
                        toks.push(format!("own.{stamp}:{}", hex(b)));
                    }
                    Content::Rep(byte, n) => {
                        std::fs::write(&path, vec![*byte; *n]).ok()?;
                        toks.push(format!("own.{stamp}:REP{byte:02x}x{n}"));
                    }
                    Content::Big => {
                        let f = std::fs::File::create(&path).ok()?;
                        f.set_len(BIG_FILE_LEN).ok()?;
                        toks.push(format!("own.{stamp}:BIG"));
                    }
                    Content::Valid { idx, total, rest, mu } => {
                        // a genuine record, written by the real save_checkpoint into a side directory
                        let side = dir.parent()?.join(format!("side_{}", std::process::id()));
                        std::fs::create_dir_all(&side).ok()?;
                        let mut m = probe_manager(&side)?;
                        let ck = compute_checksum(format!("{pid}:{idx}:{stamp}:{}", rest.pc).as_bytes());
                        let st = CheckpointState {
                            pipeline_id: pid.to_string(),
                            completed_node_index: *idx,
                            timestamp: *stamp,
                            partition_count: rest.pc,
                            checksum: ck,
                            exec_mode: rest.em.clone(),
                            metadata: CheckpointMetadata { total_nodes: *total, last_node_type: rest.lnt.clone(), progress_percent: rest.pp },
                        };
                        let sp = m.save_checkpoint(&st).ok()?;
                        let b = std::fs::read(&sp).ok()?;
                        let _ = std::fs::remove_file(&sp);
                        let b = mu.apply(&b);
                        std::fs::write(&path, &b).ok()?;
                        toks.push(format!("own.{stamp}:{}", hex(&b)));
                    }
                }
            }
            PreFile::Named(t, bytes) => {
                let name = t.replace("{}", pid);
                std::fs::write(dir.join(&name), bytes).ok()?;
                toks.push(format!("{}:{}", hex(name.as_bytes()), hex(bytes)));
            }
            PreFile::OwnDir(stamp) => {
                let name = format!("checkpoint_{pid}_{stamp}.bin");
                std::fs::create_dir_all(dir.join(&name)).ok()?;
                std::fs::write(dir.join(&name).join("inner.txt"), b"inside").ok()?;
                toks.push(format!("own.{stamp}:DIR"));
            }
            PreFile::NamedDir(t) => {
                let name = t.replace("{}", pid);
                std::fs::create_dir_all(dir.join(&name)).ok()?;
                std::fs::write(dir.join(&name).join("inner.txt"), b"inside").ok()?;
                toks.push(format!("{}:DIR", hex(name.as_bytes())));
            }
        }
    }
    Some(if toks.is_empty() { "-".into() } else { toks.join(",") })
}

fn remove_scratch(dir: &Path) {
    for d in [dir.to_path_buf(), moved_path(dir)] {
        if d.is_dir() {
            let _ = std::fs::remove_dir_all(&d);
        } else {
            let _ = std::fs::remove_file(&d);
        }
    }
}

/// phase A: the scratch path (a directory, or a regular file for `dir=file`) and the `pre` entries
fn prepare_a(job: &Job, dir: &Path) -> Option<PrepA> {
    let info = plan_info(job)?;
    match job.dirkind {
        DirKind::Ok | DirKind::Empty | DirKind::Rel => std::fs::create_dir_all(dir).ok()?,
        DirKind::File => {
            assert!(job.pre.is_empty() && job.add.is_empty() && job.mu == Mu::None, "dir=file jobs have no entries");
            std::fs::write(dir, FILE_AS_DIR_CONTENT).ok()?
        }
    }
    let Some(pre_tok) = place_pre(job, &info.pid, dir) else {
        remove_scratch(dir);
        return None;
    };
    Some(PrepA { pid: info.pid, len: info.len, mode_tok: info.mode_tok, pre_tok, before_first: listing(dir).keys().cloned().collect() })
}

/// phase B (after the earlier run, if any): the damage to the newest own FILE, the foreign files
fn prepare_b(job: &Job, a: PrepA, dir: &Path, first: Option<String>) -> Option<Prepared> {
    let mut first_ans = String::new();
    let mut first_res = None;
    let mut first_created = BTreeSet::new();
    let mut ok = true;
    if let Some(f) = first {
        first_res = Some(f.split(" own=").next().unwrap_or("").to_string());
        first_ans = format!("{f} || ");
        let now = listing(dir);
        first_created = now.keys().filter(|n| !a.before_first.contains(*n)).cloned().collect();
        // damage the newest own regular file
        if job.mu != Mu::None {
            if let Some(n) = newest_own(&a.pid, now.iter().filter(|(_, e)| matches!(e, Ent::File(_))).map(|(n, _)| n.clone())) {
                let path = dir.join(&n);
                let c = std::fs::read(&path).unwrap_or_default();
                ok &= std::fs::write(&path, job.mu.apply(&c)).is_ok();
            }
        }
    }
    for a in &job.add {
        if !dir.join(a).exists() {
            ok &= std::fs::write(dir.join(a), b"").is_ok();
        }
    }
    if !ok {
        remove_scratch(dir);
        return None;
    }
    Some(Prepared { pid: a.pid, len: a.len, mode_tok: a.mode_tok, pre_tok: a.pre_tok, first_ans, first_res, first_created, before: listing(dir) })
}

fn request(job: &Job, prep: &Prepared) -> String {
    let first = match job.first {
        First::None => "none".to_string(),
        First::Full => "full".to_string(),
        First::Crash(j) => format!("crash:{j}"),
        First::CrashBarrier { marker, .. } => format!("crashb:{marker}"),
    };
    let add = if job.add.is_empty() { "-".to_string() } else { job.add.iter().map(|a| hex(a.as_bytes())).collect::<Vec<_>>().join(",") };
    let body = job.prog.request(&prep.mode_tok);
    format!(
        "CKPT dir={} pol={} max={} rec={} first={first} mut={} add={add} pre={} ty={} sab={} {}",
        job.dirkind.enc(),
        match job.en {
            En::On => job.pol.enc(),
            En::Off => format!("off/{}", job.pol.enc()),
            En::NoCfg => "nocfg".to_string(),
        },
        job.max.map_or("none".to_string(), |m| m.to_string()),
        if job.rec { "T" } else { "F" },
        if job.first == First::None { "none".to_string() } else { job.mu.enc() },
        prep.pre_tok,
        if job.wrong_t { "wrong" } else { "ok" },
        job.sab.map_or("none".to_string(), |j| j.to_string()),
        body.strip_prefix("PIPE ").unwrap_or(&body)
    )
}

fn first_token(ans: &str) -> &str {
    ans.split(' ').next().unwrap_or("")
}

/// result part of a final answer (everything before ` rec=`)
fn result_part(ans: &str) -> &str {
    ans.split(" rec=").next().unwrap_or(ans)
}

/// signature of "the checkpointed run did not return what the checkpoint-free run returns"
fn differs_sig(res: &str, hostile_dir: bool) -> &'static str {
    match first_token(res) {
        "PANIC" | "PANIC-NOT-INJECTED" if hostile_dir => "run-panics-on-leftover-files",
        "ABORT" => "run-aborts-on-leftover-files(huge allocation)",
        "HANG" => "run-hangs-with-checkpointing",
        _ if hostile_dir => "result-after-crash-differs-from-checkpoint-free-result",
        _ => "checkpointed-result-differs-from-checkpoint-free-result",
    }
}

fn evaluate(cx: &mut Ctx, job: &Job, prep: &Prepared, dir: &Path, final_ans: &str) {
    let canon = job.prog.canon();
    let req = request(job, prep);
    let full_ans = format!("{}{}", prep.first_ans, final_ans);
    let nontrivial = job.prog.src.len() >= 2 && !job.prog.steps.is_empty();
    let idx = cx.case(req, full_ans, nontrivial);

    cx.count(&format!("kind:{}", job.tag));
    cx.count(&format!("mode:{}", if job.mode == Mode::Seq { "seq" } else { "par" }));
    cx.count(&format!("policy:{}", job.pol.enc()));
    cx.count(&format!("retention:{}", job.max.map_or("none".to_string(), |m| m.to_string())));
    cx.count(&format!("auto_recover:{}", job.rec));
    cx.count(&format!("config:{:?}", job.en));
    cx.count(&format!("directory:{:?}", job.dirkind));
    cx.count(&format!("chain-len:{}", prep.len));
    if job.parts_none {
        cx.count(&format!("partitions:None(resolved:{})", prep.mode_tok));
    }
    if job.threads.is_some() {
        cx.count("threads:Some");
    }
    if job.wrong_t {
        cx.count("terminal-type:wrong");
    }
    if job.sab.is_some() {
        cx.count(if effective_dir(dir) != dir { "store-fails-mid-run:directory-renamed-away" } else { "store-fails-mid-run:closure-did-not-fire" });
    }
    if job.has_nonlocal() {
        cx.count("prog:slice-dependent-batch-fn");
    }
    if job.force_child {
        cx.count("final-run:in-child(forced)");
    }
    match job.pol {
        Pol::Every(n) if n > 3 => cx.count("policy-parameter:every>3"),
        Pol::Time(s) | Pol::Hybrid(_, s) if s > LONG => cx.count("policy-parameter:huge-interval"),
        Pol::Time(s) | Pol::Hybrid(_, s) if s != 0 && s < LONG => cx.count("policy-parameter:short-interval"),
        _ => {}
    }
    if job.max == Some(usize::MAX) {
        cx.count("retention:usize::MAX");
    }
    if job.prog.has_join() {
        cx.count("prog:has-join");
    }
    if job.prog.has_barrier() {
        cx.count("prog:has-barrier");
    }
    if job.needs_child() {
        cx.count("final-run:in-child");
    }
    if job.first_in_child() {
        cx.count("earlier-run:in-child");
    }
    match &job.first {
        First::None => {}
        First::Full => cx.count("earlier-run:full"),
        First::Crash(j) => {
            cx.count("earlier-run:crash-in-stateless-closure");
            if *j > 0 && matches!(job.prog.steps[*j - 1], Step::Gbk) {
                cx.count("earlier-run:crash-directly-after-gbk");
            }
        }
        First::CrashBarrier { barrier, .. } => cx.count(&format!("earlier-run:crash-inside-barrier:{}", job.prog.steps[*barrier].enc().split(' ').next().unwrap_or(""))),
    }
    for f in &job.pre {
        match f {
            PreFile::OwnDir(_) => cx.count("pre:own-named-subdirectory"),
            PreFile::NamedDir(_) => cx.count("pre:other-subdirectory"),
            PreFile::Own(_, Content::Big) => cx.count("pre:own-file-too-large-to-read"),
            PreFile::Own(_, Content::Rep(..)) => cx.count("pre:own-file-multi-MiB"),
            PreFile::Own(_, Content::Valid { rest, mu: Mu::None, .. }) if *rest != Rest::plain() => cx.count("pre:valid-record-with-edge-fields"),
            PreFile::Own(_, Content::Valid { rest, .. }) if rest.pp > 100 => cx.count("pre:valid-record-progress>100"),
            _ => {}
        }
    }
    match &job.mu {
        Mu::None => {}
        Mu::Trunc(_) => cx.count("damage:truncate"),
        Mu::Flip(..) => cx.count("damage:bit-flip"),
        Mu::Set(_) => cx.count("damage:overwrite"),
    }
    let res = result_part(final_ans).to_string();
    cx.count(&format!("outcome:{}", first_token(&res)));
    if let Some(r) = final_ans.split(" rec=").nth(1) {
        let r = first_token(r);
        cx.count(&format!("recovery-saw:{}", if r.starts_with("ok:") { "ok" } else { r }));
    }

    // ── oracle 1: transparency — the same pipeline without checkpointing, and the plain-vector reference
    let plain = pipe::outcome_answer(&run_once(job, None, Arm::No), canon);
    let reference = pipe::ref_answer(&pipe::reference(&job.prog), canon);
    if job.wrong_t {
        // the plain engine asked for a wrong element type: `Err("terminal type mismatch")` whenever the run gets that far
        if reference.starts_with("OK ") && plain != "ERR other:terminal_type_mismatch" {
            cx.oracle_fail(idx, "plain-run-with-wrong-terminal-type-does-not-fail-with-type-mismatch", format!("plain={plain}"));
        }
    } else if job.has_nonlocal() && job.mode != Mode::Seq {
        // slice-dependent chunk functions: the result depends on the partitioning by design; the plain-vector reference
        // (one slice) does not apply — the model (which splits like `VecOps::split`) and the plain run are the yardstick
        cx.count("reference-not-applicable:slice-dependent-batches-in-parallel-mode");
    } else if plain != reference {
        cx.oracle_fail(idx, "plain-run-differs-from-reference", format!("plain={plain} reference={reference}"));
    }
    // does the run face anything it did not write itself in this very run?
    let hostile_dir = !job.pre.is_empty() || job.mu != Mu::None || job.first != First::None;
    let unusable = job.dirkind == DirKind::File && job.en == En::On;
    if unusable {
        // outside the property's precondition (the checkpoint directory cannot be created): the run either fails
        // with exactly the set-up error (before any node ran) or returns the plain result — nothing else
        if res != plain && res != "ERR ckpt-create-dir" {
            cx.oracle_fail(idx, "run-with-unusable-checkpoint-directory-neither-fails-with-the-setup-error-nor-returns-the-plain-result", format!("checkpointed={res} checkpoint-free={plain}"));
        }
        if res == "ERR ckpt-create-dir" {
            cx.count("unusable-directory:setup-error-where-plain-run-returns");
        }
    } else if res != plain {
        cx.oracle_fail(idx, differs_sig(&res, hostile_dir), format!("checkpointed={res} checkpoint-free={plain} kind={}", job.tag));
    }
    // the earlier run, when it ran to its end, is itself a checkpointed run of the same pipeline
    if let Some(a) = &prep.first_res {
        match job.first {
            First::Full => {
                if unusable {
                    if *a != plain && a != "ERR ckpt-create-dir" {
                        cx.oracle_fail(idx, "run-with-unusable-checkpoint-directory-neither-fails-with-the-setup-error-nor-returns-the-plain-result", format!("first run: checkpointed={a} checkpoint-free={plain}"));
                    }
                } else if *a != plain {
                    cx.oracle_fail(idx, differs_sig(a, !job.pre.is_empty()), format!("first run: checkpointed={a} checkpoint-free={plain}"));
                }
            }
            First::Crash(_) | First::CrashBarrier { .. } => match first_token(a) {
                "PANIC" => {}
                "PANIC-NOT-INJECTED" | "ABORT" | "HANG" => {
                    cx.oracle_fail(idx, differs_sig(a, true), format!("first (armed) run over pre-existing entries: {a}"));
                }
                _ => {
                    cx.notes.push(format!("case {idx}: the armed closure did not fire (first outcome {a})"));
                    cx.count("crash-did-not-fire");
                }
            },
            First::None => {}
        }
    }

    let after = listing(&effective_dir(dir));
    if job.dirkind == DirKind::File {
        // the path is still the regular file it was
        if std::fs::read(dir).ok().as_deref() != Some(FILE_AS_DIR_CONTENT) {
            cx.oracle_fail(idx, "regular-file-at-the-checkpoint-directory-path-touched", format!("is_file={} is_dir={}", dir.is_file(), dir.is_dir()));
        }
        return;
    }
    // ── oracle 2: after success nothing of this pipeline's runs is left, nothing new exists
    if res.starts_with("OK ") && job.en == En::On && job.sab.is_some() {
        // the store was taken away mid-run (a precondition of "leaves none of its files behind" is violated): what
        // had been saved before stays; the run itself must be unaffected (oracle 1)
        cx.count("store-fails-mid-run:successful-run");
    }
    if res.starts_with("OK ") && job.en == En::On && job.sab.is_none() {
        // (a) "its files" in the narrow sense: whatever this run or the earlier run of the same pipeline created
        let left: Vec<&String> = after.keys().filter(|n| !prep.before.contains_key(*n) || prep.first_created.contains(*n)).collect();
        if !left.is_empty() {
            cx.oracle_fail(idx, "checkpoint-files-left-after-successful-run", format!("left behind: {left:?}"));
        }
        // (b) per pipeline ID: no regular FILE with a well-formed checkpoint name of THIS run's id is left. Files
        //     planted under this id count as "its files": the id is a hash of the chain length (+ partitions) only,
        //     so an equal-length pipeline's leftovers ARE this id's files by design (Lean: same_length_same_id,
        //     ckpt_clean_after_success). Own-named SUB-DIRECTORIES are not files; `remove_file` cannot remove them,
        //     oracle 3 demands that they are still there.
        let own_left: Vec<&String> = after.iter().filter(|(n, e)| e.is_file() && own_stamp(&prep.pid, n).is_some() && !left.contains(n)).map(|(n, _)| n).collect();
        if !own_left.is_empty() {
            cx.oracle_fail(idx, "checkpoint-files-of-this-pipeline-id-left-after-successful-run", format!("still there: {own_left:?}"));
        }
    }
    if job.en != En::On && after != prep.before {
        cx.oracle_fail(idx, "run-without-enabled-checkpointing-touches-the-directory", format!("before {:?} after {:?}", prep.before.keys().collect::<Vec<_>>(), after.keys().collect::<Vec<_>>()));
    }
    // ── oracle 3: whatever is not a checkpoint FILE of this pipeline id is untouched, however the run ended
    for (n, c) in &prep.before {
        if (own_stamp(&prep.pid, n).is_none() || !c.is_file()) && after.get(n) != Some(c) {
            let sig = if c.is_file() { "foreign-file-touched" } else { "sub-directory-touched" };
            cx.oracle_fail(idx, sig, format!("{n}: before {c:?}, after {:?}", after.get(n)));
        }
    }
}

/// does the child process handle this job in this phase?
fn in_phase(job: &Job, phase: &str) -> bool {
    match phase {
        "first" => job.first_in_child(),
        _ => job.needs_child(),
    }
}

/// run one phase (`first` = the earlier run, `final` = the run proper) of the listed jobs in watchdog children;
/// returns answers by job index
fn run_children(phase: &str, seed: u64, tier: Tier, root: &Path, todo: &BTreeSet<usize>, clock_marks: &mut BTreeSet<usize>) -> BTreeMap<usize, String> {
    let mut answers: BTreeMap<usize, String> = BTreeMap::new();
    let Some(&last) = todo.iter().next_back() else { return answers };
    let exe = std::env::current_exe().expect("current_exe");
    let tier_s = match tier {
        Tier::Quick => "quick",
        Tier::Thorough => "thorough",
        Tier::Search => "search",
    };
    let mut start = *todo.iter().next().unwrap();
    let mut spawns = 0;
    let mut not_started = 0;
    while start <= last && spawns < 200 {
        spawns += 1;
        let mut child = Command::new("sh")
            .arg("-c")
            .arg(format!("ulimit -v {CHILD_AS_LIMIT_KIB} && exec \"$0\" child c11 \"$1\" \"$2\" \"$3\" \"$4\" \"$5\""))
            .arg(&exe)
            .arg(phase)
            .arg(seed.to_string())
            .arg(tier_s)
            .arg(root)
            .arg(start.to_string())
            .env("RAYON_NUM_THREADS", "2")
            .env("MALLOC_ARENA_MAX", "2")
            .stdout(Stdio::piped())
            .stderr(Stdio::null())
            .spawn()
            .expect("spawn child");
        let stdout = child.stdout.take().unwrap();
        let (tx, rx) = mpsc::channel::<String>();
        let reader = std::thread::spawn(move || {
            for line in BufReader::new(stdout).lines().map_while(Result::ok) {
                if tx.send(line).is_err() {
                    break;
                }
            }
        });
        let mut current: Option<usize> = None;
        let mut hung = false;
        let mut done = false;
        let mut ready = false;
        loop {
            match rx.recv_timeout(Duration::from_secs(CHILD_WATCHDOG_S)) {
                Ok(line) => {
                    let (k, a) = line.split_once(' ').unwrap_or((&line, ""));
                    if k == "DONE" {
                        done = true;
                        continue;
                    }
                    if k == "READY" {
                        ready = true;
                        continue;
                    }
                    let Ok(k) = k.parse::<usize>() else { continue };
                    if a == "START" {
                        current = Some(k);
                    } else if a == "CLOCK" {
                        clock_marks.insert(k);
                    } else {
                        answers.insert(k, a.to_string());
                        current = None;
                    }
                }
                Err(mpsc::RecvTimeoutError::Timeout) => {
                    hung = true;
                    let _ = child.kill();
                    break;
                }
                Err(mpsc::RecvTimeoutError::Disconnected) => break,
            }
        }
        let status = child.wait().ok();
        let _ = reader.join();
        if status.and_then(|s| s.code()) == Some(2) {
            panic!("ibh child c11: set-up failure (exit 2)");
        }
        if !ready {
            // the child never got as far as its first line (`ulimit` / `exec` failed, the binary was replaced, the
            // machine could not fork): that says nothing about the code under test — try again, then give up loudly
            not_started += 1;
            if not_started >= 5 {
                panic!("ibh child c11: the child process could not be started {not_started} times (status {status:?})");
            }
            std::thread::sleep(Duration::from_millis(500));
            continue;
        }
        if done {
            break;
        }
        match current {
            Some(k) => {
                answers.insert(k, if hung { "HANG".into() } else { "ABORT".into() });
                start = k + 1;
            }
            None => {
                // died between jobs: skip to the first unanswered job after the last answered one
                let next = todo.iter().find(|k| !answers.contains_key(*k) && **k >= start).copied();
                match next {
                    Some(k) => {
                        answers.insert(k, if hung { "HANG".into() } else { "ABORT".into() });
                        start = k + 1;
                    }
                    None => break,
                }
            }
        }
    }
    answers
}

/// child: `ibh child c11 <first|final> <seed> <tier> <root> <start>`
pub fn child(args: &[String]) -> i32 {
    let phase = match args.first().map(String::as_str) {
        Some("first") => "first",
        Some("final") => "final",
        _ => return 2,
    };
    let (Some(seed), Some(tier), Some(root), Some(start)) = (args.get(1), args.get(2), args.get(3), args.get(4)) else { return 2 };
    let Ok(seed) = seed.parse::<u64>() else { return 2 };
    let Ok(start) = start.parse::<usize>() else { return 2 };
    let tier = match tier.as_str() {
        "thorough" => Tier::Thorough,
        "search" => Tier::Search,
        _ => Tier::Quick,
    };
    let mut cx = Ctx::new("C11", seed, tier);
    let mut blocks = vec![];
    let jobs = plan_jobs(&mut cx.rng, tier, &mut blocks);
    let out = std::io::stdout();
    {
        let mut o = out.lock();
        let _ = writeln!(o, "READY");
        let _ = o.flush();
    }
    for (k, job) in jobs.iter().enumerate().skip(start) {
        if !in_phase(job, phase) {
            continue;
        }
        let dir = PathBuf::from(root).join(k.to_string());
        if !dir.is_dir() {
            continue; // the parent could not prepare this job
        }
        let Some(PlanInfo { pid, .. }) = plan_info(job) else { continue };
        {
            let mut o = out.lock();
            let _ = writeln!(o, "{k} START");
            let _ = o.flush();
        }
        CLOCK_ANOMALY.store(false, Ordering::SeqCst);
        let a = if phase == "first" { run_first(job, &pid, &dir) } else { run_final(job, &pid, &dir) };
        if job.dirkind.needs_cwd() {
            let _ = std::env::set_current_dir(root);
        }
        let mut o = out.lock();
        if CLOCK_ANOMALY.load(Ordering::SeqCst) {
            let _ = writeln!(o, "{k} CLOCK");
        }
        let _ = writeln!(o, "{k} {a}");
        let _ = o.flush();
    }
    let mut o = out.lock();
    let _ = writeln!(o, "DONE");
    let _ = o.flush();
    0
}

/// what one pass over a set of jobs produced
struct Pass {
    preps: BTreeMap<usize, Prepared>,
    answers: BTreeMap<usize, String>,
    /// jobs during which the wall clock stepped
    clock: BTreeSet<usize>,
    not_preparable: usize,
    children: (usize, usize),
}

fn wall_ms() -> u64 {
    SystemTime::now().duration_since(UNIX_EPOCH).map(|d| d.as_millis() as u64).unwrap_or(0)
}

/// phases A..B' for the jobs `which`, each in the scratch directory `root/<job index>`
fn execute(seed: u64, tier: Tier, jobs: &[Job], which: &BTreeSet<usize>, root: &Path) -> Pass {
    let mut pass = Pass { preps: BTreeMap::new(), answers: BTreeMap::new(), clock: BTreeSet::new(), not_preparable: 0, children: (0, 0) };
    let _ = std::fs::create_dir_all(root);
    // phase A: scratch path and `pre` entries of every job; the earlier runs that start from an EMPTY directory
    // in-process
    let mut preps_a: BTreeMap<usize, PrepA> = BTreeMap::new();
    let mut firsts: BTreeMap<usize, String> = BTreeMap::new();
    let mut todo_first: BTreeSet<usize> = BTreeSet::new();
    for &k in which {
        let job = &jobs[k];
        let dir = root.join(k.to_string());
        match prepare_a(job, &dir) {
            Some(a) => {
                if job.first_in_child() {
                    todo_first.insert(k);
                } else if job.first != First::None {
                    CLOCK_ANOMALY.store(false, Ordering::SeqCst);
                    firsts.insert(k, run_first(job, &a.pid, &dir));
                    if CLOCK_ANOMALY.load(Ordering::SeqCst) {
                        pass.clock.insert(k);
                    }
                }
                preps_a.insert(k, a);
            }
            None => pass.not_preparable += 1,
        }
    }
    // phase A': the earlier runs over pre-existing (possibly hostile) entries, in children
    let child_firsts = run_children("first", seed, tier, root, &todo_first, &mut pass.clock);
    for k in &todo_first {
        firsts.insert(*k, child_firsts.get(k).cloned().unwrap_or_else(|| "ABORT".to_string()));
    }
    // phase B: damage + foreign files; the benign final runs in-process
    let mut todo: BTreeSet<usize> = BTreeSet::new();
    for (k, a) in preps_a {
        let job = &jobs[k];
        let dir = root.join(k.to_string());
        match prepare_b(job, a, &dir, firsts.remove(&k)) {
            Some(p) => {
                if job.needs_child() {
                    todo.insert(k);
                } else {
                    CLOCK_ANOMALY.store(false, Ordering::SeqCst);
                    pass.answers.insert(k, run_final(job, &p.pid, &dir));
                    if CLOCK_ANOMALY.load(Ordering::SeqCst) {
                        pass.clock.insert(k);
                    }
                }
                pass.preps.insert(k, p);
            }
            None => pass.not_preparable += 1,
        }
    }
    // phase B': the final runs that face damaged / hostile / foreign directory content, in children
    let child_answers = run_children("final", seed, tier, root, &todo, &mut pass.clock);
    for k in &todo {
        pass.answers.insert(*k, child_answers.get(k).cloned().unwrap_or_else(|| "ABORT".to_string()));
    }
    pass.children = (todo_first.len(), todo.len());
    pass
}

/// a verdict that a starved machine can produce on correct code (watchdog expiry, a child killed from outside):
/// believed only when the job, redone from scratch, ends the same way
fn load_suspect(prep: &Prepared, ans: &str) -> bool {
    let bad = |a: &str| matches!(first_token(a), "HANG" | "ABORT");
    bad(ans) || prep.first_res.as_deref().is_some_and(bad)
}

pub fn run(cx: &mut Ctx) {
    let mut blocks = vec![];
    let jobs = plan_jobs(&mut cx.rng, cx.tier, &mut blocks);
    cx.exhaustive_blocks.extend(blocks);
    let root = tmproot();

    // the planted stamps (and the model's scripted clock) assume a sane wall clock; without one the jobs that compare
    // planted with written stamps are not run
    let now = wall_ms();
    let clock_sane = now > CLOCK_WINDOW_MS.0 && now < CLOCK_WINDOW_MS.1;
    let all: BTreeSet<usize> = (0..jobs.len()).filter(|k| clock_sane || !jobs[*k].has_planted_stamp()).collect();
    if !clock_sane {
        cx.notes.push(format!("wall clock ({now} ms since the epoch) outside the window the planted stamps assume: {} jobs with planted stamps skipped", jobs.len() - all.len()));
    }

    let mut pass = execute(cx.seed, cx.tier, &jobs, &all, &root.path().join("a"));

    // confirm-by-re-execution: jobs that ended in HANG / ABORT, or during which the wall clock stepped, are redone
    // from scratch (fresh directory); a load-induced verdict does not come back, a real one does
    let suspects: Vec<usize> = pass.preps.iter().filter(|(k, p)| pass.clock.contains(*k) || pass.answers.get(*k).is_some_and(|a| load_suspect(p, a))).map(|(k, _)| *k).collect();
    let mut dir_of: BTreeMap<usize, PathBuf> = BTreeMap::new();
    if !suspects.is_empty() {
        // bounded: a real defect comes back on the first few; a HANG costs a full watchdog period each time
        let is_hang = |k: &usize| pass.answers.get(k).is_some_and(|a| first_token(a) == "HANG") || pass.preps[k].first_res.as_deref().is_some_and(|a| first_token(a) == "HANG");
        let mut redo: BTreeSet<usize> = suspects.iter().filter(|k| !is_hang(k)).copied().take(64).collect();
        redo.extend(suspects.iter().filter(|k| is_hang(k)).copied().take(6));
        let again = execute(cx.seed, cx.tier, &jobs, &redo, &root.path().join("b"));
        let (mut reproduced, mut vanished, mut dropped) = (0, 0, 0);
        for k in &redo {
            let was_load = pass.answers.get(k).is_some_and(|a| load_suspect(&pass.preps[k], a));
            match (again.preps.get(k), again.answers.get(k)) {
                (Some(p2), Some(a2)) if !again.clock.contains(k) => {
                    if was_load && load_suspect(p2, a2) {
                        reproduced += 1; // keep the first verdict
                    } else {
                        if was_load {
                            vanished += 1;
                        }
                        dir_of.insert(*k, root.path().join("b").join(k.to_string()));
                    }
                }
                _ => {
                    if !was_load {
                        // the clock stepped again (or the job could not be prepared again): not judged
                        dropped += 1;
                        pass.preps.remove(k);
                    }
                }
            }
        }
        let mut again = again;
        for k in dir_of.keys() {
            if let (Some(p2), Some(a2)) = (again.preps.remove(k), again.answers.remove(k)) {
                pass.preps.insert(*k, p2);
                pass.answers.insert(*k, a2);
            }
        }
        cx.notes.push(format!(
            "{} jobs redone from scratch (HANG / ABORT verdict or a wall-clock step during the run): {reproduced} verdicts reproduced and kept, {vanished} HANG/ABORT verdicts did not come back (machine stall; the re-execution was judged), {dropped} dropped (clock stepped again)",
            redo.len()
        ));
        cx.count_n("redone-from-scratch", redo.len() as u64);
    }

    // phase C: cases and oracles, in job order
    for (k, job) in jobs.iter().enumerate() {
        let dir = dir_of.get(&k).cloned().unwrap_or_else(|| root.path().join("a").join(k.to_string()));
        if let (Some(prep), Some(ans)) = (pass.preps.get(&k), pass.answers.get(&k)) {
            evaluate(cx, job, prep, &dir, ans);
        }
        remove_scratch(&root.path().join("a").join(k.to_string()));
        remove_scratch(&root.path().join("b").join(k.to_string()));
    }
    if pass.not_preparable > 0 {
        cx.count_n("job-not-preparable", pass.not_preparable as u64);
        cx.notes.push(format!("{} jobs could not be prepared (planner error or the scratch file system refused a write) and were not run", pass.not_preparable));
    }
    let (r, c) = (HANG_RETRIES.load(Ordering::SeqCst), HANGS_CONFIRMED.load(Ordering::SeqCst));
    if r > 0 {
        cx.notes.push(format!("in-process watchdog: {r} re-executions of checkpoint-free runs after an expiry, {c} HANG verdicts confirmed"));
    }
    cx.notes.push(format!(
        "{} jobs; {} earlier runs and {} final runs in watchdog children (address-space limit {} MiB)",
        jobs.len(),
        pass.children.0,
        pass.children.1,
        CHILD_AS_LIMIT_KIB / 1024
    ));
}
