//! C11 — not implemented yet.
use crate::ctx::Ctx;

pub fn run(cx: &mut Ctx) {
    cx.notes.push("C11: harness not implemented".to_string());
}

pub fn child(_args: &[String]) -> i32 {
    2
}
