//! Extended check driver of the pipeline family (additive to `pipe::check_prog`):
//! * further collect entry points as modes: `collect()`, `collect_par(None, None)`, `collect_par(Some(t), Some(n))`;
//! * jittered runs (closures sleeping 0..2 ms right after the source) under private rayon pools;
//! * the reference comparison may use its own canonical form (C04 compares groups as MULTISETS);
//! * a batch of (program, mode) jobs can run in a CHILD process (`ibh child c05 <block> …`) under an address-space
//!   limit, so that an abort / allocation failure of the real code becomes an oracle failure with its input instead
//!   of a harness crash (huge fan-outs), and so that `collect_par(Some(t), …)` really installs a `t`-thread global pool.

use crate::ctx::{Ctx, Tier};
use crate::pipe::*;
use ironbeam::Pipeline;
use std::io::{BufRead, BufReader, Write};
use std::process::{Command, Stdio};
use std::sync::mpsc;
use std::time::Duration;

#[derive(Clone, Copy, Debug, PartialEq)]
pub enum XMode {
    Seq,
    Par(usize),
    /// `collect()` (documented alias of the sequential collect)
    Collect,
    /// `collect_par(None, None)`: the engine chooses the partition count (planner suggestion / default)
    ParAuto,
    /// `collect_par(Some(t), Some(n))`: asks for a `t`-thread GLOBAL pool (first caller in a process wins)
    ParT(usize, usize),
}
impl XMode {
    pub fn enc(&self) -> String {
        match self {
            XMode::Seq => "seq".into(), XMode::Par(n) => format!("par:{n}"), XMode::Collect => "collect".into(),
            XMode::ParAuto => "parauto".into(), XMode::ParT(t, n) => format!("part:{t}:{n}"),
        }
    }
    pub fn is_seq(&self) -> bool { matches!(self, XMode::Seq | XMode::Collect) }
    pub fn of(m: Mode) -> XMode { match m { Mode::Seq => XMode::Seq, Mode::Par(n) => XMode::Par(n) } }
}

fn row_kv(r: &(V, V)) -> V { V::pair(r.0.clone(), r.1.clone()) }
fn row_kg(r: &(V, Vec<V>)) -> V { V::pair(r.0.clone(), V::L(r.1.clone())) }

pub fn collect_x(c: Coll, mode: XMode) -> anyhow::Result<Vec<V>> {
    macro_rules! go { ($x:expr) => { match mode {
        XMode::Seq => $x.collect_seq()?,
        XMode::Par(n) => $x.collect_par(None, Some(n))?,
        XMode::Collect => $x.collect()?,
        XMode::ParAuto => $x.collect_par(None, None)?,
        XMode::ParT(t, n) => $x.collect_par(Some(t), Some(n))?,
    } } }
    Ok(match c {
        Coll::T(x) => go!(x),
        Coll::KV(x) => go!(x).iter().map(row_kv).collect(),
        Coll::KG(x) => go!(x).iter().map(row_kg).collect(),
        Coll::R(x) => go!(x).iter().map(result_v).collect(),
    })
}

/// identity tap whose closure sleeps 0..2 ms on about every fourth element (schedule perturbation)
fn jitter_tap(c: Coll) -> Coll {
    fn nap() {
        use std::cell::Cell;
        thread_local! { static S: Cell<u64> = const { Cell::new(0x9E37_79B9_7F4A_7C15) }; }
        let r = S.with(|s| { let mut x = s.get(); x ^= x << 13; x ^= x >> 7; x ^= x << 17; s.set(x); x });
        if r % 4 == 0 { std::thread::sleep(Duration::from_micros((r >> 8) % 2000)); }
    }
    match c {
        Coll::T(x) => Coll::T(x.map(|v: &V| { nap(); v.clone() })),
        Coll::KV(x) => Coll::KV(x.map(|r: &(V, V)| { nap(); r.clone() })),
        Coll::KG(x) => Coll::KG(x.map(|r: &(V, Vec<V>)| { nap(); r.clone() })),
        Coll::R(x) => Coll::R(x),
    }
}

fn private_pool(threads: usize) -> std::sync::Arc<rayon::ThreadPool> {
    use std::collections::HashMap;
    use std::sync::{Arc, Mutex, OnceLock};
    static POOLS: OnceLock<Mutex<HashMap<usize, Arc<rayon::ThreadPool>>>> = OnceLock::new();
    let mut m = POOLS.get_or_init(|| Mutex::new(HashMap::new())).lock().unwrap();
    m.entry(threads).or_insert_with(|| Arc::new(rayon::ThreadPoolBuilder::new().num_threads(threads).build().expect("pool"))).clone()
}

/// build the program on a fresh pipeline and collect it with the REAL engine. `jitter`: a sleeping identity tap
/// is inserted right after the source (the request line stays the program's own: the tap is the identity).
/// `threads`: 0 = whatever `pipe::PAR_THREADS` says, else a private pool of that many threads.
pub fn run_real_x(prog: &Prog, mode: XMode, jitter: bool, threads: usize) -> Outcome {
    let prog = prog.clone();
    let threads = if threads == 0 { PAR_THREADS.load(std::sync::atomic::Ordering::SeqCst) } else { threads };
    // The tap is a plain `map`: it fuses into the first stateless block and makes that block non-movable, so on a
    // program whose first block the planner WOULD reorder (the listed reorder finding) the jittered run would execute a
    // different plan than the plain run it is compared with. Jitter is therefore only injected where the value-only
    // reorder pass is the identity anyway.
    let jitter = jitter && crate::pipe::reorder_inert(&prog);
    match with_watchdog(10, move || {
        let p = Pipeline::default();
        let c = if jitter {
            let src_only = Prog { shape: prog.shape, src: prog.src.clone(), steps: vec![] };
            let mut c = jitter_tap(build(&p, &src_only));
            for s in &prog.steps { c = apply_step(c, s); }
            c
        } else { build(&p, &prog) };
        if threads == 0 || mode.is_seq() { collect_x(c, mode) } else { private_pool(threads).install(|| collect_x(c, mode)) }
    }) {
        None => Outcome::Hang,
        Some(Err(msg)) => Outcome::Panic(msg),
        Some(Ok(Err(e))) => Outcome::Err(format!("{e}")),
        Some(Ok(Ok(rows))) => Outcome::Rows(rows),
    }
}

#[derive(Clone, Copy)]
pub struct XOpts {
    pub par_vs_seq: bool,
    pub vs_reference: bool,
    /// canonical form used for the comparison with the plain-vector reference (None = the program's own);
    /// C04 passes `Some("deep")`: groups are compared as multisets there
    pub ref_canon: Option<&'static str>,
    /// jittered closures + private pool of that many threads (0 = no jitter)
    pub jitter_threads: usize,
}
impl XOpts {
    pub fn of(o: &CheckOpts) -> XOpts { XOpts { par_vs_seq: o.par_vs_seq, vs_reference: o.vs_reference, ref_canon: None, jitter_threads: 0 } }
}

fn hang_gate(cx: &mut Ctx) -> bool {
    if cx.stats.get("outcome:HANG").copied().unwrap_or(0) >= 3 {
        cx.count("skipped-after-3-hangs");
        let note = "RUN INCOMPLETE: three runs did not terminate (each leaves a spinning thread behind); the remaining programs of this run were skipped — see input_distribution[\"skipped-after-3-hangs\"] for how many";
        if !cx.notes.iter().any(|n| n == note) { cx.notes.push(note.to_string()); }
        return true;
    }
    false
}

/// judge one real outcome of `prog` in `mode` (shared by the in-process driver and the child-process blocks)
fn judge(cx: &mut Ctx, prog: &Prog, mode: XMode, out: &Outcome, abort: bool, o: &XOpts, reference: &Option<RefOut>, seq_answer: &mut Option<String>, tag: &str) {
    let canon = prog.canon();
    let nontrivial = prog.src.len() >= 2 && !prog.steps.is_empty();
    let ans = if abort { "ABORT".to_string() } else { outcome_answer(out, canon) };
    let idx = cx.case(prog.request(&mode.enc()), ans.clone(), nontrivial);
    cx.count(&format!("mode:{}", match mode { XMode::Seq => "seq", XMode::Par(_) => "par", XMode::Collect => "collect()", XMode::ParAuto => "collect_par(None,None)", XMode::ParT(..) => "collect_par(Some(t),Some(n))" }));
    cx.count(&format!("outcome:{}", ans.split(' ').next().unwrap_or("")));
    if !tag.is_empty() { cx.count(tag); }
    if abort {
        cx.oracle_fail(idx, "run-aborts-with-huge-fanout", format!("the child process running this program in mode {} died (abort / allocation failure under the address-space limit)", mode.enc()));
        return;
    }
    if matches!(out, Outcome::Hang) {
        cx.oracle_fail(idx, "run-does-not-terminate", format!("no result within 70 s (10 s + 60 s grace) in mode {}", mode.enc()));
        return;
    }
    if mode == XMode::Seq {
        *seq_answer = Some(ans.clone());
    } else if o.par_vs_seq {
        if let Some(sa) = seq_answer {
            if *sa != ans {
                let sig = match mode { XMode::Par(_) if o.jitter_threads == 0 => "par-differs-from-seq", XMode::Par(_) => "jittered-par-differs-from-seq",
                    XMode::Collect => "collect-differs-from-collect-seq", XMode::ParAuto => "collect-par-auto-differs-from-seq", _ => "collect-par-threads-differs-from-seq" };
                cx.oracle_fail(idx, sig, format!("seq={sa} {}={ans}", mode.enc()));
            }
        }
    }
    if let Some(r) = reference {
        let rc = o.ref_canon.unwrap_or(canon);
        let want = ref_answer(r, rc);
        let got = if rc == canon { ans.clone() } else { outcome_answer(out, rc) };
        if want != got {
            cx.oracle_fail(idx, "differs-from-reference", format!("mode={} real={got} reference={want} (compared under canon={rc})", mode.enc()));
        }
    }
}

/// Run `prog` in every mode on the REAL engine, register the correspondence cases and evaluate the oracles;
/// returns the outcomes (one per mode; empty if the program was skipped).
pub fn check_prog_x(cx: &mut Ctx, prog: &Prog, modes: &[XMode], o: &XOpts) -> Vec<Outcome> {
    if hang_gate(cx) { return vec![]; }
    if !hazard_free(prog) {
        cx.count("skipped:hash-ordered-lists-reach-an-order-sensitive-step");
        return vec![];
    }
    count_prog(cx, prog);
    let reference = if o.vs_reference { Some(reference(prog)) } else { None };
    let mut seq_answer: Option<String> = None;
    let mut outs = vec![];
    for m in modes {
        let out = run_real_x(prog, *m, o.jitter_threads > 0 && !m.is_seq(), if m.is_seq() { 0 } else { o.jitter_threads });
        let tag = if o.jitter_threads > 0 && !m.is_seq() { format!("jittered-run:pool-of-{}", o.jitter_threads) } else { String::new() };
        judge(cx, prog, *m, &out, false, o, &reference, &mut seq_answer, &tag);
        outs.push(out);
    }
    outs
}

/* ---------------------------------------------------------------- child-process blocks */

/// address-space limit of a child (KiB): a `Vec::with_capacity(fan_out)` of 2^32 16-byte slots must fail
const CHILD_AS_LIMIT_KIB: u64 = 2 * 1024 * 1024;
const CHILD_LINE_WATCHDOG_S: u64 = 150; // > the in-process watchdog incl. its grace period (70 s)

pub type Job = (Prog, XMode);

fn tier_s(t: Tier) -> &'static str { match t { Tier::Quick => "quick", Tier::Thorough => "thorough", Tier::Search => "search" } }

/// the job list of a block — a pure function of (block, seed, tier), so that the child rebuilds it
pub fn block_jobs(block: &str, seed: u64, tier: Tier) -> Vec<Job> {
    if block == "fanout" { return crate::pipe_wide::fanout_jobs(tier); }
    if let Some(t) = block.strip_prefix("threads:") { return crate::pipe_wide::threads_jobs(t.parse().unwrap_or(2), seed, tier); }
    vec![]
}

fn wire_answer(o: &Outcome, canon: &str) -> String { outcome_answer(o, canon) }

/// child: `ibh child c05 <block> <seed> <tier> <start>` — prints `<k> START` / `<k> <answer>` per job, then `DONE`
pub fn child(args: &[String]) -> i32 {
    if args.len() < 4 { return 2; }
    let block = args[0].as_str();
    let Ok(seed) = args[1].parse::<u64>() else { return 2 };
    let tier = match args[2].as_str() { "thorough" => Tier::Thorough, "search" => Tier::Search, _ => Tier::Quick };
    let Ok(start) = args[3].parse::<usize>() else { return 2 };
    let jobs = block_jobs(block, seed, tier);
    let out = std::io::stdout();
    for (k, (prog, mode)) in jobs.iter().enumerate().skip(start) {
        { let mut o = out.lock(); let _ = writeln!(o, "{k} START"); let _ = o.flush(); }
        let r = run_real_x(prog, *mode, false, 0);
        let extra = if let XMode::ParT(..) = mode { format!(" #threads={}", rayon::current_num_threads()) } else { String::new() };
        { let mut o = out.lock(); let _ = writeln!(o, "{k} {}{extra}", wire_answer(&r, prog.canon())); let _ = o.flush(); }
    }
    { let mut o = out.lock(); let _ = writeln!(o, "DONE"); let _ = o.flush(); }
    0
}

/// run the jobs of `block` in children (restarted after the job that killed one); answers by job index:
/// the canonical answer, `HANG` or `ABORT`
fn run_children(block: &str, seed: u64, tier: Tier, njobs: usize) -> std::collections::BTreeMap<usize, String> {
    let mut answers = std::collections::BTreeMap::new();
    let exe = std::env::current_exe().expect("current_exe");
    let mut start = 0usize;
    let mut spawns = 0;
    while start < njobs && spawns < 150 {
        spawns += 1;
        let mut child = Command::new("sh")
            .arg("-c")
            .arg(format!("ulimit -v {CHILD_AS_LIMIT_KIB} 2>/dev/null; exec \"$0\" child c05 \"$1\" \"$2\" \"$3\" \"$4\""))
            .arg(&exe).arg(block).arg(seed.to_string()).arg(tier_s(tier)).arg(start.to_string())
            .env("RAYON_NUM_THREADS", "4")
            .env("MALLOC_ARENA_MAX", "2")
            .stdout(Stdio::piped())
            .stderr(Stdio::null())
            .spawn()
            .expect("spawn child");
        let stdout = child.stdout.take().unwrap();
        let (tx, rx) = mpsc::channel::<String>();
        let reader = std::thread::spawn(move || {
            for line in BufReader::new(stdout).lines().map_while(Result::ok) { if tx.send(line).is_err() { break; } }
        });
        let mut current: Option<usize> = None;
        let (mut hung, mut done) = (false, false);
        loop {
            match rx.recv_timeout(Duration::from_secs(CHILD_LINE_WATCHDOG_S)) {
                Ok(line) => {
                    let (k, a) = line.split_once(' ').unwrap_or((&line, ""));
                    if k == "DONE" { done = true; continue; }
                    let Ok(k) = k.parse::<usize>() else { continue };
                    if a == "START" { current = Some(k); } else { answers.insert(k, a.to_string()); current = None; }
                }
                Err(mpsc::RecvTimeoutError::Timeout) => { hung = true; let _ = child.kill(); break; }
                Err(mpsc::RecvTimeoutError::Disconnected) => break,
            }
        }
        let status = child.wait().ok();
        let _ = reader.join();
        if status.and_then(|s| s.code()) == Some(2) { panic!("ibh child c05 {block}: set-up failure (exit 2)"); }
        if done { break; }
        match current {
            Some(k) => { answers.insert(k, if hung { "HANG".into() } else { "ABORT".into() }); start = k + 1; }
            None => {
                // died between two jobs (or before the first): charge the first unanswered job
                let k = (start..njobs).find(|k| !answers.contains_key(k));
                match k { Some(k) => { answers.insert(k, if hung { "HANG".into() } else { "ABORT".into() }); start = k + 1; } None => break }
            }
        }
    }
    answers
}

/// Run a block's jobs in child processes and judge the answers exactly like in-process runs (correspondence case +
/// reference + par-vs-seq + termination); a dead child = oracle failure `run-aborts-with-huge-fanout` on that job.
pub fn check_block_in_children(cx: &mut Ctx, block: &str, o: &XOpts, tag: &str) {
    if hang_gate(cx) { return; }
    let jobs = block_jobs(block, cx.seed, cx.tier);
    let answers = run_children(block, cx.seed, cx.tier, jobs.len());
    let mut seq_answer: Option<String> = None;
    let mut last_req = String::new();
    let mut threads_seen: std::collections::BTreeSet<String> = Default::default();
    for (k, (prog, mode)) in jobs.iter().enumerate() {
        let base = prog.request("-");
        if base != last_req { seq_answer = None; last_req = base; count_prog(cx, prog); }
        let reference = if o.vs_reference { Some(reference(prog)) } else { None };
        let Some(raw) = answers.get(&k).cloned() else {
            // the spawn cap was reached (far more than a hundred dead children): not run, and said so
            cx.count("skipped:child-spawn-cap-reached");
            let note = "RUN INCOMPLETE: more than 150 child processes died; the remaining child-process jobs were not run";
            if !cx.notes.iter().any(|n| n == note) { cx.notes.push(note.to_string()); }
            continue;
        };
        let (ans, extra) = match raw.split_once(" #threads=") { Some((a, t)) => (a.to_string(), Some(t.to_string())), None => (raw, None) };
        if let Some(t) = extra { threads_seen.insert(t); }
        // re-hydrate an Outcome that `judge` can canonicalise again (the child already applied the program's canon)
        let canon = prog.canon();
        let nontrivial = prog.src.len() >= 2 && !prog.steps.is_empty();
        let idx = cx.case(prog.request(&mode.enc()), ans.clone(), nontrivial);
        cx.count(&format!("mode:{}", match mode { XMode::Seq => "seq", XMode::Par(_) => "par", XMode::Collect => "collect()", XMode::ParAuto => "collect_par(None,None)", XMode::ParT(..) => "collect_par(Some(t),Some(n))" }));
        cx.count(&format!("outcome:{}", ans.split(' ').next().unwrap_or("")));
        cx.count(tag);
        if ans == "ABORT" {
            cx.oracle_fail(idx, "run-aborts-with-huge-fanout", format!("the child process (address-space limit {} MiB) died while running this program in mode {}", CHILD_AS_LIMIT_KIB / 1024, mode.enc()));
            continue;
        }
        if ans == "HANG" {
            cx.oracle_fail(idx, "run-does-not-terminate", format!("child process: no result within {CHILD_LINE_WATCHDOG_S} s in mode {}", mode.enc()));
            continue;
        }
        if *mode == XMode::Seq { seq_answer = Some(ans.clone()); }
        else if o.par_vs_seq {
            if let Some(sa) = &seq_answer { if *sa != ans {
                let sig = if matches!(mode, XMode::ParT(..)) { "collect-par-threads-differs-from-seq" } else { "par-differs-from-seq" };
                cx.oracle_fail(idx, sig, format!("seq={sa} {}={ans}", mode.enc()));
            } }
        }
        if let Some(r) = &reference {
            let want = ref_answer(r, canon);
            if want != ans { cx.oracle_fail(idx, "differs-from-reference", format!("mode={} real={ans} reference={want}", mode.enc())); }
        }
    }
    if !threads_seen.is_empty() {
        cx.notes.push(format!("{block}: rayon::current_num_threads() observed in the child after collect_par(Some(t), ..): {:?}", threads_seen));
    }
}

/// `IBH_TIMING=1`: print the wall time of a block to stderr (diagnostics only)
pub struct BlockTimer(&'static str, std::time::Instant);
impl BlockTimer { pub fn new(name: &'static str) -> Self { BlockTimer(name, std::time::Instant::now()) } }
impl Drop for BlockTimer {
    fn drop(&mut self) { if std::env::var("IBH_TIMING").is_ok() { eprintln!("[timing] {} {:.2}s", self.0, self.1.elapsed().as_secs_f64()); } }
}
