//! C19 — cloud object JSONL round-trips; glob expansion follows the documented syntax.
//!
//! Strings travel as `x<hex of UTF-8>` (empty string = `x`), records as opaque tokens `r<hex of their JSON>`.
//!
//!   GLOB2RE x<pat>                  -> x<regex source>                 (hook: readers::verif::glob_to_regex)
//!   GLOBPREFIX x<pat>               -> NONE | SOME x<prefix>           (hook: readers::verif::extract_prefix)
//!   GLOBMATCH x<pat> x<key>...      -> OK x<key>... | ERR <kind>       (REAL expand_cloud_glob on FakeObjectIO)
//!   GLOBREQ x<pat> x<key>...        -> same through expand_cloud_glob_required
//!   GLOBALL x<pat> x<alphabet> <n>  -> OK <count> x<key>...            (store = ALL keys of length <= n)
//!   CLOUDJSONL x<key> r...          -> W:<codec> R:OK r... | W:<codec> R:ERR
//!                                      (write_cloud_jsonl_vec, sniff the stored bytes, read_cloud_jsonl_vec)
//!   GLOBREAD x<pat> x<key>=r,r ...  -> OK r... | ERR <kind>            (write each object, read_cloud_jsonl_glob)
//!
//! Oracles (independent of the Lean model): expansion == keys accepted by a reference matcher written here
//! from the documented syntax (`*` within a segment, `?` one character, `**` anything, other characters
//! themselves), sorted; every accepted key starts with the listing prefix; read-back == written; the stored
//! object carries the codec that the key's extension names; glob read == concatenation in sorted key order.

use crate::ctx::{Ctx, guarded, hex};
use ironbeam::io::cloud::readers::{
    expand_cloud_glob, expand_cloud_glob_required, read_cloud_jsonl_glob, read_cloud_jsonl_vec, verif,
    write_cloud_jsonl_vec,
};
use ironbeam::io::cloud::{CloudResult, FakeObjectIO, ObjectIO, ObjectMetadata};
use serde::{Deserialize, Serialize};
use std::collections::BTreeSet;

const B: &str = "bkt";

fn xs(s: &str) -> String {
    format!("x{}", hex(s.as_bytes()))
}

// ---------------------------------------------------------------------------------------------
// reference matcher: the documented syntax, by dynamic programming over (pattern pos, key pos)
// ---------------------------------------------------------------------------------------------
fn ref_match(pat: &str, key: &str) -> bool {
    let p: Vec<char> = pat.chars().collect();
    let k: Vec<char> = key.chars().collect();
    let mut memo = vec![vec![None; k.len() + 1]; p.len() + 1];
    fn go(p: &[char], k: &[char], i: usize, j: usize, memo: &mut Vec<Vec<Option<bool>>>) -> bool {
        if let Some(v) = memo[i][j] {
            return v;
        }
        let r = if i == p.len() {
            j == k.len()
        } else if p[i] == '*' && i + 1 < p.len() && p[i + 1] == '*' {
            // `**`: any text
            (j..=k.len()).any(|m| go(p, k, i + 2, m, memo))
        } else if p[i] == '*' {
            // `*`: any text without '/'
            let mut ok = false;
            let mut m = j;
            loop {
                if go(p, k, i + 1, m, memo) {
                    ok = true;
                    break;
                }
                if m < k.len() && k[m] != '/' {
                    m += 1;
                } else {
                    break;
                }
            }
            ok
        } else if p[i] == '?' {
            j < k.len() && go(p, k, i + 1, j + 1, memo)
        } else {
            j < k.len() && k[j] == p[i] && go(p, k, i + 1, j + 1, memo)
        };
        memo[i][j] = Some(r);
        r
    }
    go(&p, &k, 0, 0, &mut memo)
}

/// The fake bucket behind a listing that comes back in a scrambled (reverse, then rotated) order and,
/// like a real object store, only honours the prefix: the sort in `expand_cloud_glob` must do the ordering.
#[derive(Clone)]
struct Scrambled(FakeObjectIO);
impl ObjectIO for Scrambled {
    fn put_object(&self, b: &str, k: &str, d: &[u8]) -> CloudResult<()> {
        self.0.put_object(b, k, d)
    }
    fn get_object(&self, b: &str, k: &str) -> CloudResult<Vec<u8>> {
        self.0.get_object(b, k)
    }
    fn delete_object(&self, b: &str, k: &str) -> CloudResult<()> {
        self.0.delete_object(b, k)
    }
    fn list_objects(&self, b: &str, prefix: Option<&str>) -> CloudResult<Vec<ObjectMetadata>> {
        let mut v = self.0.list_objects(b, prefix)?;
        v.reverse();
        if v.len() > 2 {
            let n = v.len() / 3;
            v.rotate_left(n);
        }
        Ok(v)
    }
    fn object_exists(&self, b: &str, k: &str) -> CloudResult<bool> {
        self.0.object_exists(b, k)
    }
    fn get_metadata(&self, b: &str, k: &str) -> CloudResult<ObjectMetadata> {
        self.0.get_metadata(b, k)
    }
    fn copy_object(&self, sb: &str, sk: &str, db: &str, dk: &str) -> CloudResult<()> {
        self.0.copy_object(sb, sk, db, dk)
    }
}

fn empty_bucket() -> Scrambled {
    let st = FakeObjectIO::new();
    // make the bucket exist even when it holds no key
    st.put_object(B, "\u{1}tmp", b"").unwrap();
    st.delete_object(B, "\u{1}tmp").unwrap();
    Scrambled(st)
}

fn mk_store(keys: &[String]) -> Scrambled {
    let st = empty_bucket();
    for k in keys {
        st.put_object(B, k, b"").unwrap();
    }
    st
}

fn keys_answer(r: &Result<Result<Vec<String>, String>, String>, with_count: bool) -> String {
    match r {
        Ok(Ok(v)) => {
            let mut s = String::from("OK");
            if with_count {
                s.push_str(&format!(" {}", v.len()));
            }
            for k in v {
                s.push(' ');
                s.push_str(&xs(k));
            }
            s
        }
        Ok(Err(kind)) => format!("ERR {kind}"),
        Err(_) => "PANIC".into(),
    }
}

/// the property's statement for one expansion
fn glob_oracle(cx: &mut Ctx, case: usize, pat: &str, universe: &BTreeSet<String>, real: &Result<Result<Vec<String>, String>, String>, required: bool) -> bool {
    let expected: Vec<String> = universe.iter().filter(|k| ref_match(pat, k)).cloned().collect();
    // listing by prefix never hides a match
    let prefix = verif::extract_prefix(pat);
    if let Some(p) = &prefix {
        if let Some(k) = expected.iter().find(|k| !k.starts_with(p.as_str())) {
            cx.oracle_fail(case, "glob-prefix-hides-match", format!("pattern {pat:?}: listing prefix {p:?} excludes matching key {k:?}"));
        }
        if !pat.starts_with(p.as_str()) || p.contains(['*', '?']) {
            cx.oracle_fail(case, "glob-prefix-not-literal-prefix", format!("pattern {pat:?}: prefix {p:?}"));
        }
    }
    match real {
        Ok(Ok(got)) => {
            if required && got.is_empty() {
                cx.oracle_fail(case, "glob-required-returns-empty", format!("pattern {pat:?}"));
            }
            let gset: BTreeSet<&String> = got.iter().collect();
            let eset: BTreeSet<&String> = expected.iter().collect();
            if let Some(k) = eset.difference(&gset).next() {
                let sig = if k.contains('\n') { "glob-misses-matching-key-with-newline" } else { "glob-misses-matching-key" };
                cx.oracle_fail(case, sig, format!("pattern {pat:?}: key {k:?} matches the documented syntax but is not returned"));
            } else if let Some(k) = gset.difference(&eset).next() {
                cx.oracle_fail(case, "glob-returns-nonmatching-key", format!("pattern {pat:?}: key {k:?} returned but does not match the documented syntax"));
            } else if *got != expected {
                cx.oracle_fail(case, "glob-not-sorted-or-duplicated", format!("pattern {pat:?}: got {got:?}, expected {expected:?}"));
            }
        }
        Ok(Err(kind)) => {
            if !(required && expected.is_empty() && kind == "NotFound") {
                cx.oracle_fail(case, "glob-expansion-error", format!("pattern {pat:?}: {kind} (expected {} keys)", expected.len()));
            }
        }
        Err(m) => cx.oracle_fail(case, "glob-expansion-panics", format!("pattern {pat:?}: {m}")),
    }
    !expected.is_empty() && expected.len() < universe.len()
}

fn one_match(cx: &mut Ctx, pat: &str, keys: &[String], required: bool) {
    let st = mk_store(keys);
    let real = guarded(|| {
        let r = if required { expand_cloud_glob_required(&st, B, pat) } else { expand_cloud_glob(&st, B, pat) };
        r.map_err(|e| format!("{:?}", e.kind))
    });
    let mut req = format!("{} {}", if required { "GLOBREQ" } else { "GLOBMATCH" }, xs(pat));
    for k in keys {
        req.push(' ');
        req.push_str(&xs(k));
    }
    let universe: BTreeSet<String> = keys.iter().cloned().collect();
    let i = cx.case(req, keys_answer(&real, false), false);
    let nt = glob_oracle(cx, i, pat, &universe, &real, required);
    cx.nontrivial[i] = nt;
    cx.count(if nt { "match:some-not-all" } else { "match:none-or-all" });
    cx.count(&format!("match:keys={}", keys.len().min(8)));
}

fn one_re(cx: &mut Ctx, pat: &str) {
    let real = guarded(|| verif::glob_to_regex(pat));
    let ans = match &real {
        Ok(s) => xs(s),
        Err(_) => "PANIC".into(),
    };
    let i = cx.case(format!("GLOB2RE {}", xs(pat)), ans, pat.chars().count() >= 2);
    if real.is_err() {
        cx.oracle_fail(i, "glob-to-regex-panics", format!("pattern {pat:?}"));
    }
    let realp = guarded(|| verif::extract_prefix(pat));
    let ans = match &realp {
        Ok(None) => "NONE".to_string(),
        Ok(Some(p)) => format!("SOME {}", xs(p)),
        Err(_) => "PANIC".into(),
    };
    cx.case(format!("GLOBPREFIX {}", xs(pat)), ans, pat.contains(['*', '?']));
}

fn all_strings(alpha: &[&str], n: usize) -> Vec<String> {
    let mut out = vec![String::new()];
    let mut frontier = vec![String::new()];
    for _ in 0..n {
        let mut next = vec![];
        for s in &frontier {
            for a in alpha {
                next.push(format!("{s}{a}"));
            }
        }
        out.extend(next.iter().cloned());
        frontier = next;
    }
    out
}

// ---------------------------------------------------------------------------------------------
// JSONL
// ---------------------------------------------------------------------------------------------
#[derive(Serialize, Deserialize, Clone, Debug, PartialEq)]
struct Rec {
    id: i64,
    s: String,
    tags: Vec<String>,
    o: Option<i64>,
}

fn rec_tok(r: &Rec) -> String {
    format!("r{}", hex(serde_json::to_string(r).unwrap().as_bytes()))
}

fn sniff(bytes: &[u8]) -> &'static str {
    if bytes.starts_with(&[0x1f, 0x8b]) {
        "gzip"
    } else if bytes.starts_with(&[0x28, 0xb5, 0x2f, 0xfd]) {
        "zstd"
    } else if bytes.starts_with(b"BZh") {
        "bzip2"
    } else if bytes.starts_with(&[0xfd, 0x37, 0x7a, 0x58, 0x5a, 0x00]) {
        "xz"
    } else {
        "plain"
    }
}

/// the documented rule: the key's extension (case-insensitive) names the codec
fn doc_codec(key: &str) -> &'static str {
    let k = key.to_lowercase();
    if k.ends_with(".gz") || k.ends_with(".gzip") {
        "gzip"
    } else if k.ends_with(".zst") || k.ends_with(".zstd") {
        "zstd"
    } else if k.ends_with(".bz2") || k.ends_with(".bzip2") {
        "bzip2"
    } else if k.ends_with(".xz") {
        "xz"
    } else {
        "plain"
    }
}

fn one_jsonl(cx: &mut Ctx, key: &str, recs: &[Rec]) {
    let st = FakeObjectIO::new();
    let w = guarded(|| write_cloud_jsonl_vec(&st, B, key, recs).map_err(|e| format!("{:?}", e.kind)));
    let stored = st.get_object(B, key).ok();
    let wc = match (&w, &stored) {
        (Ok(Ok(_)), Some(b)) => sniff(b).to_string(),
        (Ok(Err(k)), _) => format!("ERR-{k}"),
        _ => "PANIC".into(),
    };
    let r = guarded(|| read_cloud_jsonl_vec::<Rec, _>(&st, B, key).map_err(|e| format!("{:?}", e.kind)));
    let mut ans = format!("W:{wc} ");
    match &r {
        Ok(Ok(v)) => {
            ans.push_str("R:OK");
            for x in v {
                ans.push(' ');
                ans.push_str(&rec_tok(x));
            }
        }
        Ok(Err(_)) => ans.push_str("R:ERR"),
        Err(_) => ans.push_str("R:PANIC"),
    }
    let mut req = format!("CLOUDJSONL {}", xs(key));
    for x in recs {
        req.push(' ');
        req.push_str(&rec_tok(x));
    }
    let i = cx.case(req, ans, !recs.is_empty() && doc_codec(key) != "plain");
    cx.count(&format!("jsonl:codec={wc}"));
    cx.count(&format!("jsonl:recs={}", recs.len().min(4)));
    if wc != doc_codec(key) {
        cx.oracle_fail(i, "cloud-jsonl-writer-ignores-extension", format!("key {key:?}: stored object is {wc}, the extension names {}", doc_codec(key)));
    }
    match &r {
        Ok(Ok(v)) if v.as_slice() == recs => {}
        other => {
            let sig = "cloud-jsonl-roundtrip-fails";
            cx.oracle_fail(i, sig, format!("key {key:?}, {} records written ({wc}); read back: {}", recs.len(), match other {
                Ok(Ok(v)) => format!("{} different records", v.len()),
                Ok(Err(k)) => format!("Err({k})"),
                Err(m) => format!("panic {m}"),
            }));
        }
    }
}

fn one_read(cx: &mut Ctx, pat: &str, objs: &[(String, Vec<Rec>)]) {
    let st = empty_bucket();
    let mut req = format!("GLOBREAD {}", xs(pat));
    let mut last: std::collections::BTreeMap<String, Vec<Rec>> = Default::default();
    for (k, rs) in objs {
        let _ = guarded(|| write_cloud_jsonl_vec(&st, B, k, rs));
        last.insert(k.clone(), rs.clone());
        req.push_str(&format!(" {}={}", xs(k), rs.iter().map(rec_tok).collect::<Vec<_>>().join(",")));
    }
    let r = guarded(|| read_cloud_jsonl_glob::<Rec, _>(&st, B, pat).map_err(|e| format!("{:?}", e.kind)));
    let ans = match &r {
        Ok(Ok(v)) => {
            let mut s = String::from("OK");
            for x in v {
                s.push(' ');
                s.push_str(&rec_tok(x));
            }
            s
        }
        Ok(Err(k)) => format!("ERR {k}"),
        Err(_) => "PANIC".into(),
    };
    let expected: Vec<Rec> = last.iter().filter(|(k, _)| ref_match(pat, k)).flat_map(|(_, v)| v.clone()).collect();
    let nmatch = last.keys().filter(|k| ref_match(pat, k)).count();
    let i = cx.case(req, ans, nmatch >= 2);
    cx.count(&format!("read:matching-objects={}", nmatch.min(4)));
    match &r {
        Ok(Ok(v)) if *v == expected => {}
        Ok(Ok(v)) => cx.oracle_fail(i, "glob-read-not-sorted-concatenation", format!("pattern {pat:?}: got {} records, expected {}", v.len(), expected.len())),
        Ok(Err(k)) => cx.oracle_fail(i, "glob-read-error", format!("pattern {pat:?}: {k}")),
        Err(m) => cx.oracle_fail(i, "glob-read-panics", format!("pattern {pat:?}: {m}")),
    }
}

// ---------------------------------------------------------------------------------------------
// generators
// ---------------------------------------------------------------------------------------------
const LIT: &[&str] = &[
    "/", "/", ".", ".", "a", "a", "b", "c", "d", "0", "1", "-", "_", "=", "+", "(", ")", "[", "]", "{", "}", "^", "$", "|", "\\", "#", "~", "&",
    " ", ",", ":", "!", "<", ">", "é", "日", "\n", "\r", "\t", "A", "𝄞", "\u{e000}", "\u{7f}",
];
const WILD: &[&str] = &["*", "*", "**", "?"];
const SEG: &[&str] = &["a", "b", "ab", "", ".", "x.y", "2024-01", "data", "+", "(", "é", "a\nb", "\n"];

/// at most 5 star tokens per random pattern: the Lean model's matcher is the plain backtracking definition of
/// the language (exponential in the number of stars on a failing key), the real engine is linear
fn gen_pattern(cx: &mut Ctx, max: usize) -> Vec<String> {
    let n = cx.rng.below(max + 1);
    let mut stars = 0;
    (0..n)
        .map(|_| {
            if cx.rng.chance(3, 10) {
                let w = cx.rng.pick(WILD).to_string();
                if w != "?" {
                    stars += 1;
                }
                if stars > 5 { "?".to_string() } else { w }
            } else {
                cx.rng.pick(LIT).to_string()
            }
        })
        .collect()
}

fn instantiate(cx: &mut Ctx, toks: &[String]) -> String {
    let mut s = String::new();
    for t in toks {
        match t.as_str() {
            "*" => {
                for _ in 0..cx.rng.below(3) {
                    let c = *cx.rng.pick(LIT);
                    if c != "/" {
                        s.push_str(c);
                    }
                }
            }
            "**" => {
                for _ in 0..cx.rng.below(4) {
                    s.push_str(*cx.rng.pick(LIT));
                }
            }
            "?" => s.push_str(*cx.rng.pick(LIT)),
            c => s.push_str(c),
        }
    }
    s
}

fn mutate(cx: &mut Ctx, s: &str) -> String {
    let mut cs: Vec<char> = s.chars().collect();
    match cx.rng.below(5) {
        0 => {
            if !cs.is_empty() {
                let i = cx.rng.below(cs.len());
                cs.remove(i);
            }
        }
        1 => {
            let i = cx.rng.below(cs.len() + 1);
            let c = cx.rng.pick(LIT).chars().next().unwrap();
            cs.insert(i, c);
        }
        2 => {
            if !cs.is_empty() {
                let i = cx.rng.below(cs.len());
                cs[i] = cx.rng.pick(LIT).chars().next().unwrap();
            }
        }
        3 => cs.push(cx.rng.pick(LIT).chars().next().unwrap()),
        _ => cs.insert(0, cx.rng.pick(LIT).chars().next().unwrap()),
    }
    cs.into_iter().collect()
}

fn gen_keys(cx: &mut Ctx, toks: &[String]) -> Vec<String> {
    let n = cx.rng.below(13);
    let mut keys = vec![];
    for _ in 0..n {
        let k = match cx.rng.below(10) {
            0..=4 => instantiate(cx, toks),
            5..=7 => {
                let base = instantiate(cx, toks);
                mutate(cx, &base)
            }
            8 => toks.concat(), // the pattern text itself as a key
            _ => {
                let m = cx.rng.below(6);
                (0..m).map(|_| *cx.rng.pick(LIT)).collect::<String>()
            }
        };
        keys.push(k);
    }
    keys
}

const STR_POOL: &[&str] = &[
    "", " ", "x", "line1\nline2", "\r", "a\r\n", "BZh91AY&SY", "\u{1f}\u{8b}", "日本語", "\"q\"", "\\", "\u{85}", "  lead", "trail  ", "{}", "[1,2]", "\u{2028}", "\u{0}", "é",
];

fn gen_rec(cx: &mut Ctx) -> Rec {
    let id = match cx.rng.below(4) {
        0 => 0,
        1 => i64::MIN,
        2 => i64::MAX,
        _ => cx.rng.range(-1000, 1000),
    };
    let nt = cx.rng.below(3);
    Rec {
        id,
        s: cx.rng.pick(STR_POOL).to_string(),
        tags: (0..nt).map(|_| cx.rng.pick(STR_POOL).to_string()).collect(),
        o: if cx.rng.chance(1, 2) { Some(cx.rng.range(-5, 5)) } else { None },
    }
}

fn gen_recs(cx: &mut Ctx) -> Vec<Rec> {
    let n = match cx.rng.below(6) {
        0 => 0,
        1 => 1,
        2 => 2,
        3 => 3,
        4 => 5,
        _ => cx.rng.below(40),
    };
    (0..n).map(|_| gen_rec(cx)).collect()
}

const STEMS: &[&str] = &[
    "data", "dir/data", "dir/", "", "dir/.", "a.b", "dir/..", "x.gz/file", "x.gz/", "x.gz/.", "d.d/e", "K", "İ", "dir/sub/.hidden", "日本/データ", "a b", "\n", "out.jsonl", "..", ".",
];
const EXTS: &[&str] = &[
    "", ".gz", ".GZ", ".Gz", ".gzip", ".GZIP", ".zst", ".zstd", ".ZsT", ".bz2", ".BZ2", ".bzip2", ".xz", ".XZ", ".jsonl", ".jsonl.gz", ".tar.gz", ".gz.bak", ".gz.", "gz", ".g z", ".gz ",
    ".zstd.gz", ".xz/", ".gz/x", "..gz", ".gzİp", ".\u{212a}z", ".zs",
];

pub fn tables(out: &mut String) {
    // the escape set of the running `glob_to_regex`, probed on every ASCII character
    let head_tail = verif::glob_to_regex("");
    let head = head_tail.strip_suffix('$').unwrap_or(&head_tail).to_string();
    let mut esc: Vec<u32> = vec![];
    let mut plain: Vec<u32> = vec![];
    let mut odd: Vec<u32> = vec![];
    for n in 0u32..128 {
        let c = char::from_u32(n).unwrap();
        if c == '*' || c == '?' {
            continue;
        }
        let r = verif::glob_to_regex(&c.to_string());
        let body = r.strip_prefix(head.as_str()).and_then(|x| x.strip_suffix('$'));
        match body {
            Some(b) if b == format!("\\{c}") => esc.push(n),
            Some(b) if b == c.to_string() => plain.push(n),
            _ => odd.push(n),
        }
    }
    let list = |v: &[u32]| v.iter().map(|n| format!("Char.ofNat {n}")).collect::<Vec<_>>().join(", ");
    out.push_str("/-- C19: ASCII characters that the running `glob_to_regex` emits as `\\c` (probed one by one) -/\n");
    out.push_str(&format!("def escapeSet : List Char := [{}]\n", list(&esc)));
    out.push_str("/-- C19: ASCII characters (other than `*`, `?`) whose emission is neither `c` nor `\\c` -/\n");
    out.push_str(&format!("def escapeOdd : List Char := [{}]\n", list(&odd)));
    out.push_str("/-- C19: what `glob_to_regex` puts before the translated pattern -/\n");
    out.push_str(&format!("def regexHead : List Char := [{}]\n\n", list(&head.chars().map(|c| c as u32).collect::<Vec<_>>())));
    let _ = plain;
}

pub fn run(cx: &mut Ctx) {
    // ---- (1) corpus: design witnesses and minimised past failures -------------------------------
    let r1 = Rec { id: 1, s: "x".into(), tags: vec![], o: None };
    one_jsonl(cx, "dir/.gz", &[r1.clone()]); // DESIGN §8 #16: written plain, read through gzip
    one_jsonl(cx, ".zst", &[r1.clone(), r1.clone()]);
    one_jsonl(cx, "dir/.gz", &[]);
    one_jsonl(cx, "x.gz/", &[r1.clone()]);
    one_jsonl(cx, "data.jsonl.GZ", &[r1.clone()]);
    one_match(cx, "a?c", &["a\nc".into(), "abc".into(), "a/c".into()], false); // `.` does not match \n without (?s)
    one_match(cx, "**", &["a\nb".into(), "x".into()], false);
    one_match(cx, "a/**/b", &["a/b".into(), "a//b".into(), "a/x/b".into(), "a/x/y/b".into()], false);
    one_match(cx, "logs/2024-01-*/data.jsonl", &["logs/2024-01-01/data.jsonl".into(), "logs/2024-01-02/x/data.jsonl".into(), "logs/2024-02-01/data.jsonl".into()], false);
    one_match(cx, "a+(b)[c]{d}^$|\\.#-~&", &["a+(b)[c]{d}^$|\\.#-~&".into(), "aa(b)[c]{d}^$|\\.#-~&".into()], false);
    one_match(cx, "*", &[], true);
    // long patterns (beyond the 1024-byte key limit of real stores; the regex crate's compiled-size limit,
    // not modelled, only rejects patterns with several thousand wildcards)
    one_match(cx, &"?".repeat(300), &["x".repeat(300), "x".repeat(299), "/".repeat(300), "x".repeat(301)], false);
    one_match(cx, &format!("{}*{}", "ab".repeat(150), "./".repeat(100)), &[format!("{}{}", "ab".repeat(150), "./".repeat(100)), format!("{}zz{}", "ab".repeat(150), "./".repeat(100)), format!("{}z/z{}", "ab".repeat(150), "./".repeat(100))], false);
    one_match(cx, &"**/".repeat(6), &["x/".repeat(6), "x/".repeat(5), "xy/z/".repeat(6), "/".repeat(6)], false);
    for p in ["", "*", "**", "***", "****", "?", "a*", "*a", "a**b", "a.b", "[a]", "a\\b", "^$", "x{1}", "a|b", "(?s)", "\n", "é*日"] {
        one_re(cx, p);
    }

    // ---- (2) small-scope exhaustive ----------------------------------------------------------------
    let ptoks: &[&str] = &["*", "**", "?", "/", ".", "a"];
    let pn = cx.budget(4, 5);
    let kalpha: &[&str] = &["/", ".", "a", "b", "\n", "+"];
    let kn = 4;
    let pats = all_strings(ptoks, pn);
    let pats: Vec<String> = pats.into_iter().collect::<BTreeSet<_>>().into_iter().collect();
    let keys = all_strings(kalpha, kn);
    let universe: BTreeSet<String> = keys.iter().cloned().collect();
    let st = mk_store(&keys);
    let alpha_s: String = kalpha.concat();
    for p in &pats {
        let real = guarded(|| expand_cloud_glob(&st, B, p).map_err(|e| format!("{:?}", e.kind)));
        let i = cx.case(format!("GLOBALL {} {} {kn}", xs(p), xs(&alpha_s)), keys_answer(&real, true), false);
        let nt = glob_oracle(cx, i, p, &universe, &real, false);
        cx.nontrivial[i] = nt;
        cx.count(if nt { "all:some-not-all" } else { "all:none-or-all" });
        one_re(cx, p);
    }
    cx.exhaustive_blocks.push(format!(
        "glob: all {} distinct patterns of <= {pn} tokens over {{*,**,?,/,.,a}} x all {} keys of length <= {kn} over {{/,.,a,b,\\n,+}} (one store holding every key; {} pattern-key pairs)",
        pats.len(), keys.len(), pats.len() * keys.len()
    ));
    // every single ASCII character as a pattern against every single ASCII character as a key
    let ascii: Vec<String> = (0u32..128).map(|n| char::from_u32(n).unwrap().to_string()).collect();
    for p in &ascii {
        one_re(cx, p);
        one_match(cx, p, &ascii, false);
        one_match(cx, &format!("a{p}b"), &ascii.iter().map(|k| format!("a{k}b")).collect::<Vec<_>>(), false);
    }
    cx.exhaustive_blocks.push("glob: each of the 128 ASCII characters as a pattern (alone and between letters) x each of the 128 ASCII characters as a key".into());
    // codec choice: stems x extensions x {0,1,3 records}
    let r2 = Rec { id: -7, s: "line1\nline2".into(), tags: vec!["BZh91AY&SY".into(), "".into()], o: Some(3) };
    let r3 = Rec { id: i64::MAX, s: "日本語".into(), tags: vec!["\r".into()], o: None };
    for stem in STEMS {
        for ext in EXTS {
            let key = format!("{stem}{ext}");
            one_jsonl(cx, &key, &[r1.clone(), r2.clone(), r3.clone()]);
            if cx.tier != crate::ctx::Tier::Quick || ext.len() <= 4 {
                one_jsonl(cx, &key, &[]);
                one_jsonl(cx, &key, &[r2.clone()]);
            }
        }
    }
    cx.exhaustive_blocks.push(format!("jsonl: {} key stems x {} extensions (case variants, dot-files, directories named like archives) x record vectors of 0/1/3", STEMS.len(), EXTS.len()));

    // ---- (3) random ---------------------------------------------------------------------------------
    let rounds = cx.budget(4000, 40000);
    for _ in 0..rounds {
        let toks = gen_pattern(cx, 12);
        let pat = toks.concat();
        one_re(cx, &pat);
        let keys = gen_keys(cx, &toks);
        let required = cx.rng.chance(1, 8);
        one_match(cx, &pat, &keys, required);
    }
    // segment-structured patterns and keys (shared prefixes, wildcard at position 0, `**` in the middle)
    let rounds = cx.budget(2500, 25000);
    for _ in 0..rounds {
        let nseg = 1 + cx.rng.below(4);
        let mut toks: Vec<String> = vec![];
        for i in 0..nseg {
            if i > 0 {
                toks.push("/".into());
            }
            match cx.rng.below(6) {
                0 => toks.push("*".into()),
                1 => toks.push("**".into()),
                2 => {
                    toks.push((*cx.rng.pick(SEG)).to_string());
                    toks.push("*".into());
                }
                3 => {
                    toks.push("*".into());
                    toks.push((*cx.rng.pick(SEG)).to_string());
                }
                4 => {
                    toks.push("?".into());
                    toks.push((*cx.rng.pick(SEG)).to_string());
                }
                _ => toks.push((*cx.rng.pick(SEG)).to_string()),
            }
        }
        let pat = toks.concat();
        let nk = cx.rng.below(10);
        let mut keys = vec![];
        for _ in 0..nk {
            let ns = 1 + cx.rng.below(4);
            let k = (0..ns).map(|_| (*cx.rng.pick(SEG)).to_string()).collect::<Vec<_>>().join("/");
            keys.push(k);
        }
        for _ in 0..cx.rng.below(4) {
            // instantiate token by token; multi-character literal tokens are copied
            keys.push(instantiate(cx, &toks));
        }
        one_match(cx, &pat, &keys, false);
        cx.count("match:segment-structured");
    }
    let rounds = cx.budget(600, 6000);
    for _ in 0..rounds {
        let stem = if cx.rng.chance(1, 2) {
            (*cx.rng.pick(STEMS)).to_string()
        } else {
            let m = cx.rng.below(8);
            (0..m).map(|_| *cx.rng.pick(LIT)).collect::<String>()
        };
        let ext = *cx.rng.pick(EXTS);
        let recs = gen_recs(cx);
        one_jsonl(cx, &format!("{stem}{ext}"), &recs);
    }
    let rounds = cx.budget(600, 6000);
    for _ in 0..rounds {
        let no = 1 + cx.rng.below(7);
        let mut objs = vec![];
        for _ in 0..no {
            let dir = *cx.rng.pick(&["", "d/", "d/e/", "logs/2024-01-", "a.b/"]);
            let name = *cx.rng.pick(&["x", "y", "data", "part-0", "part-1", ".h", "", "é"]);
            let ext = *cx.rng.pick(&["", ".jsonl", ".jsonl.gz", ".GZ", ".zst", ".bz2", ".xz", ".gz"]);
            let n = cx.rng.below(4);
            objs.push((format!("{dir}{name}{ext}"), (0..n).map(|_| gen_rec(cx)).collect::<Vec<_>>()));
        }
        let pat = match cx.rng.below(8) {
            0 | 6 => "**".to_string(),
            7 => "**.*".to_string(),
            1 => "d/*".to_string(),
            2 => "*".to_string(),
            3 => "**/*.g?".to_string(),
            4 => "d/**".to_string(),
            _ => {
                if objs.is_empty() { "?".to_string() } else {
                    let k = objs[cx.rng.below(objs.len())].0.clone();
                    let cs: Vec<char> = k.chars().collect();
                    if cs.is_empty() { "*".to_string() } else {
                        let i = cx.rng.below(cs.len());
                        let mut p: String = cs[..i].iter().collect();
                        p.push_str(*cx.rng.pick(WILD));
                        p
                    }
                }
            }
        };
        one_read(cx, &pat, &objs);
    }
}
