//! C19 — cloud object JSONL round-trips; glob expansion follows the documented syntax.
//!
//! Strings travel as `x<hex of UTF-8>` (empty string = `x`), records as opaque tokens `r<hex of their JSON>`.
//!
//!   GLOB2RE x<pat>                  -> x<regex source>                 (hook: readers::verif::glob_to_regex)
//!   GLOBPREFIX x<pat>               -> NONE | SOME x<prefix>           (hook: readers::verif::extract_prefix)
//!   GLOBMATCH x<pat> x<key>...      -> <L> OK x<key>... | <L> ERR <kind> | ERR <kind>
//!                                      (REAL expand_cloud_glob on FakeObjectIO; <L> = what the store wrapper saw
//!                                      as the argument of `list_objects`: PNONE | Px<prefix>, one token per call)
//!   GLOBREQ x<pat> x<key>...        -> same through expand_cloud_glob_required
//!   GLOBALL x<pat> x<alphabet> <n>  -> <L> OK <count> x<key>...        (store = ALL keys of length <= n)
//!   REFMATCH x<pat> x<key>...       -> M:<bit per key>                 (harness `ref_match` vs the model's `globMatch`)
//!   REFALL x<pat> x<alphabet> <n>   -> N <count> x<key>...             (the same two references over ALL keys)
//!   CLOUDJSONL x<key> r...          -> W:<codec> R:OK r... | W:<codec> R:ERR
//!                                      (write_cloud_jsonl_vec, sniff the stored bytes, read_cloud_jsonl_vec)
//!   GLOBREAD x<pat> x<key>=r,r ...  -> OK r... | ERR <kind>            (write each object, read_cloud_jsonl_glob)
//!   CLOUDNF x<key> q<x>;<o>;<v>,... -> W:<codec> R:OK q... | W:<codec> R:ERR
//!                                      (float-bearing records `{x: f64, o: Option<f64>, v: Vec<f32>}` given
//!                                      structurally: a float is `f<hex of its JSON text>` | nan | pinf | ninf, `<o>`
//!                                      may be `-`; the stream that holds the NON-FINITE values — see below)
//!   CLOUDBIG x<key> <n> x<key2> <m> x<pat> -> W:<codec> R:OK <n> G:OK <count>
//!                                      (one object of 1-4 MiB of incompressible strings; contents judged by the
//!                                      oracle only, the model counts)
//!
//! SCOPE ASSUMPTION (checked, reported per record type): the round-trip oracle judges records JSON can carry,
//! `from_str(to_string(r)) == r` bit for bit (`Lawful.de_ser` of `Props/C19.lean`). Every generated record is
//! tested against every `Lawful` field on the real serde_json (`lawful:<type>:<field>=ok|VIOLATED` in the
//! evidence, summarised in the notes). Records holding NaN / +-inf are outside JSON's value space (serde_json
//! writes `null`, `write_cloud_jsonl_vec` returns Ok, reading fails or yields `None`): they are generated ONLY
//! in the `CLOUDNF` stream, whose documented behaviour is compared model-vs-real and NOT judged by the
//! round-trip oracle (the oracle there: the substitution never touches a finite value, count or order).
//!
//! Oracles (independent of the Lean model): expansion == keys accepted by a reference matcher written here
//! from the documented syntax (`*` within a segment, `?` one character, `**` anything, other characters
//! themselves), sorted; every accepted key starts with the prefix the store was ACTUALLY asked to list by
//! (recorded by the store wrapper) and with the helper's return value; exactly one listing per expansion;
//! read-back == written (four record types); the stored object carries the codec that the key's extension
//! names (table of documented extensions, ASCII-case-insensitive suffix test — not the writer's chain);
//! glob read == concatenation in sorted key order; the stored object, decoded by the codec crate itself (flate2 /
//! zstd / bzip2 / xz2, not ironbeam's `compression`), is the JSONL text of the records (`…-stored-object-wrong`:
//! a write-side defect is told apart from a read-side one); float-bearing records (`f64`, `Option<f64>`,
//! `Vec<f32>`: every finite kind incl. `-0.0`, subnormals, extremes, arbitrary bit patterns) compared BIT FOR BIT;
//! one object of 2 MiB (quick) / 4 MiB (thorough) of incompressible text per codec and plain, written, read and
//! read by glob (`cloud-jsonl-large-object-*`).
//! `**` is "any text" and the `/` around it are ordinary characters (`a/**/b` accepts `a//b`, not `a/b`) — the
//! reading of the property statement; see `Props/C19.lean` ("how `**` is read").

use crate::ctx::{Ctx, guarded, hex};
use ironbeam::io::cloud::readers::{
    expand_cloud_glob, expand_cloud_glob_required, read_cloud_jsonl_glob, read_cloud_jsonl_vec, verif,
    write_cloud_jsonl_vec,
};
use ironbeam::io::cloud::{CloudResult, FakeObjectIO, ObjectIO, ObjectMetadata};
use serde::{Deserialize, Serialize};
use std::collections::{BTreeMap, BTreeSet};
use std::io::Read;
use std::sync::{Arc, Mutex};

const B: &str = "bkt";

fn xs(s: &str) -> String {
    format!("x{}", hex(s.as_bytes()))
}

// ---------------------------------------------------------------------------------------------
// reference matcher: the documented syntax, by dynamic programming over (pattern pos, key pos)
// ---------------------------------------------------------------------------------------------
fn ref_match(pat: &str, key: &str) -> bool {
    let p: Vec<char> = pat.chars().collect();
    let k: Vec<char> = key.chars().collect();
    let mut memo = vec![vec![None; k.len() + 1]; p.len() + 1];
    fn go(p: &[char], k: &[char], i: usize, j: usize, memo: &mut Vec<Vec<Option<bool>>>) -> bool {
        if let Some(v) = memo[i][j] {
            return v;
        }
        let r = if i == p.len() {
            j == k.len()
        } else if p[i] == '*' && i + 1 < p.len() && p[i + 1] == '*' {
            // `**`: any text
            (j..=k.len()).any(|m| go(p, k, i + 2, m, memo))
        } else if p[i] == '*' {
            // `*`: any text without '/'
            let mut ok = false;
            let mut m = j;
            loop {
                if go(p, k, i + 1, m, memo) {
                    ok = true;
                    break;
                }
                if m < k.len() && k[m] != '/' {
                    m += 1;
                } else {
                    break;
                }
            }
            ok
        } else if p[i] == '?' {
            j < k.len() && go(p, k, i + 1, j + 1, memo)
        } else {
            j < k.len() && k[j] == p[i] && go(p, k, i + 1, j + 1, memo)
        };
        memo[i][j] = Some(r);
        r
    }
    go(&p, &k, 0, 0, &mut memo)
}

/// The fake bucket behind a listing that comes back in a scrambled (reverse, then rotated) order and,
/// like a real object store, only honours the prefix: the sort in `expand_cloud_glob` must do the ordering.
/// Every `list_objects` call is recorded with the prefix it was given (the property's "listing by prefix never
/// hides a match" is checked on the prefix the store actually received, not on a helper's return value).
#[derive(Clone)]
struct Scrambled(FakeObjectIO, Arc<Mutex<Vec<Option<String>>>>);
impl Scrambled {
    fn take_listing(&self) -> Vec<Option<String>> {
        std::mem::take(&mut *self.1.lock().unwrap_or_else(|e| e.into_inner()))
    }
}
impl ObjectIO for Scrambled {
    fn put_object(&self, b: &str, k: &str, d: &[u8]) -> CloudResult<()> {
        self.0.put_object(b, k, d)
    }
    fn get_object(&self, b: &str, k: &str) -> CloudResult<Vec<u8>> {
        self.0.get_object(b, k)
    }
    fn delete_object(&self, b: &str, k: &str) -> CloudResult<()> {
        self.0.delete_object(b, k)
    }
    fn list_objects(&self, b: &str, prefix: Option<&str>) -> CloudResult<Vec<ObjectMetadata>> {
        self.1.lock().unwrap_or_else(|e| e.into_inner()).push(prefix.map(str::to_string));
        let mut v = self.0.list_objects(b, prefix)?;
        v.reverse();
        if v.len() > 2 {
            let n = v.len() / 3;
            v.rotate_left(n);
        }
        Ok(v)
    }
    fn object_exists(&self, b: &str, k: &str) -> CloudResult<bool> {
        self.0.object_exists(b, k)
    }
    fn get_metadata(&self, b: &str, k: &str) -> CloudResult<ObjectMetadata> {
        self.0.get_metadata(b, k)
    }
    fn copy_object(&self, sb: &str, sk: &str, db: &str, dk: &str) -> CloudResult<()> {
        self.0.copy_object(sb, sk, db, dk)
    }
}

fn empty_bucket() -> Scrambled {
    let st = FakeObjectIO::new();
    // make the bucket exist even when it holds no key
    st.put_object(B, "\u{1}tmp", b"").unwrap();
    st.delete_object(B, "\u{1}tmp").unwrap();
    Scrambled(st, Arc::new(Mutex::new(vec![])))
}

fn mk_store(keys: &[String]) -> Scrambled {
    let st = empty_bucket();
    for k in keys {
        st.put_object(B, k, b"").unwrap();
    }
    st
}

fn listing_tok(listing: &[Option<String>]) -> String {
    listing
        .iter()
        .map(|p| match p {
            None => "PNONE".to_string(),
            Some(p) => format!("P{}", xs(p)),
        })
        .collect::<Vec<_>>()
        .join("+")
}

fn keys_answer(listing: &[Option<String>], r: &Result<Result<Vec<String>, String>, String>, with_count: bool) -> String {
    let body = keys_answer_body(r, with_count);
    if listing.is_empty() { body } else { format!("{} {body}", listing_tok(listing)) }
}

fn keys_answer_body(r: &Result<Result<Vec<String>, String>, String>, with_count: bool) -> String {
    match r {
        Ok(Ok(v)) => {
            let mut s = String::from("OK");
            if with_count {
                s.push_str(&format!(" {}", v.len()));
            }
            for k in v {
                s.push(' ');
                s.push_str(&xs(k));
            }
            s
        }
        Ok(Err(kind)) => format!("ERR {kind}"),
        Err(_) => "PANIC".into(),
    }
}

/// the property's statement for one expansion
fn glob_oracle(cx: &mut Ctx, case: usize, pat: &str, universe: &BTreeSet<String>, listing: &[Option<String>], real: &Result<Result<Vec<String>, String>, String>, required: bool) -> bool {
    let expected: Vec<String> = universe.iter().filter(|k| ref_match(pat, k)).cloned().collect();
    // the prefix the store was actually asked to list by: it must not hide a key the pattern accepts
    // (checked against the reference matcher, so it does not depend on what came back), and the bucket must
    // be listed exactly once per expansion
    if !matches!(real, Err(_)) && listing.len() != 1 {
        cx.oracle_fail(case, "glob-listing-call-count", format!("pattern {pat:?}: list_objects called {} times", listing.len()));
    }
    for p in listing.iter().flatten() {
        if let Some(k) = expected.iter().find(|k| !k.starts_with(p.as_str())) {
            cx.oracle_fail(case, "glob-listing-prefix-hides-match", format!("pattern {pat:?}: list_objects was called with prefix {p:?}, which excludes the matching key {k:?}"));
        }
    }
    match listing.first() {
        Some(None) => cx.count("listing:prefix=none"),
        Some(Some(p)) if p == pat => cx.count("listing:prefix=whole-pattern"),
        Some(Some(_)) => cx.count("listing:prefix=proper"),
        None => cx.count("listing:not-called"),
    }
    // listing by prefix never hides a match
    let prefix = verif::extract_prefix(pat);
    if let Some(p) = &prefix {
        if let Some(k) = expected.iter().find(|k| !k.starts_with(p.as_str())) {
            cx.oracle_fail(case, "glob-prefix-hides-match", format!("pattern {pat:?}: listing prefix {p:?} excludes matching key {k:?}"));
        }
        if !pat.starts_with(p.as_str()) || p.contains(['*', '?']) {
            cx.oracle_fail(case, "glob-prefix-not-literal-prefix", format!("pattern {pat:?}: prefix {p:?}"));
        }
    }
    match real {
        Ok(Ok(got)) => {
            if required && got.is_empty() {
                cx.oracle_fail(case, "glob-required-returns-empty", format!("pattern {pat:?}"));
            }
            let gset: BTreeSet<&String> = got.iter().collect();
            let eset: BTreeSet<&String> = expected.iter().collect();
            if let Some(k) = eset.difference(&gset).next() {
                let sig = if k.contains('\n') { "glob-misses-matching-key-with-newline" } else { "glob-misses-matching-key" };
                cx.oracle_fail(case, sig, format!("pattern {pat:?}: key {k:?} matches the documented syntax but is not returned"));
            } else if let Some(k) = gset.difference(&eset).next() {
                cx.oracle_fail(case, "glob-returns-nonmatching-key", format!("pattern {pat:?}: key {k:?} returned but does not match the documented syntax"));
            } else if *got != expected {
                cx.oracle_fail(case, "glob-not-sorted-or-duplicated", format!("pattern {pat:?}: got {got:?}, expected {expected:?}"));
            }
        }
        Ok(Err(kind)) => {
            if !(required && expected.is_empty() && kind == "NotFound") {
                cx.oracle_fail(case, "glob-expansion-error", format!("pattern {pat:?}: {kind} (expected {} keys)", expected.len()));
            }
        }
        Err(m) => cx.oracle_fail(case, "glob-expansion-panics", format!("pattern {pat:?}: {m}")),
    }
    !expected.is_empty() && expected.len() < universe.len()
}

fn one_match(cx: &mut Ctx, pat: &str, keys: &[String], required: bool) {
    let st = mk_store(keys);
    st.take_listing();
    let real = guarded(|| {
        let r = if required { expand_cloud_glob_required(&st, B, pat) } else { expand_cloud_glob(&st, B, pat) };
        r.map_err(|e| format!("{:?}", e.kind))
    });
    let listing = st.take_listing();
    let mut args = xs(pat);
    for k in keys {
        args.push(' ');
        args.push_str(&xs(k));
    }
    let universe: BTreeSet<String> = keys.iter().cloned().collect();
    let i = cx.case(format!("{} {args}", if required { "GLOBREQ" } else { "GLOBMATCH" }), keys_answer(&listing, &real, false), false);
    let nt = glob_oracle(cx, i, pat, &universe, &listing, &real, required);
    cx.nontrivial[i] = nt;
    // the two statements of the documented syntax (this file's `ref_match`, the model's `globMatch`) on the same pairs
    let bits: String = keys.iter().map(|k| if ref_match(pat, k) { '1' } else { '0' }).collect();
    cx.case(format!("REFMATCH {args}"), format!("M:{bits}"), nt);
    cx.count(if nt { "match:some-not-all" } else { "match:none-or-all" });
    cx.count(&format!("match:keys={}", keys.len().min(8)));
}

fn one_re(cx: &mut Ctx, pat: &str) {
    let real = guarded(|| verif::glob_to_regex(pat));
    let ans = match &real {
        Ok(s) => xs(s),
        Err(_) => "PANIC".into(),
    };
    let i = cx.case(format!("GLOB2RE {}", xs(pat)), ans, pat.chars().count() >= 2);
    if real.is_err() {
        cx.oracle_fail(i, "glob-to-regex-panics", format!("pattern {pat:?}"));
    }
    let realp = guarded(|| verif::extract_prefix(pat));
    let ans = match &realp {
        Ok(None) => "NONE".to_string(),
        Ok(Some(p)) => format!("SOME {}", xs(p)),
        Err(_) => "PANIC".into(),
    };
    cx.case(format!("GLOBPREFIX {}", xs(pat)), ans, pat.contains(['*', '?']));
}

fn all_strings(alpha: &[&str], n: usize) -> Vec<String> {
    let mut out = vec![String::new()];
    let mut frontier = vec![String::new()];
    for _ in 0..n {
        let mut next = vec![];
        for s in &frontier {
            for a in alpha {
                next.push(format!("{s}{a}"));
            }
        }
        out.extend(next.iter().cloned());
        frontier = next;
    }
    out
}

// ---------------------------------------------------------------------------------------------
// JSONL
// ---------------------------------------------------------------------------------------------
#[derive(Serialize, Deserialize, Clone, Debug, PartialEq)]
struct Rec {
    id: i64,
    s: String,
    tags: Vec<String>,
    o: Option<i64>,
}

/// a second record shape: an enum (unit / newtype / tuple / struct variants = JSON string, single-key objects
/// holding a number, an array, an object) — a serialised record need not start with `{`
#[derive(Serialize, Deserialize, Clone, Debug, PartialEq)]
enum Rec2 {
    Unit,
    N(i64),
    T(String, Vec<Option<bool>>),
    S { m: BTreeMap<String, u64>, u: () },
}

/// a float-bearing record: compared BIT FOR BIT (`-0.0 == 0.0` and `NaN != NaN` under `PartialEq`)
#[derive(Serialize, Deserialize, Clone, Debug)]
struct RecF {
    x: f64,
    o: Option<f64>,
    v: Vec<f32>,
}
impl RecF {
    fn finite(&self) -> bool {
        self.x.is_finite() && self.o.is_none_or(f64::is_finite) && self.v.iter().all(|f| f.is_finite())
    }
    /// `from_str(to_string(self))` is an `Ok`: every float outside an `Option` is finite
    fn readable(&self) -> bool {
        self.x.is_finite() && self.v.iter().all(|f| f.is_finite())
    }
}

/// what a record type must offer to be written, read back and compared
trait Record: Serialize + serde::de::DeserializeOwned + Clone + std::fmt::Debug {
    const NAME: &'static str;
    /// the same value (bit-exact on floats)
    fn same(&self, other: &Self) -> bool;
}
impl Record for Rec {
    const NAME: &'static str = "struct";
    fn same(&self, o: &Self) -> bool {
        self == o
    }
}
impl Record for Rec2 {
    const NAME: &'static str = "enum";
    fn same(&self, o: &Self) -> bool {
        self == o
    }
}
/// top-level JSON scalars / arrays as records: `"text"`, `null`, `[1,2]`
impl Record for String {
    const NAME: &'static str = "string";
    fn same(&self, o: &Self) -> bool {
        self == o
    }
}
impl Record for Option<Vec<i64>> {
    const NAME: &'static str = "option-vec";
    fn same(&self, o: &Self) -> bool {
        self == o
    }
}
impl Record for RecF {
    const NAME: &'static str = "float-struct";
    fn same(&self, o: &Self) -> bool {
        self.x.to_bits() == o.x.to_bits()
            && self.o.map(f64::to_bits) == o.o.map(f64::to_bits)
            && self.v.len() == o.v.len()
            && self.v.iter().zip(&o.v).all(|(a, b)| a.to_bits() == b.to_bits())
    }
}
/// a bare float as a record (`1.5`, `-0.0`, `5e-324`)
impl Record for f64 {
    const NAME: &'static str = "f64";
    fn same(&self, o: &Self) -> bool {
        self.to_bits() == o.to_bits()
    }
}

fn same_vec<T: Record>(a: &[T], b: &[T]) -> bool {
    a.len() == b.len() && a.iter().zip(b).all(|(x, y)| x.same(y))
}

/// `char::is_whitespace` is what `str::trim` uses
fn blank(s: &str) -> bool {
    s.trim().is_empty()
}

/// The hypotheses of the round-trip theorems (`Props/C19.lean::Lawful`) tested on ONE value with the real
/// serde_json, outside ironbeam; counted per record type and field. Returns the violated fields.
fn validate_lawful<T: Record>(cx: &mut Ctx, r: &T) -> Vec<&'static str> {
    let mut bad = vec![];
    let text = match serde_json::to_string(r) {
        Ok(t) => t,
        Err(_) => {
            cx.count(&format!("lawful:{}:ser=ERROR", T::NAME));
            return vec!["ser"];
        }
    };
    let checks: [(&'static str, bool); 4] = [
        ("ser_no_nl", !text.contains('\n')),
        ("ser_no_cr", !text.ends_with('\r')),
        ("ser_not_blank", !blank(&text)),
        ("de_ser", serde_json::from_str::<T>(&text).is_ok_and(|b| b.same(r))),
    ];
    for (f, ok) in checks {
        cx.count(&format!("lawful:{}:{f}={}", T::NAME, if ok { "ok" } else { "VIOLATED" }));
        if !ok {
            bad.push(f);
        }
    }
    bad
}

/// decoders of the codec crates themselves (not ironbeam's `compression` module): what the stored bytes say
fn indep_decode(codec: &str, bytes: &[u8]) -> Option<Vec<u8>> {
    let mut out = vec![];
    let ok = match codec {
        "plain" => {
            out.extend_from_slice(bytes);
            true
        }
        "gzip" => flate2::read::MultiGzDecoder::new(bytes).read_to_end(&mut out).is_ok(),
        "zstd" => zstd::stream::read::Decoder::new(bytes).and_then(|mut d| d.read_to_end(&mut out)).is_ok(),
        "bzip2" => bzip2::read::MultiBzDecoder::new(bytes).read_to_end(&mut out).is_ok(),
        "xz" => xz2::read::XzDecoder::new_multi_decoder(bytes).read_to_end(&mut out).is_ok(),
        _ => false,
    };
    ok.then_some(out)
}

/// the JSONL text the writer is documented to produce: each element on one line, followed by `\n`
fn expected_text<T: Serialize>(recs: &[T]) -> Vec<u8> {
    let mut v = vec![];
    for r in recs {
        serde_json::to_writer(&mut v, r).unwrap();
        v.push(b'\n');
    }
    v
}

/// the stored object, decoded by the codec crate itself, is the JSONL text of the records
/// (= `dec_enc` of the codec + the writer put ALL of the text through the encoder and finished it)
fn check_stored<T: Serialize>(cx: &mut Ctx, case: usize, sig: &str, key: &str, wc: &str, stored: Option<&Vec<u8>>, recs: &[T]) {
    let Some(bytes) = stored else { return };
    if wc != doc_codec(key) {
        return; // already reported as `cloud-jsonl-writer-ignores-extension`
    }
    let want = expected_text(recs);
    match indep_decode(wc, bytes) {
        Some(got) if got == want => cx.count(&format!("lawful:codec:{wc}:stored-decodes-to-written-text=ok")),
        Some(got) => {
            cx.count(&format!("lawful:codec:{wc}:stored-decodes-to-written-text=VIOLATED"));
            cx.oracle_fail(case, sig, format!("key {key:?} ({wc}): the stored object decodes (by the codec crate itself) to {} bytes, the {} records are {} bytes of JSONL{}", got.len(), recs.len(), want.len(),
                match got.iter().zip(&want).position(|(a, b)| a != b) { Some(p) => format!(", first difference at byte {p}"), None => String::new() }));
        }
        None => {
            cx.count(&format!("lawful:codec:{wc}:stored-decodes-to-written-text=VIOLATED"));
            cx.oracle_fail(case, sig, format!("key {key:?} ({wc}): the stored object ({} bytes) is not a complete {wc} stream", bytes.len()));
        }
    }
    if wc == "plain" {
        // `magic_plain`: uncompressed JSONL carries no compression signature
        cx.count(&format!("lawful:codec:plain:magic_plain={}", if sniff(bytes) == "plain" { "ok" } else { "VIOLATED" }));
    }
}

fn rec_tok<T: Serialize>(r: &T) -> String {
    format!("r{}", hex(serde_json::to_string(r).unwrap().as_bytes()))
}

fn sniff(bytes: &[u8]) -> &'static str {
    if bytes.starts_with(&[0x1f, 0x8b]) {
        "gzip"
    } else if bytes.starts_with(&[0x28, 0xb5, 0x2f, 0xfd]) {
        "zstd"
    } else if bytes.starts_with(b"BZh") {
        "bzip2"
    } else if bytes.starts_with(&[0xfd, 0x37, 0x7a, 0x58, 0x5a, 0x00]) {
        "xz"
    } else {
        "plain"
    }
}

/// the documented extensions (compression.rs module table, readers.rs "e.g. .gz, .zst, .bz2, .xz") and the
/// format each one names
const CODEC_EXTS: &[(&str, &str)] = &[(".gz", "gzip"), (".gzip", "gzip"), (".zst", "zstd"), (".zstd", "zstd"), (".bz2", "bzip2"), (".bzip2", "bzip2"), (".xz", "xz")];

/// the documented rule, stated without the writer's chain: the key's last characters, compared letter by letter
/// ignoring ASCII case, are one of the documented extensions (no documented extension is a suffix of another,
/// so at most one row applies; no non-ASCII character lower-cases to one of their letters)
fn doc_codec(key: &str) -> &'static str {
    let kc: Vec<char> = key.chars().collect();
    let mut found = "plain";
    for (ext, codec) in CODEC_EXTS {
        let ec: Vec<char> = ext.chars().collect();
        if kc.len() >= ec.len() && kc[kc.len() - ec.len()..].iter().zip(&ec).all(|(a, b)| a.eq_ignore_ascii_case(b)) {
            found = codec;
        }
    }
    found
}

/// every documented extension in lower, UPPER, Capitalised, aLtErNaTiNg and lowe-R (last letter only) case
fn ext_case_variants() -> Vec<String> {
    let mut out = vec![];
    for (ext, _) in CODEC_EXTS {
        let body = &ext[1..];
        let lower = body.to_string();
        let upper = body.to_ascii_uppercase();
        let mut cap = String::new();
        let mut alt = String::new();
        let mut last = String::new();
        let n = body.chars().count();
        for (i, c) in body.chars().enumerate() {
            cap.push(if i == 0 { c.to_ascii_uppercase() } else { c });
            alt.push(if i % 2 == 1 { c.to_ascii_uppercase() } else { c });
            last.push(if i + 1 == n { c.to_ascii_uppercase() } else { c });
        }
        for v in [lower, upper, cap, alt, last] {
            let e = format!(".{v}");
            if !out.contains(&e) {
                out.push(e);
            }
        }
    }
    out
}

/// round 5 — HISTORY: a write that FAILS in serialization (second record's `Serialize` errors after the first record
/// and part of the second were produced), then — same thread — ordinary writes. Nothing of the failed write may reach
/// a later object (a scratch buffer kept across calls would leak it): the
/// following `one_jsonl` cases check their stored bytes against the independently serialised records.
struct Bomb { id: i64, bomb: bool }
impl Serialize for Bomb {
    fn serialize<S: serde::Serializer>(&self, ser: S) -> Result<S::Ok, S::Error> {
        use serde::ser::SerializeMap;
        let mut m = ser.serialize_map(Some(2))?;
        m.serialize_entry("id", &self.id)?;
        if self.bomb { return Err(serde::ser::Error::custom("bomb")); }
        m.serialize_entry("tail", "x")?;
        m.end()
    }
}
fn failed_write_then(cx: &mut Ctx, key: &str, n_good: usize) {
    let st = FakeObjectIO::new();
    let mut recs: Vec<Bomb> = (0..n_good as i64).map(|i| Bomb { id: 2_000_000 + i, bomb: false }).collect();
    recs.push(Bomb { id: 1_000_003, bomb: true });
    let w = guarded(|| write_cloud_jsonl_vec(&st, B, key, &recs).map_err(|e| format!("{:?}", e.kind)));
    let i = cx.case(format!("ORACLE-ONLY failed-serialization-write {} good={n_good}", xs(key)), "-".into(), true);
    cx.count("jsonl:history=failed-serialization-first");
    // C19 states nothing about a write that fails: its outcome is recorded, not judged. What IS judged is the property
    // itself on the writes that follow (`one_jsonl`: stored bytes and round trip).
    let _ = i;
    cx.count(match &w { Ok(Err(_)) => "jsonl:failed-write=Err", Ok(Ok(_)) => "jsonl:failed-write=Ok", Err(_) => "jsonl:failed-write=PANIC" });
    if st.get_object(B, key).is_ok() { cx.count("jsonl:failed-write-left-an-object"); }
}

fn one_jsonl<T: Record>(cx: &mut Ctx, key: &str, recs: &[T]) {
    let mut violated: Vec<&'static str> = vec![];
    for r in recs {
        violated.extend(validate_lawful(cx, r));
    }
    let st = FakeObjectIO::new();
    let w = guarded(|| write_cloud_jsonl_vec(&st, B, key, recs).map_err(|e| format!("{:?}", e.kind)));
    let stored = st.get_object(B, key).ok();
    let wc = match (&w, &stored) {
        (Ok(Ok(_)), Some(b)) => sniff(b).to_string(),
        (Ok(Err(k)), _) => format!("ERR-{k}"),
        _ => "PANIC".into(),
    };
    let r = guarded(|| read_cloud_jsonl_vec::<T, _>(&st, B, key).map_err(|e| format!("{:?}", e.kind)));
    let mut ans = format!("W:{wc} ");
    match &r {
        Ok(Ok(v)) => {
            ans.push_str("R:OK");
            for x in v {
                ans.push(' ');
                ans.push_str(&rec_tok(x));
            }
        }
        Ok(Err(_)) => ans.push_str("R:ERR"),
        Err(_) => ans.push_str("R:PANIC"),
    }
    let mut req = format!("CLOUDJSONL {}", xs(key));
    for x in recs {
        req.push(' ');
        req.push_str(&rec_tok(x));
    }
    let i = cx.case(req, ans, !recs.is_empty() && doc_codec(key) != "plain");
    cx.count(&format!("jsonl:codec={wc}"));
    cx.count(&format!("jsonl:recs={}", recs.len().min(4)));
    cx.count(&format!("jsonl:record-type={}", T::NAME));
    if doc_codec(key) != "plain" && key.chars().rev().take_while(|c| *c != '.').any(|c| c.is_ascii_uppercase()) {
        cx.count(&format!("jsonl:upper-or-mixed-case-ext={}", doc_codec(key)));
    }
    if wc != doc_codec(key) {
        cx.oracle_fail(i, "cloud-jsonl-writer-ignores-extension", format!("key {key:?}: stored object is {wc}, the extension names {}", doc_codec(key)));
    }
    check_stored(cx, i, "cloud-jsonl-stored-object-wrong", key, &wc, stored.as_ref(), recs);
    match &r {
        Ok(Ok(v)) if same_vec(v, recs) => {}
        other => {
            let sig = "cloud-jsonl-roundtrip-fails";
            violated.sort_unstable();
            violated.dedup();
            cx.oracle_fail(i, sig, format!("key {key:?}, {} records of type {} written ({wc}); read back: {}{}", recs.len(), T::NAME, match other {
                Ok(Ok(v)) => format!("{} records, first difference at index {:?}", v.len(), v.iter().zip(recs).position(|(a, b)| !a.same(b))),
                Ok(Err(k)) => format!("Err({k})"),
                Err(m) => format!("panic {m}"),
            }, if violated.is_empty() { String::new() } else { format!(" [serde_json alone violates {violated:?} on these records]") }));
        }
    }
}

// ---- float-bearing records given structurally; the stream that holds the non-finite values ----------------
fn ftok64(x: f64) -> String {
    if x.is_nan() { "nan".into() } else if x == f64::INFINITY { "pinf".into() } else if x == f64::NEG_INFINITY { "ninf".into() } else { format!("f{}", hex(serde_json::to_string(&x).unwrap().as_bytes())) }
}
fn ftok32(x: f32) -> String {
    if x.is_nan() { "nan".into() } else if x == f32::INFINITY { "pinf".into() } else if x == f32::NEG_INFINITY { "ninf".into() } else { format!("f{}", hex(serde_json::to_string(&x).unwrap().as_bytes())) }
}
fn frec_tok(r: &RecF) -> String {
    format!("q{};{};{}", ftok64(r.x), r.o.map_or("-".to_string(), ftok64), r.v.iter().map(|f| ftok32(*f)).collect::<Vec<_>>().join(","))
}

fn one_nf(cx: &mut Ctx, key: &str, recs: &[RecF]) {
    let all_finite = recs.iter().all(RecF::finite);
    if all_finite {
        for r in recs {
            validate_lawful(cx, r);
        }
    } else {
        // outside the scope: counted, not validated as `Lawful`
        for r in recs {
            cx.count(if r.finite() { "nf:record=finite" } else if r.readable() { "nf:record=nonfinite-only-behind-option" } else { "nf:record=nonfinite-in-f64-or-vec" });
            if !r.finite() {
                // the record is outside the scope BECAUSE serde_json alone does not return it: confirmed per record
                let back = serde_json::to_string(r).ok().and_then(|t| serde_json::from_str::<RecF>(&t).ok());
                cx.count(if back.is_some_and(|b| b.same(r)) { "scope:float-struct:nonfinite-record:de_ser=holds (UNEXPECTED)" } else { "scope:float-struct:nonfinite-record:de_ser=violated by serde_json alone (why it is out of scope)" });
            }
        }
    }
    let st = FakeObjectIO::new();
    let w = guarded(|| write_cloud_jsonl_vec(&st, B, key, recs).map_err(|e| format!("{:?}", e.kind)));
    let stored = st.get_object(B, key).ok();
    let wc = match (&w, &stored) {
        (Ok(Ok(_)), Some(b)) => sniff(b).to_string(),
        (Ok(Err(k)), _) => format!("ERR-{k}"),
        _ => "PANIC".into(),
    };
    let r = guarded(|| read_cloud_jsonl_vec::<RecF, _>(&st, B, key).map_err(|e| format!("{:?}", e.kind)));
    let mut ans = format!("W:{wc} ");
    match &r {
        Ok(Ok(v)) => {
            ans.push_str("R:OK");
            for x in v {
                ans.push(' ');
                ans.push_str(&frec_tok(x));
            }
        }
        Ok(Err(_)) => ans.push_str("R:ERR"),
        Err(_) => ans.push_str("R:PANIC"),
    }
    let mut req = format!("CLOUDNF {}", xs(key));
    for x in recs {
        req.push(' ');
        req.push_str(&frec_tok(x));
    }
    let i = cx.case(req, ans, !recs.is_empty());
    cx.count(&format!("nf:codec={wc}"));
    if wc != doc_codec(key) {
        cx.oracle_fail(i, "cloud-jsonl-writer-ignores-extension", format!("key {key:?}: stored object is {wc}, the extension names {}", doc_codec(key)));
    }
    check_stored(cx, i, "cloud-jsonl-stored-object-wrong", key, &wc, stored.as_ref(), recs);
    if matches!(w, Err(_)) || matches!(r, Err(_)) {
        cx.oracle_fail(i, "cloud-jsonl-panics", format!("key {key:?}: write {w:?}"));
        return;
    }
    if all_finite {
        cx.count("nf:vector=all-finite(round-trip oracle applies)");
        if !matches!(&r, Ok(Ok(v)) if same_vec(v, recs)) {
            cx.oracle_fail(i, "cloud-jsonl-roundtrip-fails", format!("key {key:?}, {} finite float records written ({wc}); read back: {}", recs.len(), match &r {
                Ok(Ok(v)) => format!("{} records, first difference at index {:?}", v.len(), v.iter().zip(recs).position(|(a, b)| !a.same(b))),
                Ok(Err(k)) => format!("Err({k})"),
                Err(m) => format!("panic {m}"),
            }));
        }
        return;
    }
    // documented behaviour outside the scope (NOT judged): write Ok; read Err when a non-finite value sits where a
    // float is required, else Ok with the non-finite `Some` turned into `None`. Counted as observed:
    let expect_err = recs.iter().any(|r| !r.readable());
    cx.count(match (&r, expect_err) {
        (Ok(Err(_)), true) => "nf:vector=nonfinite, read Err (as documented)",
        (Ok(Ok(_)), false) => "nf:vector=nonfinite only behind Option, read Ok with None (as documented)",
        (Ok(Ok(_)), true) => "nf:vector=nonfinite, read Ok (NOT as documented)",
        _ => "nf:vector=nonfinite only behind Option, read Err (NOT as documented)",
    });
    // judged: whatever happens to the non-finite values, a FINITE value, the count and the order are never changed
    if let Ok(Ok(v)) = &r {
        let finite_kept = v.len() == recs.len()
            && v.iter().zip(recs).all(|(a, b)| {
                (!b.x.is_finite() || a.x.to_bits() == b.x.to_bits())
                    && (match b.o { Some(f) if f.is_finite() => a.o.map(f64::to_bits) == Some(f.to_bits()), None => a.o.is_none(), _ => true })
                    && a.v.len() == b.v.len()
                    && a.v.iter().zip(&b.v).all(|(p, q)| !q.is_finite() || p.to_bits() == q.to_bits())
            });
        if !finite_kept {
            cx.oracle_fail(i, "cloud-jsonl-nonfinite-record-corrupts-finite-data", format!("key {key:?}: {} records written, {} read; a finite value, the count or the order changed", recs.len(), v.len()));
        }
    }
}

// ---- one LARGE object: contents judged by the oracle only ----------------------------------------------------
fn one_big(cx: &mut Ctx, ext: &str, recs: &[Rec]) {
    let key = format!("big/part-0{ext}");
    let key2 = format!("big/part-1{ext}");
    let small = vec![Rec { id: 1, s: "tail".into(), tags: vec![], o: None }, Rec { id: 2, s: "".into(), tags: vec!["x".into()], o: Some(0) }];
    let pat = "big/part-*";
    let st = empty_bucket();
    let w = guarded(|| write_cloud_jsonl_vec(&st, B, &key, recs).map_err(|e| format!("{:?}", e.kind)));
    let _ = guarded(|| write_cloud_jsonl_vec(&st, B, &key2, &small));
    let stored = st.get_object(B, &key).ok();
    let wc = match (&w, &stored) {
        (Ok(Ok(_)), Some(b)) => sniff(b).to_string(),
        (Ok(Err(k)), _) => format!("ERR-{k}"),
        _ => "PANIC".into(),
    };
    let r = guarded(|| read_cloud_jsonl_vec::<Rec, _>(&st, B, &key).map_err(|e| format!("{:?}", e.kind)));
    let g = guarded(|| read_cloud_jsonl_glob::<Rec, _>(&st, B, pat).map_err(|e| format!("{:?}", e.kind)));
    let part = |tag: &str, r: &Result<Result<Vec<Rec>, String>, String>| match r {
        Ok(Ok(v)) => format!("{tag}:OK {}", v.len()),
        Ok(Err(k)) if tag == "G" => format!("G:ERR {k}"),
        Ok(Err(_)) => format!("{tag}:ERR"),
        Err(_) => format!("{tag}:PANIC"),
    };
    let ans = format!("W:{wc} {} {}", part("R", &r), part("G", &g));
    let i = cx.case(format!("CLOUDBIG {} {} {} {} {}", xs(&key), recs.len(), xs(&key2), small.len(), xs(pat)), ans, true);
    let raw = expected_text(recs).len();
    let stored_len = stored.as_ref().map_or(0, Vec::len);
    cx.count(&format!("big:codec={wc}"));
    cx.count_n(&format!("big:jsonl-bytes:{wc}"), raw as u64);
    cx.count_n(&format!("big:stored-bytes:{wc}"), stored_len as u64);
    if wc != doc_codec(&key) {
        cx.oracle_fail(i, "cloud-jsonl-writer-ignores-extension", format!("key {key:?}: stored object is {wc}, the extension names {}", doc_codec(&key)));
    }
    check_stored(cx, i, "cloud-jsonl-large-object-stored-wrong", &key, &wc, stored.as_ref(), recs);
    let describe = |r: &Result<Result<Vec<Rec>, String>, String>, want: &[Rec]| match r {
        Ok(Ok(v)) => format!("{} records (expected {}), first difference at index {:?}", v.len(), want.len(), v.iter().zip(want).position(|(a, b)| a != b)),
        Ok(Err(k)) => format!("Err({k})"),
        Err(m) => format!("panic {m}"),
    };
    if !matches!(&r, Ok(Ok(v)) if v.as_slice() == recs) {
        cx.oracle_fail(i, "cloud-jsonl-large-object-roundtrip-fails", format!("key {key:?}: {} records, {raw} bytes of JSONL, {stored_len} bytes stored ({wc}); read back: {}", recs.len(), describe(&r, recs)));
    }
    let mut both = recs.to_vec();
    both.extend(small.iter().cloned());
    if !matches!(&g, Ok(Ok(v)) if *v == both) {
        cx.oracle_fail(i, "cloud-jsonl-large-object-glob-read-fails", format!("pattern {pat:?} over {key:?} ({raw} bytes of JSONL) and {key2:?}: {}", describe(&g, &both)));
    }
}

/// records whose JSONL text is about `target` bytes of high-entropy text: mostly 64-symbol random strings of
/// 1-16 KiB (6 bits per byte: every codec still stores more than 70 % of it), multi-byte characters, escapes,
/// and one single line of about a tenth of the whole
fn gen_big_recs(cx: &mut Ctx, target: usize) -> Vec<Rec> {
    const A: &[u8; 64] = b"ABCDEFGHIJKLMNOPQRSTUVWXYZabcdefghijklmnopqrstuvwxyz0123456789+/";
    fn rand_str(cx: &mut Ctx, n: usize) -> String {
        let mut s = String::with_capacity(n + 8);
        while s.len() < n {
            let mut w = cx.rng.next_u64();
            for _ in 0..10 {
                s.push(A[(w & 63) as usize] as char);
                w >>= 6;
            }
            if w & 15 == 0 {
                s.push_str(["é", "日", "𝄞", "\n", "\"", "\\", "\u{85}", " "][(w >> 4) as usize & 7]);
            }
        }
        s
    }
    let mut recs = vec![];
    let mut total = 0usize;
    let long = target / 10;
    let mut long_done = false;
    while total < target {
        let n = if !long_done && total > target / 3 {
            long_done = true;
            long
        } else {
            1024 + cx.rng.below(15 * 1024)
        };
        let r = Rec { id: recs.len() as i64, s: rand_str(cx, n), tags: if cx.rng.chance(1, 4) { vec![rand_str(cx, 40)] } else { vec![] }, o: None };
        total += n + 40;
        recs.push(r);
    }
    recs
}

fn one_read<T: Record>(cx: &mut Ctx, pat: &str, objs: &[(String, Vec<T>)]) {
    let st = empty_bucket();
    let mut req = format!("GLOBREAD {}", xs(pat));
    let mut last: std::collections::BTreeMap<String, Vec<T>> = Default::default();
    for (k, rs) in objs {
        let _ = guarded(|| write_cloud_jsonl_vec(&st, B, k, rs));
        last.insert(k.clone(), rs.clone());
        req.push_str(&format!(" {}={}", xs(k), rs.iter().map(rec_tok).collect::<Vec<_>>().join(",")));
    }
    let r = guarded(|| read_cloud_jsonl_glob::<T, _>(&st, B, pat).map_err(|e| format!("{:?}", e.kind)));
    let ans = match &r {
        Ok(Ok(v)) => {
            let mut s = String::from("OK");
            for x in v {
                s.push(' ');
                s.push_str(&rec_tok(x));
            }
            s
        }
        Ok(Err(k)) => format!("ERR {k}"),
        Err(_) => "PANIC".into(),
    };
    let listing = st.take_listing();
    let expected: Vec<T> = last.iter().filter(|(k, _)| ref_match(pat, k)).flat_map(|(_, v)| v.clone()).collect();
    let nmatch = last.keys().filter(|k| ref_match(pat, k)).count();
    let i = cx.case(req, ans, nmatch >= 2);
    for p in listing.iter().flatten() {
        if let Some(k) = last.keys().find(|k| ref_match(pat, k) && !k.starts_with(p.as_str())) {
            cx.oracle_fail(i, "glob-listing-prefix-hides-match", format!("pattern {pat:?}: list_objects was called with prefix {p:?}, which excludes the matching key {k:?}"));
        }
    }
    cx.count(&format!("read:matching-objects={}", nmatch.min(4)));
    cx.count(&format!("read:record-type={}", T::NAME));
    match &r {
        Ok(Ok(v)) if same_vec(v, &expected) => {}
        Ok(Ok(v)) => cx.oracle_fail(i, "glob-read-not-sorted-concatenation", format!("pattern {pat:?}: got {} records, expected {}", v.len(), expected.len())),
        Ok(Err(k)) => cx.oracle_fail(i, "glob-read-error", format!("pattern {pat:?}: {k}")),
        Err(m) => cx.oracle_fail(i, "glob-read-panics", format!("pattern {pat:?}: {m}")),
    }
}

// ---------------------------------------------------------------------------------------------
// generators
// ---------------------------------------------------------------------------------------------
const LIT: &[&str] = &[
    "/", "/", ".", ".", "a", "a", "b", "c", "d", "0", "1", "-", "_", "=", "+", "(", ")", "[", "]", "{", "}", "^", "$", "|", "\\", "#", "~", "&",
    " ", ",", ":", "!", "<", ">", "é", "日", "\n", "\r", "\t", "A", "𝄞", "\u{e000}", "\u{7f}",
];
const WILD: &[&str] = &["*", "*", "**", "?"];
const SEG: &[&str] = &["a", "b", "ab", "", ".", "x.y", "2024-01", "data", "+", "(", "é", "a\nb", "\n"];

/// at most 5 star tokens per random pattern: the Lean model's matcher is the plain backtracking definition of
/// the language (exponential in the number of stars on a failing key), the real engine is linear
fn gen_pattern(cx: &mut Ctx, max: usize) -> Vec<String> {
    let n = cx.rng.below(max + 1);
    let mut stars = 0;
    (0..n)
        .map(|_| {
            if cx.rng.chance(3, 10) {
                let w = cx.rng.pick(WILD).to_string();
                if w != "?" {
                    stars += 1;
                }
                if stars > 5 { "?".to_string() } else { w }
            } else {
                cx.rng.pick(LIT).to_string()
            }
        })
        .collect()
}

fn instantiate(cx: &mut Ctx, toks: &[String]) -> String {
    let mut s = String::new();
    for t in toks {
        match t.as_str() {
            "*" => {
                for _ in 0..cx.rng.below(3) {
                    let c = *cx.rng.pick(LIT);
                    if c != "/" {
                        s.push_str(c);
                    }
                }
            }
            "**" => {
                for _ in 0..cx.rng.below(4) {
                    s.push_str(*cx.rng.pick(LIT));
                }
            }
            "?" => s.push_str(*cx.rng.pick(LIT)),
            c => s.push_str(c),
        }
    }
    s
}

fn mutate(cx: &mut Ctx, s: &str) -> String {
    let mut cs: Vec<char> = s.chars().collect();
    match cx.rng.below(5) {
        0 => {
            if !cs.is_empty() {
                let i = cx.rng.below(cs.len());
                cs.remove(i);
            }
        }
        1 => {
            let i = cx.rng.below(cs.len() + 1);
            let c = cx.rng.pick(LIT).chars().next().unwrap();
            cs.insert(i, c);
        }
        2 => {
            if !cs.is_empty() {
                let i = cx.rng.below(cs.len());
                cs[i] = cx.rng.pick(LIT).chars().next().unwrap();
            }
        }
        3 => cs.push(cx.rng.pick(LIT).chars().next().unwrap()),
        _ => cs.insert(0, cx.rng.pick(LIT).chars().next().unwrap()),
    }
    cs.into_iter().collect()
}

fn gen_keys(cx: &mut Ctx, toks: &[String]) -> Vec<String> {
    let n = cx.rng.below(13);
    let mut keys = vec![];
    for _ in 0..n {
        let k = match cx.rng.below(10) {
            0..=4 => instantiate(cx, toks),
            5..=7 => {
                let base = instantiate(cx, toks);
                mutate(cx, &base)
            }
            8 => toks.concat(), // the pattern text itself as a key
            _ => {
                let m = cx.rng.below(6);
                (0..m).map(|_| *cx.rng.pick(LIT)).collect::<String>()
            }
        };
        keys.push(k);
    }
    keys
}

const STR_POOL: &[&str] = &[
    "", " ", "x", "line1\nline2", "\r", "a\r\n", "BZh91AY&SY", "\u{1f}\u{8b}", "日本語", "\"q\"", "\\", "\u{85}", "  lead", "trail  ", "{}", "[1,2]", "\u{2028}", "\u{0}", "é",
];

fn gen_rec(cx: &mut Ctx) -> Rec {
    let id = match cx.rng.below(4) {
        0 => 0,
        1 => i64::MIN,
        2 => i64::MAX,
        _ => cx.rng.range(-1000, 1000),
    };
    let nt = cx.rng.below(3);
    Rec {
        id,
        s: cx.rng.pick(STR_POOL).to_string(),
        tags: (0..nt).map(|_| cx.rng.pick(STR_POOL).to_string()).collect(),
        o: if cx.rng.chance(1, 2) { Some(cx.rng.range(-5, 5)) } else { None },
    }
}

fn gen_rec2(cx: &mut Ctx) -> Rec2 {
    match cx.rng.below(4) {
        0 => Rec2::Unit,
        1 => Rec2::N(cx.rng.range(-1000, 1000)),
        2 => {
            let n = cx.rng.below(3);
            Rec2::T(cx.rng.pick(STR_POOL).to_string(), (0..n).map(|_| if cx.rng.chance(1, 3) { None } else { Some(cx.rng.chance(1, 2)) }).collect())
        }
        _ => {
            let n = cx.rng.below(3);
            Rec2::S { m: (0..n).map(|_| (cx.rng.pick(STR_POOL).to_string(), cx.rng.next_u64())).collect(), u: () }
        }
    }
}

fn gen_recs(cx: &mut Ctx) -> Vec<Rec> {
    let n = match cx.rng.below(6) {
        0 => 0,
        1 => 1,
        2 => 2,
        3 => 3,
        4 => 5,
        _ => cx.rng.below(40),
    };
    (0..n).map(|_| gen_rec(cx)).collect()
}

/// finite f64 of every kind (the generator of c09.rs): dyadic rationals, integers, powers of two over the whole
/// exponent range, 17-significant-digit values, subnormals, extremes, signed zero, arbitrary finite bit patterns
fn gen_f64(cx: &mut Ctx) -> f64 {
    match cx.rng.below(14) {
        0 => 0.0,
        1 => -0.0,
        2 => 1.0,
        3 => (cx.rng.range(-1_000_000, 1_000_000) as f64) / f64::from(1u32 << cx.rng.below(11)),
        4 => 2.0f64.powi(cx.rng.range(-1074, 1023) as i32) * if cx.rng.chance(1, 2) { -1.0 } else { 1.0 },
        5 => cx.rng.range(-999_999_999_999_999, 999_999_999_999_999) as f64,
        6 => -0.5,
        7 => (cx.rng.range(-4096, 4096) as f64) * 0.25,
        8 => *cx.rng.pick(&[4226558646762882.0, 1.1368683772161603e-13, 0.30000000000000004, 5e-324, f64::MAX, f64::MIN, f64::MIN_POSITIVE, 1.7976931348623155e308, 9007199254740993.0, 0.1, 1e23, 2.2250738585072011e-308]),
        9 | 10 | 11 => loop {
            let x = f64::from_bits(cx.rng.next_u64());
            if x.is_finite() {
                break x;
            }
        },
        12 => (cx.rng.next_u64() >> 11) as f64 / (1u64 << 53) as f64,
        _ => (cx.rng.range(-999_999_999_999_999, 999_999_999_999_999) as f64) * 1e-7,
    }
}

/// finite f32 of every kind (read back through `f64` and a cast: the values where that could matter)
fn gen_f32(cx: &mut Ctx) -> f32 {
    match cx.rng.below(10) {
        0 => 0.0,
        1 => -0.0,
        2 => *cx.rng.pick(&[1.0f32, 0.1, 0.3, 16777217.0, f32::MAX, f32::MIN, f32::MIN_POSITIVE, f32::EPSILON, 1e-45, 3.4028233e38, 1.17549421e-38, 8.589973e9, 7.038531e-26]),
        3 => 2.0f32.powi(cx.rng.range(-149, 127) as i32) * if cx.rng.chance(1, 2) { -1.0 } else { 1.0 },
        4 => (cx.rng.range(-100_000, 100_000) as f32) / 64.0,
        5 => gen_f64(cx) as f32,
        _ => loop {
            let x = f32::from_bits(cx.rng.next_u64() as u32);
            if x.is_finite() {
                break x;
            }
        },
    }
}

fn finite32(x: f32) -> f32 {
    if x.is_finite() { x } else { f32::MAX }
}

/// a finite float record
fn gen_recf(cx: &mut Ctx) -> RecF {
    let n = cx.rng.below(4);
    RecF {
        x: gen_f64(cx),
        o: if cx.rng.chance(1, 2) { Some(gen_f64(cx)) } else { None },
        v: (0..n).map(|_| finite32(gen_f32(cx))).collect(),
    }
}

fn gen_nonfinite64(cx: &mut Ctx) -> f64 {
    match cx.rng.below(5) {
        0 => f64::INFINITY,
        1 => f64::NEG_INFINITY,
        2 => f64::NAN,
        3 => -f64::NAN,
        _ => f64::from_bits(0x7ff0_0000_0000_0001 | (cx.rng.next_u64() & 0x800f_ffff_ffff_ffff)), // a NaN with a payload
    }
}

/// a float record holding at least one non-finite value, in the position chosen by `place`
/// (0 = `x`, 1 = `o`, 2 = an element of `v`, 3 = several)
fn gen_recf_nonfinite(cx: &mut Ctx, place: usize) -> RecF {
    let mut r = gen_recf(cx);
    let nf32 = |cx: &mut Ctx| *cx.rng.pick(&[f32::NAN, f32::INFINITY, f32::NEG_INFINITY]);
    if place == 0 || place == 3 {
        r.x = gen_nonfinite64(cx);
    }
    if place == 1 || (place == 3 && cx.rng.chance(1, 2)) {
        r.o = Some(gen_nonfinite64(cx));
    }
    if place == 2 || (place == 3 && cx.rng.chance(1, 2)) {
        let at = cx.rng.below(r.v.len() + 1);
        let f = nf32(cx);
        r.v.insert(at, f);
    }
    r
}

const STEMS: &[&str] = &[
    "data", "dir/data", "dir/", "", "dir/.", "a.b", "dir/..", "x.gz/file", "x.gz/", "x.gz/.", "d.d/e", "K", "İ", "dir/sub/.hidden", "日本/データ", "a b", "\n", "out.jsonl", "..", ".",
];
/// tails that are not (only) a documented extension: none, double extensions, near misses, non-ASCII look-alikes
const EXTS_OTHER: &[&str] = &[
    "", ".jsonl", ".jsonl.gz", ".tar.gz", ".jsonl.BZIP2", ".tar.Zstd", ".gz.bak", ".gz.", "gz", ".g z", ".gz ", ".zstd.gz", ".xz/", ".gz/x", "..gz", ".gzİp", ".\u{212a}z", ".zs",
    ".bzip", ".bz", ".zip2", "bzip2", ".BZIP2x", ".ZSTD.", ".Xz.txt",
];

/// every documented extension in five letter cases, then the other tails
fn all_exts() -> Vec<String> {
    let mut v = ext_case_variants();
    // an extension the running registry knows beyond the documented ones is exercised too (lower and upper case)
    for (_, exts, _) in ironbeam::io::compression::verif_codec_table() {
        for e in exts {
            for x in [e.clone(), e.to_ascii_uppercase()] {
                if !v.contains(&x) {
                    v.push(x);
                }
            }
        }
    }
    v.extend(EXTS_OTHER.iter().map(|e| e.to_string()));
    v
}

pub fn tables(out: &mut String) {
    // the escape set of the running `glob_to_regex`, probed on every ASCII character
    let head_tail = verif::glob_to_regex("");
    let head = head_tail.strip_suffix('$').unwrap_or(&head_tail).to_string();
    let mut esc: Vec<u32> = vec![];
    let mut plain: Vec<u32> = vec![];
    let mut odd: Vec<u32> = vec![];
    for n in 0u32..128 {
        let c = char::from_u32(n).unwrap();
        if c == '*' || c == '?' {
            continue;
        }
        let r = verif::glob_to_regex(&c.to_string());
        let body = r.strip_prefix(head.as_str()).and_then(|x| x.strip_suffix('$'));
        match body {
            Some(b) if b == format!("\\{c}") => esc.push(n),
            Some(b) if b == c.to_string() => plain.push(n),
            _ => odd.push(n),
        }
    }
    let list = |v: &[u32]| v.iter().map(|n| format!("Char.ofNat {n}")).collect::<Vec<_>>().join(", ");
    out.push_str("/-- C19: ASCII characters that the running `glob_to_regex` emits as `\\c` (probed one by one) -/\n");
    out.push_str(&format!("def escapeSet : List Char := [{}]\n", list(&esc)));
    out.push_str("/-- C19: ASCII characters (other than `*`, `?`) whose emission is neither `c` nor `\\c` -/\n");
    out.push_str(&format!("def escapeOdd : List Char := [{}]\n", list(&odd)));
    out.push_str("/-- C19: what `glob_to_regex` puts before the translated pattern -/\n");
    out.push_str(&format!("def regexHead : List Char := [{}]\n\n", list(&head.chars().map(|c| c as u32).collect::<Vec<_>>())));
    let _ = plain;
    // UTF-8 encodings by the running std (`char::encode_utf8`): every encoded-length boundary +-1, the surrogate
    // gap, and a spread over the whole range — the model's `utf8` (used to state "String order = byte order")
    // is re-checked against them on every run
    let mut scalars: Vec<u32> = vec![];
    for b in [0u32, 0x7f, 0x80, 0x7ff, 0x800, 0xd7ff, 0xe000, 0xffff, 0x10000, 0x10ffff] {
        for d in [-1i64, 0, 1] {
            let n = b as i64 + d;
            if n >= 0 {
                scalars.push(n as u32);
            }
        }
    }
    scalars.extend((0u32..0x110000).step_by(4099));
    scalars.sort_unstable();
    scalars.dedup();
    let rows: Vec<String> = scalars
        .into_iter()
        .filter_map(char::from_u32)
        .map(|c| {
            let mut buf = [0u8; 4];
            let bytes = c.encode_utf8(&mut buf).as_bytes().iter().map(|b| b.to_string()).collect::<Vec<_>>().join(", ");
            format!("({}, [{bytes}])", c as u32)
        })
        .collect();
    out.push_str("/-- C19: (scalar value, bytes of `char::encode_utf8`) computed by the running std -/\n");
    out.push_str(&format!("def utf8Samples : List (Nat × List Nat) := [{}]\n\n", rows.join(", ")));
}

pub fn run(cx: &mut Ctx) {
    // ---- (1) corpus: design witnesses and minimised past failures -------------------------------
    let r1 = Rec { id: 1, s: "x".into(), tags: vec![], o: None };
    failed_write_then(cx, "h/fail.jsonl", 2);
    one_jsonl(cx, "h/after.jsonl", &[r1.clone()]);
    one_jsonl(cx, "dir/.gz", &[r1.clone()]); // DESIGN §8 #16: written plain, read through gzip
    one_jsonl(cx, ".zst", &[r1.clone(), r1.clone()]);
    one_jsonl::<Rec>(cx, "dir/.gz", &[]);
    one_jsonl(cx, "part-0.BZIP2", &[r1.clone()]); // a second alternative of a branch, upper case: a chain that tests the raw key there writes plain
    one_jsonl(cx, "part-0.Zstd", &[r1.clone()]);
    one_jsonl(cx, "x.gz/", &[r1.clone()]);
    one_jsonl(cx, "data.jsonl.GZ", &[r1.clone()]);
    one_match(cx, "a?c", &["a\nc".into(), "abc".into(), "a/c".into()], false); // `.` does not match \n without (?s)
    one_match(cx, "**", &["a\nb".into(), "x".into()], false);
    one_match(cx, "a/**/b", &["a/b".into(), "a//b".into(), "a/x/b".into(), "a/x/y/b".into()], false);
    one_match(cx, "logs/2024-01-*/data.jsonl", &["logs/2024-01-01/data.jsonl".into(), "logs/2024-01-02/x/data.jsonl".into(), "logs/2024-02-01/data.jsonl".into()], false);
    one_match(cx, "a+(b)[c]{d}^$|\\.#-~&", &["a+(b)[c]{d}^$|\\.#-~&".into(), "aa(b)[c]{d}^$|\\.#-~&".into()], false);
    one_match(cx, "*", &[], true);
    // key order: Rust `String` order is UTF-8 byte order, the model sorts by scalar value — the two agree, also
    // across every encoded-length boundary (1/2/3/4 bytes) and around the surrogate gap (in UTF-16 order
    // U+E000 would sort AFTER U+10000)
    let bounds = ['\u{0}', '\u{7f}', '\u{80}', '\u{7ff}', '\u{800}', '\u{d7ff}', '\u{e000}', '\u{ffff}', '\u{10000}', '\u{10ffff}'];
    let mut bkeys: Vec<String> = vec![];
    for c in bounds.iter().rev() {
        bkeys.push(format!("k{c}"));
        bkeys.push(format!("k{c}a"));
        bkeys.push(format!("{c}"));
    }
    one_match(cx, "**", &bkeys, false);
    one_match(cx, "k?*", &bkeys, false);
    // long patterns (beyond the 1024-byte key limit of real stores; the regex crate's compiled-size limit,
    // not modelled, only rejects patterns with several thousand wildcards)
    one_match(cx, &"?".repeat(300), &["x".repeat(300), "x".repeat(299), "/".repeat(300), "x".repeat(301)], false);
    one_match(cx, &format!("{}*{}", "ab".repeat(150), "./".repeat(100)), &[format!("{}{}", "ab".repeat(150), "./".repeat(100)), format!("{}zz{}", "ab".repeat(150), "./".repeat(100)), format!("{}z/z{}", "ab".repeat(150), "./".repeat(100))], false);
    one_match(cx, &"**/".repeat(6), &["x/".repeat(6), "x/".repeat(5), "xy/z/".repeat(6), "/".repeat(6)], false);
    for p in ["", "*", "**", "***", "****", "?", "a*", "*a", "a**b", "a.b", "[a]", "a\\b", "^$", "x{1}", "a|b", "(?s)", "\n", "é*日"] {
        one_re(cx, p);
    }
    // float-bearing records: values that came back 1 ULP off from JSONL before serde_json's `float_roundtrip`
    // was enabled (DESIGN §8 #22), signed zero, subnormals, extremes; f32 read back through f64
    let f1 = RecF { x: 4226558646762882.0, o: Some(1.1368683772161603e-13), v: vec![0.1, 16777217.0, -0.0, 1e-45, f32::MAX] };
    let f2 = RecF { x: -0.0, o: Some(5e-324), v: vec![] };
    let f3 = RecF { x: f64::MAX, o: None, v: vec![f32::MIN_POSITIVE, 0.3] };
    for key in ["f.jsonl", "f.jsonl.gz", "f.ZST", "dir/.bz2", "f.xz"] {
        one_jsonl(cx, key, &[f1.clone(), f2.clone(), f3.clone()]);
        one_nf(cx, key, &[f1.clone(), f2.clone(), f3.clone()]);
        one_jsonl(cx, key, &[0.1f64, -0.0, 5e-324, f64::MIN, 0.30000000000000004]);
    }
    // OUTSIDE the scope (audit-E, reproduced): `[1.5, NaN, inf]` as `x` -> write Ok, read Err; `Some(NaN)` -> `None`
    let rx = |x: f64| RecF { x, o: None, v: vec![] };
    for key in ["nf.jsonl", "nf.jsonl.gz"] {
        one_nf(cx, key, &[rx(1.5), rx(f64::NAN), rx(f64::INFINITY)]);
        one_nf(cx, key, &[RecF { x: 1.5, o: Some(1.5), v: vec![] }, RecF { x: 2.5, o: Some(f64::NAN), v: vec![0.5] }]);
        one_nf(cx, key, &[RecF { x: 1.5, o: Some(f64::NEG_INFINITY), v: vec![0.5, f32::NAN] }]);
        one_nf(cx, key, &[RecF { x: -0.0, o: Some(f64::INFINITY), v: vec![-0.0] }, rx(2.0)]);
    }

    // ---- (2) small-scope exhaustive ----------------------------------------------------------------
    // block A: the wildcards, the separator, the dot; keys with a second letter, a line feed and a `+`
    // block B: the same plus three regex metacharacters as PATTERN characters (`+` a quantifier, `(` a group
    //          opener that makes the regex invalid when unescaped, `$` an anchor), keys over the same characters
    let blocks: [(&[&str], usize, &[&str]); 2] = [
        (&["*", "**", "?", "/", ".", "a"], cx.budget(4, 5), &["/", ".", "a", "b", "\n", "+"]),
        (&["*", "**", "?", "/", ".", "a", "+", "(", "$"], cx.budget(3, 4), &["/", ".", "a", "+", "(", "$"]),
    ];
    let kn = 4;
    let mut seen_pats: BTreeSet<String> = BTreeSet::new();
    for (ptoks, pn, kalpha) in blocks {
        let pats: Vec<String> = all_strings(ptoks, pn).into_iter().collect::<BTreeSet<_>>().into_iter().collect();
        let keys = all_strings(kalpha, kn);
        let universe: BTreeSet<String> = keys.iter().cloned().collect();
        let st = mk_store(&keys);
        let alpha_s: String = kalpha.concat();
        for p in &pats {
            st.take_listing();
            let real = guarded(|| expand_cloud_glob(&st, B, p).map_err(|e| format!("{:?}", e.kind)));
            let listing = st.take_listing();
            let i = cx.case(format!("GLOBALL {} {} {kn}", xs(p), xs(&alpha_s)), keys_answer(&listing, &real, true), false);
            let nt = glob_oracle(cx, i, p, &universe, &listing, &real, false);
            cx.nontrivial[i] = nt;
            cx.count(if nt { "all:some-not-all" } else { "all:none-or-all" });
            // the two references (harness `ref_match`, model `globMatch`) over the same universe
            let exp: Vec<&String> = universe.iter().filter(|k| ref_match(p, k)).collect();
            let mut ans = format!("N {}", exp.len());
            for k in exp {
                ans.push(' ');
                ans.push_str(&xs(k));
            }
            cx.case(format!("REFALL {} {} {kn}", xs(p), xs(&alpha_s)), ans, nt);
            if seen_pats.insert(p.clone()) {
                one_re(cx, p);
            }
        }
        cx.exhaustive_blocks.push(format!(
            "glob: all {} distinct patterns of <= {pn} tokens over {{{}}} x all {} keys of length <= {kn} over {{{}}} (one store holding every key; {} pattern-key pairs; real expansion, recorded listing prefix, harness reference and model reference compared on each)",
            pats.len(), ptoks.join(","), keys.len(), kalpha.iter().map(|c| c.escape_default().to_string()).collect::<Vec<_>>().join(","), pats.len() * keys.len()
        ));
    }
    // every single ASCII character as a pattern against every single ASCII character as a key
    let ascii: Vec<String> = (0u32..128).map(|n| char::from_u32(n).unwrap().to_string()).collect();
    for p in &ascii {
        one_re(cx, p);
        one_match(cx, p, &ascii, false);
        one_match(cx, &format!("a{p}b"), &ascii.iter().map(|k| format!("a{k}b")).collect::<Vec<_>>(), false);
    }
    cx.exhaustive_blocks.push("glob: each of the 128 ASCII characters as a pattern (alone and between letters) x each of the 128 ASCII characters as a key".into());
    // codec choice: stems x extensions x {0,1,3 records}
    let r2 = Rec { id: -7, s: "line1\nline2".into(), tags: vec!["BZh91AY&SY".into(), "".into()], o: Some(3) };
    let r3 = Rec { id: i64::MAX, s: "日本語".into(), tags: vec!["\r".into()], o: None };
    let exts = all_exts();
    let e1 = [Rec2::Unit, Rec2::N(i64::MIN), Rec2::T("BZh\n\u{1f}\u{8b}".into(), vec![None, Some(true)]), Rec2::S { m: [("k".to_string(), u64::MAX), ("".to_string(), 0)].into_iter().collect(), u: () }];
    for stem in STEMS {
        for ext in &exts {
            let key = format!("{stem}{ext}");
            // every fourth key: a failed write (same thread) right before the judged round trip
            if (stem.len() + ext.len()) % 4 == 0 { failed_write_then(cx, &format!("h/{stem}{ext}"), (stem.len() + ext.len()) % 3); }
            one_jsonl(cx, &key, &[r1.clone(), r2.clone(), r3.clone()]);
            if cx.tier != crate::ctx::Tier::Quick || stem.len() <= 4 {
                one_jsonl::<Rec>(cx, &key, &[]);
                one_jsonl(cx, &key, &[r2.clone()]);
                one_jsonl(cx, &key, &e1);
            }
        }
    }
    cx.exhaustive_blocks.push(format!(
        "jsonl: {} key stems x {} tails (each of the {} documented extensions in lower/UPPER/Capitalised/aLtErNaTiNg/last-letter case, double extensions, near misses, dot-files, directories named like archives) x record vectors of 0/1/3 (struct) and 4 (enum)",
        STEMS.len(), exts.len(), CODEC_EXTS.len()
    ));

    // ---- (3) random ---------------------------------------------------------------------------------
    let rounds = cx.budget(4000, 40000);
    for _ in 0..rounds {
        let toks = gen_pattern(cx, 12);
        let pat = toks.concat();
        one_re(cx, &pat);
        let keys = gen_keys(cx, &toks);
        let required = cx.rng.chance(1, 8);
        one_match(cx, &pat, &keys, required);
    }
    // segment-structured patterns and keys (shared prefixes, wildcard at position 0, `**` in the middle)
    let rounds = cx.budget(2500, 25000);
    for _ in 0..rounds {
        let nseg = 1 + cx.rng.below(4);
        let mut toks: Vec<String> = vec![];
        for i in 0..nseg {
            if i > 0 {
                toks.push("/".into());
            }
            match cx.rng.below(6) {
                0 => toks.push("*".into()),
                1 => toks.push("**".into()),
                2 => {
                    toks.push((*cx.rng.pick(SEG)).to_string());
                    toks.push("*".into());
                }
                3 => {
                    toks.push("*".into());
                    toks.push((*cx.rng.pick(SEG)).to_string());
                }
                4 => {
                    toks.push("?".into());
                    toks.push((*cx.rng.pick(SEG)).to_string());
                }
                _ => toks.push((*cx.rng.pick(SEG)).to_string()),
            }
        }
        let pat = toks.concat();
        let nk = cx.rng.below(10);
        let mut keys = vec![];
        for _ in 0..nk {
            let ns = 1 + cx.rng.below(4);
            let k = (0..ns).map(|_| (*cx.rng.pick(SEG)).to_string()).collect::<Vec<_>>().join("/");
            keys.push(k);
        }
        for _ in 0..cx.rng.below(4) {
            // instantiate token by token; multi-character literal tokens are copied
            keys.push(instantiate(cx, &toks));
        }
        one_match(cx, &pat, &keys, false);
        cx.count("match:segment-structured");
    }
    let rounds = cx.budget(600, 6000);
    for _ in 0..rounds {
        let stem = if cx.rng.chance(1, 2) {
            (*cx.rng.pick(STEMS)).to_string()
        } else {
            let m = cx.rng.below(8);
            (0..m).map(|_| *cx.rng.pick(LIT)).collect::<String>()
        };
        let ext = cx.rng.pick(&exts).clone();
        let key = format!("{stem}{ext}");
        match cx.rng.below(9) {
            0 => {
                let n = cx.rng.below(6);
                let recs: Vec<Rec2> = (0..n).map(|_| gen_rec2(cx)).collect();
                one_jsonl(cx, &key, &recs);
            }
            6 | 7 => {
                let n = cx.rng.below(8);
                let recs: Vec<RecF> = (0..n).map(|_| gen_recf(cx)).collect();
                one_jsonl(cx, &key, &recs);
            }
            8 => {
                let n = cx.rng.below(8);
                let recs: Vec<f64> = (0..n).map(|_| gen_f64(cx)).collect();
                one_jsonl(cx, &key, &recs);
            }
            1 => {
                let n = cx.rng.below(6);
                let recs: Vec<String> = (0..n).map(|_| cx.rng.pick(STR_POOL).to_string()).collect();
                one_jsonl(cx, &key, &recs);
            }
            2 => {
                let n = cx.rng.below(6);
                let recs: Vec<Option<Vec<i64>>> = (0..n).map(|_| if cx.rng.chance(1, 3) { None } else { Some((0..cx.rng.below(4)).map(|_| cx.rng.range(-9, 9)).collect()) }).collect();
                one_jsonl(cx, &key, &recs);
            }
            _ => {
                let recs = gen_recs(cx);
                one_jsonl(cx, &key, &recs);
            }
        }
    }
    // ---- finite float records, few keys, longer vectors ---------------------------------------------------------
    let rounds = cx.budget(700, 7000);
    for _ in 0..rounds {
        let key = *cx.rng.pick(&["f", "f.jsonl", "f.gz", "f.ZST", "d/f.bz2", "f.xz", "f.zstd", ".gzip"]);
        let n = 1 + cx.rng.below(12);
        if cx.rng.chance(1, 5) {
            let recs: Vec<f64> = (0..n).map(|_| gen_f64(cx)).collect();
            one_jsonl(cx, key, &recs);
        } else {
            let recs: Vec<RecF> = (0..n).map(|_| gen_recf(cx)).collect();
            one_jsonl(cx, key, &recs);
        }
    }
    // the scope assumption alone (no cloud call): `from_str(to_string(r))` bit for bit on many more float records
    for _ in 0..cx.budget(20_000, 200_000) {
        let r = gen_recf(cx);
        if !validate_lawful(cx, &r).is_empty() {
            cx.notes.push(format!("serde_json alone does not round-trip the finite float record {r:?} (bits x={:#x})", r.x.to_bits()));
        }
    }

    // ---- the float stream given structurally: finite vectors (round-trip oracle) and the NON-FINITE ones ------
    let rounds = cx.budget(500, 5000);
    for _ in 0..rounds {
        let stem = (*cx.rng.pick(STEMS)).to_string();
        let ext = cx.rng.pick(&exts).clone();
        let key = format!("{stem}{ext}");
        let n = 1 + cx.rng.below(5);
        let scenario = cx.rng.below(6); // 0: all finite; 1: `x`; 2: only behind `Option`; 3: in the `Vec`; 4, 5: several
        let bad_at = cx.rng.below(n);
        let recs: Vec<RecF> = (0..n)
            .map(|j| {
                if scenario == 0 {
                    gen_recf(cx)
                } else if scenario >= 4 {
                    if cx.rng.chance(1, 2) { let pl = cx.rng.below(4); gen_recf_nonfinite(cx, pl) } else { gen_recf(cx) }
                } else if j == bad_at {
                    gen_recf_nonfinite(cx, scenario - 1)
                } else {
                    gen_recf(cx)
                }
            })
            .collect();
        one_nf(cx, &key, &recs);
    }

    // ---- one LARGE object per codec and plain (oracle only) --------------------------------------------------
    let big_exts: &[&str] = if cx.tier == crate::ctx::Tier::Quick { &["", ".gz", ".zst", ".bz2", ".xz"] } else { &["", ".jsonl", ".gz", ".GZIP", ".zst", ".Zstd", ".bz2", ".bzip2", ".xz", ".XZ"] };
    let target: usize = if cx.tier == crate::ctx::Tier::Quick { 2 << 20 } else { 4 << 20 };
    let big = gen_big_recs(cx, target);
    let mid = gen_big_recs(cx, 300 << 10);
    for ext in big_exts {
        one_big(cx, ext, &big);
        one_big(cx, ext, &mid);
    }
    cx.exhaustive_blocks.push(format!(
        "large objects: one vector of {} records = {} bytes of JSONL (random 64-symbol strings of 1-16 KiB, multi-byte characters, escapes, one line of {} KiB) and one of {} records = {} bytes, each written / read / read by glob under {} keys (plain and every codec); stored bytes decoded by the codec crate itself and compared with the JSONL text",
        big.len(), expected_text(&big).len(), target / 10 / 1024, mid.len(), expected_text(&mid).len(), big_exts.len()
    ));

    let rounds = cx.budget(600, 6000);
    for _ in 0..rounds {
        let no = 1 + cx.rng.below(7);
        let mut objs = vec![];
        let mut fobjs = vec![];
        let floats = cx.rng.chance(1, 4);
        for _ in 0..no {
            let dir = *cx.rng.pick(&["", "d/", "d/e/", "logs/2024-01-", "a.b/"]);
            let name = *cx.rng.pick(&["x", "y", "data", "part-0", "part-1", ".h", "", "é"]);
            let ext = *cx.rng.pick(&["", ".jsonl", ".jsonl.gz", ".GZ", ".zst", ".bz2", ".xz", ".gz"]);
            let n = cx.rng.below(4);
            if floats {
                fobjs.push((format!("{dir}{name}{ext}"), (0..n).map(|_| gen_recf(cx)).collect::<Vec<_>>()));
            } else {
                objs.push((format!("{dir}{name}{ext}"), (0..n).map(|_| gen_rec(cx)).collect::<Vec<_>>()));
            }
        }
        let names: Vec<String> = if floats { fobjs.iter().map(|o| o.0.clone()).collect() } else { objs.iter().map(|o| o.0.clone()).collect() };
        let pat = match cx.rng.below(8) {
            0 | 6 => "**".to_string(),
            7 => "**.*".to_string(),
            1 => "d/*".to_string(),
            2 => "*".to_string(),
            3 => "**/*.g?".to_string(),
            4 => "d/**".to_string(),
            _ => {
                if names.is_empty() { "?".to_string() } else {
                    let k = names[cx.rng.below(names.len())].clone();
                    let cs: Vec<char> = k.chars().collect();
                    if cs.is_empty() { "*".to_string() } else {
                        let i = cx.rng.below(cs.len());
                        let mut p: String = cs[..i].iter().collect();
                        p.push_str(*cx.rng.pick(WILD));
                        p
                    }
                }
            }
        };
        if floats {
            one_read(cx, &pat, &fobjs);
        } else {
            one_read(cx, &pat, &objs);
        }
    }

    // ---- the scope assumption and the other `Lawful` hypotheses, as validated in this run ----------------------
    let mut types: BTreeSet<String> = BTreeSet::new();
    for k in cx.stats.keys() {
        if let Some(rest) = k.strip_prefix("lawful:") {
            if let Some(t) = rest.split(':').next() {
                if t != "codec" {
                    types.insert(t.to_string());
                }
            }
        }
    }
    for t in types {
        let mut parts = vec![];
        for f in ["ser_no_nl", "ser_no_cr", "ser_not_blank", "de_ser"] {
            let ok = cx.stats.get(&format!("lawful:{t}:{f}=ok")).copied().unwrap_or(0);
            let bad = cx.stats.get(&format!("lawful:{t}:{f}=VIOLATED")).copied().unwrap_or(0);
            parts.push(format!("{f} {ok}/{}", ok + bad));
        }
        cx.notes.push(format!("Lawful hypotheses validated on the real serde_json for record type `{t}` (satisfied/tested values): {}", parts.join(", ")));
    }
    let mut parts = vec![];
    for c in ["plain", "gzip", "zstd", "bzip2", "xz"] {
        let ok = cx.stats.get(&format!("lawful:codec:{c}:stored-decodes-to-written-text=ok")).copied().unwrap_or(0);
        let bad = cx.stats.get(&format!("lawful:codec:{c}:stored-decodes-to-written-text=VIOLATED")).copied().unwrap_or(0);
        parts.push(format!("{c} {ok}/{}", ok + bad));
    }
    cx.notes.push(format!("codec law (`dec_enc`, with the codec crates' own decoders on the stored objects; satisfied/tested objects): {}", parts.join(", ")));
    let nf: u64 = cx.stats.iter().filter(|(k, _)| k.starts_with("nf:vector=nonfinite")).map(|(_, v)| *v).sum();
    let nf_odd: u64 = cx.stats.iter().filter(|(k, _)| k.starts_with("nf:vector=nonfinite") && k.contains("NOT as documented")).map(|(_, v)| *v).sum();
    let out_ok = cx.stats.get("scope:float-struct:nonfinite-record:de_ser=violated by serde_json alone (why it is out of scope)").copied().unwrap_or(0);
    let out_odd = cx.stats.get("scope:float-struct:nonfinite-record:de_ser=holds (UNEXPECTED)").copied().unwrap_or(0);
    cx.notes.push(format!("SCOPE: of the {} generated records holding a NaN/+-inf, serde_json alone (`from_str(to_string(r))`) failed to return {out_ok} and returned {out_odd} unchanged: the scope assumption `de_ser` is false exactly there", out_ok + out_odd));
    cx.notes.push(format!("SCOPE: {nf} record vectors holding NaN/+-inf (outside JSON's value space) were written and read in the separate CLOUDNF stream; {} behaved as documented (write Ok; read Err, or Ok with None behind Option), {nf_odd} did not; they are compared model-vs-real and not judged by the round-trip oracle", nf - nf_odd));
}
