//! C19 — cloud object JSONL round-trips; glob expansion follows the documented syntax.
//!
//! Strings travel as `x<hex of UTF-8>` (empty string = `x`), records as opaque tokens `r<hex of their JSON>`.
//!
//!   GLOB2RE x<pat>                  -> x<regex source>                 (hook: readers::verif::glob_to_regex)
//!   GLOBPREFIX x<pat>               -> NONE | SOME x<prefix>           (hook: readers::verif::extract_prefix)
//!   GLOBMATCH x<pat> x<key>...      -> <L> OK x<key>... | <L> ERR <kind> | ERR <kind>
//!                                      (REAL expand_cloud_glob on FakeObjectIO; <L> = what the store wrapper saw
//!                                      as the argument of `list_objects`: PNONE | Px<prefix>, one token per call)
//!   GLOBREQ x<pat> x<key>...        -> same through expand_cloud_glob_required
//!   GLOBALL x<pat> x<alphabet> <n>  -> <L> OK <count> x<key>...        (store = ALL keys of length <= n)
//!   REFMATCH x<pat> x<key>...       -> M:<bit per key>                 (harness `ref_match` vs the model's `globMatch`)
//!   REFALL x<pat> x<alphabet> <n>   -> N <count> x<key>...             (the same two references over ALL keys)
//!   CLOUDJSONL x<key> r...          -> W:<codec> R:OK r... | W:<codec> R:ERR
//!                                      (write_cloud_jsonl_vec, sniff the stored bytes, read_cloud_jsonl_vec)
//!   GLOBREAD x<pat> x<key>=r,r ...  -> OK r... | ERR <kind>            (write each object, read_cloud_jsonl_glob)
//!
//! Oracles (independent of the Lean model): expansion == keys accepted by a reference matcher written here
//! from the documented syntax (`*` within a segment, `?` one character, `**` anything, other characters
//! themselves), sorted; every accepted key starts with the prefix the store was ACTUALLY asked to list by
//! (recorded by the store wrapper) and with the helper's return value; exactly one listing per expansion;
//! read-back == written (four record types); the stored object carries the codec that the key's extension
//! names (table of documented extensions, ASCII-case-insensitive suffix test — not the writer's chain);
//! glob read == concatenation in sorted key order.
//! `**` is "any text" and the `/` around it are ordinary characters (`a/**/b` accepts `a//b`, not `a/b`) — the
//! reading of the property statement; see `Props/C19.lean` ("how `**` is read").

use crate::ctx::{Ctx, guarded, hex};
use ironbeam::io::cloud::readers::{
    expand_cloud_glob, expand_cloud_glob_required, read_cloud_jsonl_glob, read_cloud_jsonl_vec, verif,
    write_cloud_jsonl_vec,
};
use ironbeam::io::cloud::{CloudResult, FakeObjectIO, ObjectIO, ObjectMetadata};
use serde::{Deserialize, Serialize};
use std::collections::{BTreeMap, BTreeSet};
use std::sync::{Arc, Mutex};

const B: &str = "bkt";

fn xs(s: &str) -> String {
    format!("x{}", hex(s.as_bytes()))
}

// ---------------------------------------------------------------------------------------------
// reference matcher: the documented syntax, by dynamic programming over (pattern pos, key pos)
// ---------------------------------------------------------------------------------------------
fn ref_match(pat: &str, key: &str) -> bool {
    let p: Vec<char> = pat.chars().collect();
    let k: Vec<char> = key.chars().collect();
    let mut memo = vec![vec![None; k.len() + 1]; p.len() + 1];
    fn go(p: &[char], k: &[char], i: usize, j: usize, memo: &mut Vec<Vec<Option<bool>>>) -> bool {
        if let Some(v) = memo[i][j] {
            return v;
        }
        let r = if i == p.len() {
            j == k.len()
        } else if p[i] == '*' && i + 1 < p.len() && p[i + 1] == '*' {
            // `**`: any text
            (j..=k.len()).any(|m| go(p, k, i + 2, m, memo))
        } else if p[i] == '*' {
            // `*`: any text without '/'
            let mut ok = false;
            let mut m = j;
            loop {
                if go(p, k, i + 1, m, memo) {
                    ok = true;
                    break;
                }
                if m < k.len() && k[m] != '/' {
                    m += 1;
                } else {
                    break;
                }
            }
            ok
        } else if p[i] == '?' {
            j < k.len() && go(p, k, i + 1, j + 1, memo)
        } else {
            j < k.len() && k[j] == p[i] && go(p, k, i + 1, j + 1, memo)
        };
        memo[i][j] = Some(r);
        r
    }
    go(&p, &k, 0, 0, &mut memo)
}

/// The fake bucket behind a listing that comes back in a scrambled (reverse, then rotated) order and,
/// like a real object store, only honours the prefix: the sort in `expand_cloud_glob` must do the ordering.
/// Every `list_objects` call is recorded with the prefix it was given (the property's "listing by prefix never
/// hides a match" is checked on the prefix the store actually received, not on a helper's return value).
#[derive(Clone)]
struct Scrambled(FakeObjectIO, Arc<Mutex<Vec<Option<String>>>>);
impl Scrambled {
    fn take_listing(&self) -> Vec<Option<String>> {
        std::mem::take(&mut *self.1.lock().unwrap_or_else(|e| e.into_inner()))
    }
}
impl ObjectIO for Scrambled {
    fn put_object(&self, b: &str, k: &str, d: &[u8]) -> CloudResult<()> {
        self.0.put_object(b, k, d)
    }
    fn get_object(&self, b: &str, k: &str) -> CloudResult<Vec<u8>> {
        self.0.get_object(b, k)
    }
    fn delete_object(&self, b: &str, k: &str) -> CloudResult<()> {
        self.0.delete_object(b, k)
    }
    fn list_objects(&self, b: &str, prefix: Option<&str>) -> CloudResult<Vec<ObjectMetadata>> {
        self.1.lock().unwrap_or_else(|e| e.into_inner()).push(prefix.map(str::to_string));
        let mut v = self.0.list_objects(b, prefix)?;
        v.reverse();
        if v.len() > 2 {
            let n = v.len() / 3;
            v.rotate_left(n);
        }
        Ok(v)
    }
    fn object_exists(&self, b: &str, k: &str) -> CloudResult<bool> {
        self.0.object_exists(b, k)
    }
    fn get_metadata(&self, b: &str, k: &str) -> CloudResult<ObjectMetadata> {
        self.0.get_metadata(b, k)
    }
    fn copy_object(&self, sb: &str, sk: &str, db: &str, dk: &str) -> CloudResult<()> {
        self.0.copy_object(sb, sk, db, dk)
    }
}

fn empty_bucket() -> Scrambled {
    let st = FakeObjectIO::new();
    // make the bucket exist even when it holds no key
    st.put_object(B, "\u{1}tmp", b"").unwrap();
    st.delete_object(B, "\u{1}tmp").unwrap();
    Scrambled(st, Arc::new(Mutex::new(vec![])))
}

fn mk_store(keys: &[String]) -> Scrambled {
    let st = empty_bucket();
    for k in keys {
        st.put_object(B, k, b"").unwrap();
    }
    st
}

fn listing_tok(listing: &[Option<String>]) -> String {
    listing
        .iter()
        .map(|p| match p {
            None => "PNONE".to_string(),
            Some(p) => format!("P{}", xs(p)),
        })
        .collect::<Vec<_>>()
        .join("+")
}

fn keys_answer(listing: &[Option<String>], r: &Result<Result<Vec<String>, String>, String>, with_count: bool) -> String {
    let body = keys_answer_body(r, with_count);
    if listing.is_empty() { body } else { format!("{} {body}", listing_tok(listing)) }
}

fn keys_answer_body(r: &Result<Result<Vec<String>, String>, String>, with_count: bool) -> String {
    match r {
        Ok(Ok(v)) => {
            let mut s = String::from("OK");
            if with_count {
                s.push_str(&format!(" {}", v.len()));
            }
            for k in v {
                s.push(' ');
                s.push_str(&xs(k));
            }
            s
        }
        Ok(Err(kind)) => format!("ERR {kind}"),
        Err(_) => "PANIC".into(),
    }
}

/// the property's statement for one expansion
fn glob_oracle(cx: &mut Ctx, case: usize, pat: &str, universe: &BTreeSet<String>, listing: &[Option<String>], real: &Result<Result<Vec<String>, String>, String>, required: bool) -> bool {
    let expected: Vec<String> = universe.iter().filter(|k| ref_match(pat, k)).cloned().collect();
    // the prefix the store was actually asked to list by: it must not hide a key the pattern accepts
    // (checked against the reference matcher, so it does not depend on what came back), and the bucket must
    // be listed exactly once per expansion
    if !matches!(real, Err(_)) && listing.len() != 1 {
        cx.oracle_fail(case, "glob-listing-call-count", format!("pattern {pat:?}: list_objects called {} times", listing.len()));
    }
    for p in listing.iter().flatten() {
        if let Some(k) = expected.iter().find(|k| !k.starts_with(p.as_str())) {
            cx.oracle_fail(case, "glob-listing-prefix-hides-match", format!("pattern {pat:?}: list_objects was called with prefix {p:?}, which excludes the matching key {k:?}"));
        }
    }
    match listing.first() {
        Some(None) => cx.count("listing:prefix=none"),
        Some(Some(p)) if p == pat => cx.count("listing:prefix=whole-pattern"),
        Some(Some(_)) => cx.count("listing:prefix=proper"),
        None => cx.count("listing:not-called"),
    }
    // listing by prefix never hides a match
    let prefix = verif::extract_prefix(pat);
    if let Some(p) = &prefix {
        if let Some(k) = expected.iter().find(|k| !k.starts_with(p.as_str())) {
            cx.oracle_fail(case, "glob-prefix-hides-match", format!("pattern {pat:?}: listing prefix {p:?} excludes matching key {k:?}"));
        }
        if !pat.starts_with(p.as_str()) || p.contains(['*', '?']) {
            cx.oracle_fail(case, "glob-prefix-not-literal-prefix", format!("pattern {pat:?}: prefix {p:?}"));
        }
    }
    match real {
        Ok(Ok(got)) => {
            if required && got.is_empty() {
                cx.oracle_fail(case, "glob-required-returns-empty", format!("pattern {pat:?}"));
            }
            let gset: BTreeSet<&String> = got.iter().collect();
            let eset: BTreeSet<&String> = expected.iter().collect();
            if let Some(k) = eset.difference(&gset).next() {
                let sig = if k.contains('\n') { "glob-misses-matching-key-with-newline" } else { "glob-misses-matching-key" };
                cx.oracle_fail(case, sig, format!("pattern {pat:?}: key {k:?} matches the documented syntax but is not returned"));
            } else if let Some(k) = gset.difference(&eset).next() {
                cx.oracle_fail(case, "glob-returns-nonmatching-key", format!("pattern {pat:?}: key {k:?} returned but does not match the documented syntax"));
            } else if *got != expected {
                cx.oracle_fail(case, "glob-not-sorted-or-duplicated", format!("pattern {pat:?}: got {got:?}, expected {expected:?}"));
            }
        }
        Ok(Err(kind)) => {
            if !(required && expected.is_empty() && kind == "NotFound") {
                cx.oracle_fail(case, "glob-expansion-error", format!("pattern {pat:?}: {kind} (expected {} keys)", expected.len()));
            }
        }
        Err(m) => cx.oracle_fail(case, "glob-expansion-panics", format!("pattern {pat:?}: {m}")),
    }
    !expected.is_empty() && expected.len() < universe.len()
}

fn one_match(cx: &mut Ctx, pat: &str, keys: &[String], required: bool) {
    let st = mk_store(keys);
    st.take_listing();
    let real = guarded(|| {
        let r = if required { expand_cloud_glob_required(&st, B, pat) } else { expand_cloud_glob(&st, B, pat) };
        r.map_err(|e| format!("{:?}", e.kind))
    });
    let listing = st.take_listing();
    let mut args = xs(pat);
    for k in keys {
        args.push(' ');
        args.push_str(&xs(k));
    }
    let universe: BTreeSet<String> = keys.iter().cloned().collect();
    let i = cx.case(format!("{} {args}", if required { "GLOBREQ" } else { "GLOBMATCH" }), keys_answer(&listing, &real, false), false);
    let nt = glob_oracle(cx, i, pat, &universe, &listing, &real, required);
    cx.nontrivial[i] = nt;
    // the two statements of the documented syntax (this file's `ref_match`, the model's `globMatch`) on the same pairs
    let bits: String = keys.iter().map(|k| if ref_match(pat, k) { '1' } else { '0' }).collect();
    cx.case(format!("REFMATCH {args}"), format!("M:{bits}"), nt);
    cx.count(if nt { "match:some-not-all" } else { "match:none-or-all" });
    cx.count(&format!("match:keys={}", keys.len().min(8)));
}

fn one_re(cx: &mut Ctx, pat: &str) {
    let real = guarded(|| verif::glob_to_regex(pat));
    let ans = match &real {
        Ok(s) => xs(s),
        Err(_) => "PANIC".into(),
    };
    let i = cx.case(format!("GLOB2RE {}", xs(pat)), ans, pat.chars().count() >= 2);
    if real.is_err() {
        cx.oracle_fail(i, "glob-to-regex-panics", format!("pattern {pat:?}"));
    }
    let realp = guarded(|| verif::extract_prefix(pat));
    let ans = match &realp {
        Ok(None) => "NONE".to_string(),
        Ok(Some(p)) => format!("SOME {}", xs(p)),
        Err(_) => "PANIC".into(),
    };
    cx.case(format!("GLOBPREFIX {}", xs(pat)), ans, pat.contains(['*', '?']));
}

fn all_strings(alpha: &[&str], n: usize) -> Vec<String> {
    let mut out = vec![String::new()];
    let mut frontier = vec![String::new()];
    for _ in 0..n {
        let mut next = vec![];
        for s in &frontier {
            for a in alpha {
                next.push(format!("{s}{a}"));
            }
        }
        out.extend(next.iter().cloned());
        frontier = next;
    }
    out
}

// ---------------------------------------------------------------------------------------------
// JSONL
// ---------------------------------------------------------------------------------------------
#[derive(Serialize, Deserialize, Clone, Debug, PartialEq)]
struct Rec {
    id: i64,
    s: String,
    tags: Vec<String>,
    o: Option<i64>,
}

/// a second record shape: an enum (unit / newtype / tuple / struct variants = JSON string, single-key objects
/// holding a number, an array, an object) — a serialised record need not start with `{`
#[derive(Serialize, Deserialize, Clone, Debug, PartialEq)]
enum Rec2 {
    Unit,
    N(i64),
    T(String, Vec<Option<bool>>),
    S { m: BTreeMap<String, u64>, u: () },
}

/// what a record type must offer to be written, read back and compared
trait Record: Serialize + serde::de::DeserializeOwned + Clone + PartialEq + std::fmt::Debug {
    const NAME: &'static str;
}
impl Record for Rec {
    const NAME: &'static str = "struct";
}
impl Record for Rec2 {
    const NAME: &'static str = "enum";
}
/// top-level JSON scalars / arrays as records: `"text"`, `null`, `[1,2]`
impl Record for String {
    const NAME: &'static str = "string";
}
impl Record for Option<Vec<i64>> {
    const NAME: &'static str = "option-vec";
}

fn rec_tok<T: Serialize>(r: &T) -> String {
    format!("r{}", hex(serde_json::to_string(r).unwrap().as_bytes()))
}

fn sniff(bytes: &[u8]) -> &'static str {
    if bytes.starts_with(&[0x1f, 0x8b]) {
        "gzip"
    } else if bytes.starts_with(&[0x28, 0xb5, 0x2f, 0xfd]) {
        "zstd"
    } else if bytes.starts_with(b"BZh") {
        "bzip2"
    } else if bytes.starts_with(&[0xfd, 0x37, 0x7a, 0x58, 0x5a, 0x00]) {
        "xz"
    } else {
        "plain"
    }
}

/// the documented extensions (compression.rs module table, readers.rs "e.g. .gz, .zst, .bz2, .xz") and the
/// format each one names
const CODEC_EXTS: &[(&str, &str)] = &[(".gz", "gzip"), (".gzip", "gzip"), (".zst", "zstd"), (".zstd", "zstd"), (".bz2", "bzip2"), (".bzip2", "bzip2"), (".xz", "xz")];

/// the documented rule, stated without the writer's chain: the key's last characters, compared letter by letter
/// ignoring ASCII case, are one of the documented extensions (no documented extension is a suffix of another,
/// so at most one row applies; no non-ASCII character lower-cases to one of their letters)
fn doc_codec(key: &str) -> &'static str {
    let kc: Vec<char> = key.chars().collect();
    let mut found = "plain";
    for (ext, codec) in CODEC_EXTS {
        let ec: Vec<char> = ext.chars().collect();
        if kc.len() >= ec.len() && kc[kc.len() - ec.len()..].iter().zip(&ec).all(|(a, b)| a.eq_ignore_ascii_case(b)) {
            found = codec;
        }
    }
    found
}

/// every documented extension in lower, UPPER, Capitalised, aLtErNaTiNg and lowe-R (last letter only) case
fn ext_case_variants() -> Vec<String> {
    let mut out = vec![];
    for (ext, _) in CODEC_EXTS {
        let body = &ext[1..];
        let lower = body.to_string();
        let upper = body.to_ascii_uppercase();
        let mut cap = String::new();
        let mut alt = String::new();
        let mut last = String::new();
        let n = body.chars().count();
        for (i, c) in body.chars().enumerate() {
            cap.push(if i == 0 { c.to_ascii_uppercase() } else { c });
            alt.push(if i % 2 == 1 { c.to_ascii_uppercase() } else { c });
            last.push(if i + 1 == n { c.to_ascii_uppercase() } else { c });
        }
        for v in [lower, upper, cap, alt, last] {
            let e = format!(".{v}");
            if !out.contains(&e) {
                out.push(e);
            }
        }
    }
    out
}

fn one_jsonl<T: Record>(cx: &mut Ctx, key: &str, recs: &[T]) {
    let st = FakeObjectIO::new();
    let w = guarded(|| write_cloud_jsonl_vec(&st, B, key, recs).map_err(|e| format!("{:?}", e.kind)));
    let stored = st.get_object(B, key).ok();
    let wc = match (&w, &stored) {
        (Ok(Ok(_)), Some(b)) => sniff(b).to_string(),
        (Ok(Err(k)), _) => format!("ERR-{k}"),
        _ => "PANIC".into(),
    };
    let r = guarded(|| read_cloud_jsonl_vec::<T, _>(&st, B, key).map_err(|e| format!("{:?}", e.kind)));
    let mut ans = format!("W:{wc} ");
    match &r {
        Ok(Ok(v)) => {
            ans.push_str("R:OK");
            for x in v {
                ans.push(' ');
                ans.push_str(&rec_tok(x));
            }
        }
        Ok(Err(_)) => ans.push_str("R:ERR"),
        Err(_) => ans.push_str("R:PANIC"),
    }
    let mut req = format!("CLOUDJSONL {}", xs(key));
    for x in recs {
        req.push(' ');
        req.push_str(&rec_tok(x));
    }
    let i = cx.case(req, ans, !recs.is_empty() && doc_codec(key) != "plain");
    cx.count(&format!("jsonl:codec={wc}"));
    cx.count(&format!("jsonl:recs={}", recs.len().min(4)));
    cx.count(&format!("jsonl:record-type={}", T::NAME));
    if doc_codec(key) != "plain" && key.chars().rev().take_while(|c| *c != '.').any(|c| c.is_ascii_uppercase()) {
        cx.count(&format!("jsonl:upper-or-mixed-case-ext={}", doc_codec(key)));
    }
    if wc != doc_codec(key) {
        cx.oracle_fail(i, "cloud-jsonl-writer-ignores-extension", format!("key {key:?}: stored object is {wc}, the extension names {}", doc_codec(key)));
    }
    match &r {
        Ok(Ok(v)) if v.as_slice() == recs => {}
        other => {
            let sig = "cloud-jsonl-roundtrip-fails";
            cx.oracle_fail(i, sig, format!("key {key:?}, {} records written ({wc}); read back: {}", recs.len(), match other {
                Ok(Ok(v)) => format!("{} different records", v.len()),
                Ok(Err(k)) => format!("Err({k})"),
                Err(m) => format!("panic {m}"),
            }));
        }
    }
}

fn one_read(cx: &mut Ctx, pat: &str, objs: &[(String, Vec<Rec>)]) {
    let st = empty_bucket();
    let mut req = format!("GLOBREAD {}", xs(pat));
    let mut last: std::collections::BTreeMap<String, Vec<Rec>> = Default::default();
    for (k, rs) in objs {
        let _ = guarded(|| write_cloud_jsonl_vec(&st, B, k, rs));
        last.insert(k.clone(), rs.clone());
        req.push_str(&format!(" {}={}", xs(k), rs.iter().map(rec_tok).collect::<Vec<_>>().join(",")));
    }
    let r = guarded(|| read_cloud_jsonl_glob::<Rec, _>(&st, B, pat).map_err(|e| format!("{:?}", e.kind)));
    let ans = match &r {
        Ok(Ok(v)) => {
            let mut s = String::from("OK");
            for x in v {
                s.push(' ');
                s.push_str(&rec_tok(x));
            }
            s
        }
        Ok(Err(k)) => format!("ERR {k}"),
        Err(_) => "PANIC".into(),
    };
    let listing = st.take_listing();
    let expected: Vec<Rec> = last.iter().filter(|(k, _)| ref_match(pat, k)).flat_map(|(_, v)| v.clone()).collect();
    let nmatch = last.keys().filter(|k| ref_match(pat, k)).count();
    let i = cx.case(req, ans, nmatch >= 2);
    for p in listing.iter().flatten() {
        if let Some(k) = last.keys().find(|k| ref_match(pat, k) && !k.starts_with(p.as_str())) {
            cx.oracle_fail(i, "glob-listing-prefix-hides-match", format!("pattern {pat:?}: list_objects was called with prefix {p:?}, which excludes the matching key {k:?}"));
        }
    }
    cx.count(&format!("read:matching-objects={}", nmatch.min(4)));
    match &r {
        Ok(Ok(v)) if *v == expected => {}
        Ok(Ok(v)) => cx.oracle_fail(i, "glob-read-not-sorted-concatenation", format!("pattern {pat:?}: got {} records, expected {}", v.len(), expected.len())),
        Ok(Err(k)) => cx.oracle_fail(i, "glob-read-error", format!("pattern {pat:?}: {k}")),
        Err(m) => cx.oracle_fail(i, "glob-read-panics", format!("pattern {pat:?}: {m}")),
    }
}

// ---------------------------------------------------------------------------------------------
// generators
// ---------------------------------------------------------------------------------------------
const LIT: &[&str] = &[
    "/", "/", ".", ".", "a", "a", "b", "c", "d", "0", "1", "-", "_", "=", "+", "(", ")", "[", "]", "{", "}", "^", "$", "|", "\\", "#", "~", "&",
    " ", ",", ":", "!", "<", ">", "é", "日", "\n", "\r", "\t", "A", "𝄞", "\u{e000}", "\u{7f}",
];
const WILD: &[&str] = &["*", "*", "**", "?"];
const SEG: &[&str] = &["a", "b", "ab", "", ".", "x.y", "2024-01", "data", "+", "(", "é", "a\nb", "\n"];

/// at most 5 star tokens per random pattern: the Lean model's matcher is the plain backtracking definition of
/// the language (exponential in the number of stars on a failing key), the real engine is linear
fn gen_pattern(cx: &mut Ctx, max: usize) -> Vec<String> {
    let n = cx.rng.below(max + 1);
    let mut stars = 0;
    (0..n)
        .map(|_| {
            if cx.rng.chance(3, 10) {
                let w = cx.rng.pick(WILD).to_string();
                if w != "?" {
                    stars += 1;
                }
                if stars > 5 { "?".to_string() } else { w }
            } else {
                cx.rng.pick(LIT).to_string()
            }
        })
        .collect()
}

fn instantiate(cx: &mut Ctx, toks: &[String]) -> String {
    let mut s = String::new();
    for t in toks {
        match t.as_str() {
            "*" => {
                for _ in 0..cx.rng.below(3) {
                    let c = *cx.rng.pick(LIT);
                    if c != "/" {
                        s.push_str(c);
                    }
                }
            }
            "**" => {
                for _ in 0..cx.rng.below(4) {
                    s.push_str(*cx.rng.pick(LIT));
                }
            }
            "?" => s.push_str(*cx.rng.pick(LIT)),
            c => s.push_str(c),
        }
    }
    s
}

fn mutate(cx: &mut Ctx, s: &str) -> String {
    let mut cs: Vec<char> = s.chars().collect();
    match cx.rng.below(5) {
        0 => {
            if !cs.is_empty() {
                let i = cx.rng.below(cs.len());
                cs.remove(i);
            }
        }
        1 => {
            let i = cx.rng.below(cs.len() + 1);
            let c = cx.rng.pick(LIT).chars().next().unwrap();
            cs.insert(i, c);
        }
        2 => {
            if !cs.is_empty() {
                let i = cx.rng.below(cs.len());
                cs[i] = cx.rng.pick(LIT).chars().next().unwrap();
            }
        }
        3 => cs.push(cx.rng.pick(LIT).chars().next().unwrap()),
        _ => cs.insert(0, cx.rng.pick(LIT).chars().next().unwrap()),
    }
    cs.into_iter().collect()
}

fn gen_keys(cx: &mut Ctx, toks: &[String]) -> Vec<String> {
    let n = cx.rng.below(13);
    let mut keys = vec![];
    for _ in 0..n {
        let k = match cx.rng.below(10) {
            0..=4 => instantiate(cx, toks),
            5..=7 => {
                let base = instantiate(cx, toks);
                mutate(cx, &base)
            }
            8 => toks.concat(), // the pattern text itself as a key
            _ => {
                let m = cx.rng.below(6);
                (0..m).map(|_| *cx.rng.pick(LIT)).collect::<String>()
            }
        };
        keys.push(k);
    }
    keys
}

const STR_POOL: &[&str] = &[
    "", " ", "x", "line1\nline2", "\r", "a\r\n", "BZh91AY&SY", "\u{1f}\u{8b}", "日本語", "\"q\"", "\\", "\u{85}", "  lead", "trail  ", "{}", "[1,2]", "\u{2028}", "\u{0}", "é",
];

fn gen_rec(cx: &mut Ctx) -> Rec {
    let id = match cx.rng.below(4) {
        0 => 0,
        1 => i64::MIN,
        2 => i64::MAX,
        _ => cx.rng.range(-1000, 1000),
    };
    let nt = cx.rng.below(3);
    Rec {
        id,
        s: cx.rng.pick(STR_POOL).to_string(),
        tags: (0..nt).map(|_| cx.rng.pick(STR_POOL).to_string()).collect(),
        o: if cx.rng.chance(1, 2) { Some(cx.rng.range(-5, 5)) } else { None },
    }
}

fn gen_rec2(cx: &mut Ctx) -> Rec2 {
    match cx.rng.below(4) {
        0 => Rec2::Unit,
        1 => Rec2::N(cx.rng.range(-1000, 1000)),
        2 => {
            let n = cx.rng.below(3);
            Rec2::T(cx.rng.pick(STR_POOL).to_string(), (0..n).map(|_| if cx.rng.chance(1, 3) { None } else { Some(cx.rng.chance(1, 2)) }).collect())
        }
        _ => {
            let n = cx.rng.below(3);
            Rec2::S { m: (0..n).map(|_| (cx.rng.pick(STR_POOL).to_string(), cx.rng.next_u64())).collect(), u: () }
        }
    }
}

fn gen_recs(cx: &mut Ctx) -> Vec<Rec> {
    let n = match cx.rng.below(6) {
        0 => 0,
        1 => 1,
        2 => 2,
        3 => 3,
        4 => 5,
        _ => cx.rng.below(40),
    };
    (0..n).map(|_| gen_rec(cx)).collect()
}

const STEMS: &[&str] = &[
    "data", "dir/data", "dir/", "", "dir/.", "a.b", "dir/..", "x.gz/file", "x.gz/", "x.gz/.", "d.d/e", "K", "İ", "dir/sub/.hidden", "日本/データ", "a b", "\n", "out.jsonl", "..", ".",
];
/// tails that are not (only) a documented extension: none, double extensions, near misses, non-ASCII look-alikes
const EXTS_OTHER: &[&str] = &[
    "", ".jsonl", ".jsonl.gz", ".tar.gz", ".jsonl.BZIP2", ".tar.Zstd", ".gz.bak", ".gz.", "gz", ".g z", ".gz ", ".zstd.gz", ".xz/", ".gz/x", "..gz", ".gzİp", ".\u{212a}z", ".zs",
    ".bzip", ".bz", ".zip2", "bzip2", ".BZIP2x", ".ZSTD.", ".Xz.txt",
];

/// every documented extension in five letter cases, then the other tails
fn all_exts() -> Vec<String> {
    let mut v = ext_case_variants();
    // an extension the running registry knows beyond the documented ones is exercised too (lower and upper case)
    for (_, exts, _) in ironbeam::io::compression::verif_codec_table() {
        for e in exts {
            for x in [e.clone(), e.to_ascii_uppercase()] {
                if !v.contains(&x) {
                    v.push(x);
                }
            }
        }
    }
    v.extend(EXTS_OTHER.iter().map(|e| e.to_string()));
    v
}

pub fn tables(out: &mut String) {
    // the escape set of the running `glob_to_regex`, probed on every ASCII character
    let head_tail = verif::glob_to_regex("");
    let head = head_tail.strip_suffix('$').unwrap_or(&head_tail).to_string();
    let mut esc: Vec<u32> = vec![];
    let mut plain: Vec<u32> = vec![];
    let mut odd: Vec<u32> = vec![];
    for n in 0u32..128 {
        let c = char::from_u32(n).unwrap();
        if c == '*' || c == '?' {
            continue;
        }
        let r = verif::glob_to_regex(&c.to_string());
        let body = r.strip_prefix(head.as_str()).and_then(|x| x.strip_suffix('$'));
        match body {
            Some(b) if b == format!("\\{c}") => esc.push(n),
            Some(b) if b == c.to_string() => plain.push(n),
            _ => odd.push(n),
        }
    }
    let list = |v: &[u32]| v.iter().map(|n| format!("Char.ofNat {n}")).collect::<Vec<_>>().join(", ");
    out.push_str("/-- C19: ASCII characters that the running `glob_to_regex` emits as `\\c` (probed one by one) -/\n");
    out.push_str(&format!("def escapeSet : List Char := [{}]\n", list(&esc)));
    out.push_str("/-- C19: ASCII characters (other than `*`, `?`) whose emission is neither `c` nor `\\c` -/\n");
    out.push_str(&format!("def escapeOdd : List Char := [{}]\n", list(&odd)));
    out.push_str("/-- C19: what `glob_to_regex` puts before the translated pattern -/\n");
    out.push_str(&format!("def regexHead : List Char := [{}]\n\n", list(&head.chars().map(|c| c as u32).collect::<Vec<_>>())));
    let _ = plain;
    // UTF-8 encodings by the running std (`char::encode_utf8`): every encoded-length boundary +-1, the surrogate
    // gap, and a spread over the whole range — the model's `utf8` (used to state "String order = byte order")
    // is re-checked against them on every run
    let mut scalars: Vec<u32> = vec![];
    for b in [0u32, 0x7f, 0x80, 0x7ff, 0x800, 0xd7ff, 0xe000, 0xffff, 0x10000, 0x10ffff] {
        for d in [-1i64, 0, 1] {
            let n = b as i64 + d;
            if n >= 0 {
                scalars.push(n as u32);
            }
        }
    }
    scalars.extend((0u32..0x110000).step_by(4099));
    scalars.sort_unstable();
    scalars.dedup();
    let rows: Vec<String> = scalars
        .into_iter()
        .filter_map(char::from_u32)
        .map(|c| {
            let mut buf = [0u8; 4];
            let bytes = c.encode_utf8(&mut buf).as_bytes().iter().map(|b| b.to_string()).collect::<Vec<_>>().join(", ");
            format!("({}, [{bytes}])", c as u32)
        })
        .collect();
    out.push_str("/-- C19: (scalar value, bytes of `char::encode_utf8`) computed by the running std -/\n");
    out.push_str(&format!("def utf8Samples : List (Nat × List Nat) := [{}]\n\n", rows.join(", ")));
}

pub fn run(cx: &mut Ctx) {
    // ---- (1) corpus: design witnesses and minimised past failures -------------------------------
    let r1 = Rec { id: 1, s: "x".into(), tags: vec![], o: None };
    one_jsonl(cx, "dir/.gz", &[r1.clone()]); // DESIGN §8 #16: written plain, read through gzip
    one_jsonl(cx, ".zst", &[r1.clone(), r1.clone()]);
    one_jsonl::<Rec>(cx, "dir/.gz", &[]);
    one_jsonl(cx, "part-0.BZIP2", &[r1.clone()]); // a second alternative of a branch, upper case: a chain that tests the raw key there writes plain
    one_jsonl(cx, "part-0.Zstd", &[r1.clone()]);
    one_jsonl(cx, "x.gz/", &[r1.clone()]);
    one_jsonl(cx, "data.jsonl.GZ", &[r1.clone()]);
    one_match(cx, "a?c", &["a\nc".into(), "abc".into(), "a/c".into()], false); // `.` does not match \n without (?s)
    one_match(cx, "**", &["a\nb".into(), "x".into()], false);
    one_match(cx, "a/**/b", &["a/b".into(), "a//b".into(), "a/x/b".into(), "a/x/y/b".into()], false);
    one_match(cx, "logs/2024-01-*/data.jsonl", &["logs/2024-01-01/data.jsonl".into(), "logs/2024-01-02/x/data.jsonl".into(), "logs/2024-02-01/data.jsonl".into()], false);
    one_match(cx, "a+(b)[c]{d}^$|\\.#-~&", &["a+(b)[c]{d}^$|\\.#-~&".into(), "aa(b)[c]{d}^$|\\.#-~&".into()], false);
    one_match(cx, "*", &[], true);
    // key order: Rust `String` order is UTF-8 byte order, the model sorts by scalar value — the two agree, also
    // across every encoded-length boundary (1/2/3/4 bytes) and around the surrogate gap (in UTF-16 order
    // U+E000 would sort AFTER U+10000)
    let bounds = ['\u{0}', '\u{7f}', '\u{80}', '\u{7ff}', '\u{800}', '\u{d7ff}', '\u{e000}', '\u{ffff}', '\u{10000}', '\u{10ffff}'];
    let mut bkeys: Vec<String> = vec![];
    for c in bounds.iter().rev() {
        bkeys.push(format!("k{c}"));
        bkeys.push(format!("k{c}a"));
        bkeys.push(format!("{c}"));
    }
    one_match(cx, "**", &bkeys, false);
    one_match(cx, "k?*", &bkeys, false);
    // long patterns (beyond the 1024-byte key limit of real stores; the regex crate's compiled-size limit,
    // not modelled, only rejects patterns with several thousand wildcards)
    one_match(cx, &"?".repeat(300), &["x".repeat(300), "x".repeat(299), "/".repeat(300), "x".repeat(301)], false);
    one_match(cx, &format!("{}*{}", "ab".repeat(150), "./".repeat(100)), &[format!("{}{}", "ab".repeat(150), "./".repeat(100)), format!("{}zz{}", "ab".repeat(150), "./".repeat(100)), format!("{}z/z{}", "ab".repeat(150), "./".repeat(100))], false);
    one_match(cx, &"**/".repeat(6), &["x/".repeat(6), "x/".repeat(5), "xy/z/".repeat(6), "/".repeat(6)], false);
    for p in ["", "*", "**", "***", "****", "?", "a*", "*a", "a**b", "a.b", "[a]", "a\\b", "^$", "x{1}", "a|b", "(?s)", "\n", "é*日"] {
        one_re(cx, p);
    }

    // ---- (2) small-scope exhaustive ----------------------------------------------------------------
    // block A: the wildcards, the separator, the dot; keys with a second letter, a line feed and a `+`
    // block B: the same plus three regex metacharacters as PATTERN characters (`+` a quantifier, `(` a group
    //          opener that makes the regex invalid when unescaped, `$` an anchor), keys over the same characters
    let blocks: [(&[&str], usize, &[&str]); 2] = [
        (&["*", "**", "?", "/", ".", "a"], cx.budget(4, 5), &["/", ".", "a", "b", "\n", "+"]),
        (&["*", "**", "?", "/", ".", "a", "+", "(", "$"], cx.budget(3, 4), &["/", ".", "a", "+", "(", "$"]),
    ];
    let kn = 4;
    let mut seen_pats: BTreeSet<String> = BTreeSet::new();
    for (ptoks, pn, kalpha) in blocks {
        let pats: Vec<String> = all_strings(ptoks, pn).into_iter().collect::<BTreeSet<_>>().into_iter().collect();
        let keys = all_strings(kalpha, kn);
        let universe: BTreeSet<String> = keys.iter().cloned().collect();
        let st = mk_store(&keys);
        let alpha_s: String = kalpha.concat();
        for p in &pats {
            st.take_listing();
            let real = guarded(|| expand_cloud_glob(&st, B, p).map_err(|e| format!("{:?}", e.kind)));
            let listing = st.take_listing();
            let i = cx.case(format!("GLOBALL {} {} {kn}", xs(p), xs(&alpha_s)), keys_answer(&listing, &real, true), false);
            let nt = glob_oracle(cx, i, p, &universe, &listing, &real, false);
            cx.nontrivial[i] = nt;
            cx.count(if nt { "all:some-not-all" } else { "all:none-or-all" });
            // the two references (harness `ref_match`, model `globMatch`) over the same universe
            let exp: Vec<&String> = universe.iter().filter(|k| ref_match(p, k)).collect();
            let mut ans = format!("N {}", exp.len());
            for k in exp {
                ans.push(' ');
                ans.push_str(&xs(k));
            }
            cx.case(format!("REFALL {} {} {kn}", xs(p), xs(&alpha_s)), ans, nt);
            if seen_pats.insert(p.clone()) {
                one_re(cx, p);
            }
        }
        cx.exhaustive_blocks.push(format!(
            "glob: all {} distinct patterns of <= {pn} tokens over {{{}}} x all {} keys of length <= {kn} over {{{}}} (one store holding every key; {} pattern-key pairs; real expansion, recorded listing prefix, harness reference and model reference compared on each)",
            pats.len(), ptoks.join(","), keys.len(), kalpha.iter().map(|c| c.escape_default().to_string()).collect::<Vec<_>>().join(","), pats.len() * keys.len()
        ));
    }
    // every single ASCII character as a pattern against every single ASCII character as a key
    let ascii: Vec<String> = (0u32..128).map(|n| char::from_u32(n).unwrap().to_string()).collect();
    for p in &ascii {
        one_re(cx, p);
        one_match(cx, p, &ascii, false);
        one_match(cx, &format!("a{p}b"), &ascii.iter().map(|k| format!("a{k}b")).collect::<Vec<_>>(), false);
    }
    cx.exhaustive_blocks.push("glob: each of the 128 ASCII characters as a pattern (alone and between letters) x each of the 128 ASCII characters as a key".into());
    // codec choice: stems x extensions x {0,1,3 records}
    let r2 = Rec { id: -7, s: "line1\nline2".into(), tags: vec!["BZh91AY&SY".into(), "".into()], o: Some(3) };
    let r3 = Rec { id: i64::MAX, s: "日本語".into(), tags: vec!["\r".into()], o: None };
    let exts = all_exts();
    let e1 = [Rec2::Unit, Rec2::N(i64::MIN), Rec2::T("BZh\n\u{1f}\u{8b}".into(), vec![None, Some(true)]), Rec2::S { m: [("k".to_string(), u64::MAX), ("".to_string(), 0)].into_iter().collect(), u: () }];
    for stem in STEMS {
        for ext in &exts {
            let key = format!("{stem}{ext}");
            one_jsonl(cx, &key, &[r1.clone(), r2.clone(), r3.clone()]);
            if cx.tier != crate::ctx::Tier::Quick || stem.len() <= 4 {
                one_jsonl::<Rec>(cx, &key, &[]);
                one_jsonl(cx, &key, &[r2.clone()]);
                one_jsonl(cx, &key, &e1);
            }
        }
    }
    cx.exhaustive_blocks.push(format!(
        "jsonl: {} key stems x {} tails (each of the {} documented extensions in lower/UPPER/Capitalised/aLtErNaTiNg/last-letter case, double extensions, near misses, dot-files, directories named like archives) x record vectors of 0/1/3 (struct) and 4 (enum)",
        STEMS.len(), exts.len(), CODEC_EXTS.len()
    ));

    // ---- (3) random ---------------------------------------------------------------------------------
    let rounds = cx.budget(4000, 40000);
    for _ in 0..rounds {
        let toks = gen_pattern(cx, 12);
        let pat = toks.concat();
        one_re(cx, &pat);
        let keys = gen_keys(cx, &toks);
        let required = cx.rng.chance(1, 8);
        one_match(cx, &pat, &keys, required);
    }
    // segment-structured patterns and keys (shared prefixes, wildcard at position 0, `**` in the middle)
    let rounds = cx.budget(2500, 25000);
    for _ in 0..rounds {
        let nseg = 1 + cx.rng.below(4);
        let mut toks: Vec<String> = vec![];
        for i in 0..nseg {
            if i > 0 {
                toks.push("/".into());
            }
            match cx.rng.below(6) {
                0 => toks.push("*".into()),
                1 => toks.push("**".into()),
                2 => {
                    toks.push((*cx.rng.pick(SEG)).to_string());
                    toks.push("*".into());
                }
                3 => {
                    toks.push("*".into());
                    toks.push((*cx.rng.pick(SEG)).to_string());
                }
                4 => {
                    toks.push("?".into());
                    toks.push((*cx.rng.pick(SEG)).to_string());
                }
                _ => toks.push((*cx.rng.pick(SEG)).to_string()),
            }
        }
        let pat = toks.concat();
        let nk = cx.rng.below(10);
        let mut keys = vec![];
        for _ in 0..nk {
            let ns = 1 + cx.rng.below(4);
            let k = (0..ns).map(|_| (*cx.rng.pick(SEG)).to_string()).collect::<Vec<_>>().join("/");
            keys.push(k);
        }
        for _ in 0..cx.rng.below(4) {
            // instantiate token by token; multi-character literal tokens are copied
            keys.push(instantiate(cx, &toks));
        }
        one_match(cx, &pat, &keys, false);
        cx.count("match:segment-structured");
    }
    let rounds = cx.budget(600, 6000);
    for _ in 0..rounds {
        let stem = if cx.rng.chance(1, 2) {
            (*cx.rng.pick(STEMS)).to_string()
        } else {
            let m = cx.rng.below(8);
            (0..m).map(|_| *cx.rng.pick(LIT)).collect::<String>()
        };
        let ext = cx.rng.pick(&exts).clone();
        let key = format!("{stem}{ext}");
        match cx.rng.below(6) {
            0 => {
                let n = cx.rng.below(6);
                let recs: Vec<Rec2> = (0..n).map(|_| gen_rec2(cx)).collect();
                one_jsonl(cx, &key, &recs);
            }
            1 => {
                let n = cx.rng.below(6);
                let recs: Vec<String> = (0..n).map(|_| cx.rng.pick(STR_POOL).to_string()).collect();
                one_jsonl(cx, &key, &recs);
            }
            2 => {
                let n = cx.rng.below(6);
                let recs: Vec<Option<Vec<i64>>> = (0..n).map(|_| if cx.rng.chance(1, 3) { None } else { Some((0..cx.rng.below(4)).map(|_| cx.rng.range(-9, 9)).collect()) }).collect();
                one_jsonl(cx, &key, &recs);
            }
            _ => {
                let recs = gen_recs(cx);
                one_jsonl(cx, &key, &recs);
            }
        }
    }
    let rounds = cx.budget(600, 6000);
    for _ in 0..rounds {
        let no = 1 + cx.rng.below(7);
        let mut objs = vec![];
        for _ in 0..no {
            let dir = *cx.rng.pick(&["", "d/", "d/e/", "logs/2024-01-", "a.b/"]);
            let name = *cx.rng.pick(&["x", "y", "data", "part-0", "part-1", ".h", "", "é"]);
            let ext = *cx.rng.pick(&["", ".jsonl", ".jsonl.gz", ".GZ", ".zst", ".bz2", ".xz", ".gz"]);
            let n = cx.rng.below(4);
            objs.push((format!("{dir}{name}{ext}"), (0..n).map(|_| gen_rec(cx)).collect::<Vec<_>>()));
        }
        let pat = match cx.rng.below(8) {
            0 | 6 => "**".to_string(),
            7 => "**.*".to_string(),
            1 => "d/*".to_string(),
            2 => "*".to_string(),
            3 => "**/*.g?".to_string(),
            4 => "d/**".to_string(),
            _ => {
                if objs.is_empty() { "?".to_string() } else {
                    let k = objs[cx.rng.below(objs.len())].0.clone();
                    let cs: Vec<char> = k.chars().collect();
                    if cs.is_empty() { "*".to_string() } else {
                        let i = cx.rng.below(cs.len());
                        let mut p: String = cs[..i].iter().collect();
                        p.push_str(*cx.rng.pick(WILD));
                        p
                    }
                }
            }
        };
        one_read(cx, &pat, &objs);
    }
}
