//! C01, round 3 (PIPE3b): the sorted terminals (`collect_seq_sorted`, `collect_par_sorted(None, Some(n))`,
//! `collect_par_sorted_by_key(None, Some(n))`), sources other than `from_vec` (`from_iter`, `from_custom_source`
//! with a user `VecOps` whose `len` is `None` / wrong and whose `split` returns `None`, more, fewer or empty parts —
//! and three contract-violating policies, correspondence only), `apply_composite` around barriers, and float
//! aggregates (`pipe_float.rs`). Request kinds `PIPEX` (`pipe_ext.rs`) and `PIPEFL` (`pipe_float.rs`).

use crate::ctx::Ctx;
use crate::pipe::ext::*;
use crate::pipe::*;

fn flat(p: &Prog) -> Prog { Prog { shape: p.shape, src: p.src.clone(), steps: flatten_steps(&p.steps) } }
fn final_shape(p: &Prog) -> Option<Shape> { p.steps.iter().fold(Some(p.shape), |s, st| s.and_then(|s| shape_after(s, st))) }

/// a random program the C01 oracles can judge exactly: reorder-inert (the listed reorder finding belongs to C02/C03),
/// hazard-free, reference = rows
fn gen_ok(cx: &mut Ctx, o: &GenOpts) -> Prog {
    loop {
        let p = gen_prog(&mut cx.rng, o);
        if reorder_inert(&p) && hazard_free(&p) && matches!(reference(&p), RefOut::Rows(_)) { return p; }
    }
}

pub fn lawful_specs() -> Vec<SourceSpec> {
    use LenPol as L; use SplitPol as S;
    vec![
        SourceSpec::Iter,
        SourceSpec::Custom(L::Exact, S::None), SourceSpec::Custom(L::None, S::None), SourceSpec::Custom(L::None, S::Chunks(2)),
        SourceSpec::Custom(L::Exact, S::Chunks(1)), SourceSpec::Custom(L::Exact, S::Chunks(3)), SourceSpec::Custom(L::Exact, S::Chunks(1000)),
        SourceSpec::Custom(L::Exact, S::Plus(0)), SourceSpec::Custom(L::Exact, S::Plus(2)), SourceSpec::Custom(L::Exact, S::Minus(1)), SourceSpec::Custom(L::Exact, S::Minus(5)),
        SourceSpec::Custom(L::Exact, S::Empties(2)), SourceSpec::Custom(L::Fixed(3), S::Empties(1)),
        SourceSpec::Custom(L::Fixed(0), S::Plus(0)), SourceSpec::Custom(L::Fixed(1000), S::Plus(0)), SourceSpec::Custom(L::Fixed(1000), S::Plus(3)),
    ]
}
pub fn violating_specs() -> Vec<SourceSpec> {
    use LenPol as L; use SplitPol as S;
    vec![SourceSpec::Custom(L::Exact, S::DropLast(2)), SourceSpec::Custom(L::Exact, S::RevParts(1)), SourceSpec::Custom(L::Exact, S::DupFirst(2)), SourceSpec::Custom(L::Exact, S::RevParts(2))]
}

pub fn run(cx: &mut Ctx) {
    let o = XOpts { par_vs_seq: true, vs_reference: true };
    let kv = |k: i64, v: i64| V::pair(V::I(k), V::I(v));

    /* ---- sorted terminals: corpus + small-scope exhaustive ---- */
    // equal keys with different values in both orders: `sort_by` on the key only must keep the arrival order
    let corpus = vec![
        Prog { shape: Shape::KV, src: vec![kv(1, 9), kv(0, 5), kv(1, 2), kv(0, 7), kv(1, 2)], steps: vec![] },
        Prog { shape: Shape::KV, src: vec![kv(1, 9), kv(0, 5), kv(1, 2), kv(0, 7)], steps: vec![Step::Gbk, Step::Gsum] },
        Prog { shape: Shape::T, src: vec![V::I(3), V::S("bb".into()), V::I(2), V::pair(V::I(1), V::I(1)), V::N, V::L(vec![V::I(0), V::I(0)])], steps: vec![] },
    ];
    for p in &corpus {
        let sh = final_shape(p).unwrap();
        check_prog_x(cx, p, &SourceSpec::Vec, Terminal::Sorted, &[Mode::Seq, Mode::Par(1), Mode::Par(2), Mode::Par(3)], &o);
        if sh == Shape::KV { check_prog_x(cx, p, &SourceSpec::Vec, Terminal::SortedByKey, &[Mode::Par(1), Mode::Par(2), Mode::Par(3)], &o); }
    }
    // long inputs with few keys (std's sorts switch algorithm above ~20 elements): the stable key sort must keep the
    // arrival order of equal-key rows; barrier-free, so the expected sequence is exact
    for n in [40usize, 97, 260] {
        let src: Vec<V> = (0..n as i64).map(|i| kv((i * 7) % 3, (i * 31) % 17)).collect();
        let p = Prog { shape: Shape::KV, src, steps: vec![Step::MapValues(Fn_::Add(1))] };
        check_prog_x(cx, &p, &SourceSpec::Vec, Terminal::SortedByKey, &[Mode::Par(1), Mode::Par(3), Mode::Par(64)], &o);
        check_prog_x(cx, &p, &SourceSpec::Vec, Terminal::Sorted, &[Mode::Seq, Mode::Par(3)], &o);
    }
    let maxlen = size_for(cx, 3, 4);
    let mut inputs: Vec<Vec<V>> = vec![vec![]];
    let mut frontier: Vec<Vec<V>> = vec![vec![]];
    for _ in 0..maxlen {
        let mut next = vec![];
        for s in &frontier { for k in 0..2i64 { for v in 0..2i64 { let mut t = s.clone(); t.push(kv(k, v)); next.push(t); } } }
        inputs.extend(next.iter().cloned());
        frontier = next;
    }
    let tails: Vec<Vec<Step>> = vec![vec![], vec![Step::MapValues(Fn_::Neg)], vec![Step::CombineValues(Comb::Sum)]];
    let mut n_ex = 0;
    for src in &inputs {
        for t in &tails {
            let p = Prog { shape: Shape::KV, src: src.clone(), steps: t.clone() };
            let par: Vec<Mode> = (1..=maxlen.max(1)).map(Mode::Par).collect();
            let mut all = vec![Mode::Seq]; all.extend(par.iter().cloned());
            check_prog_x(cx, &p, &SourceSpec::Vec, Terminal::Sorted, &all, &o);
            check_prog_x(cx, &p, &SourceSpec::Vec, Terminal::SortedByKey, &par, &o);
            n_ex += 2;
        }
    }
    cx.exhaustive_blocks.push(format!("sorted terminals: all keyed inputs of length <= {maxlen} over 2 keys x 2 values (equal keys, equal rows) x 3 tails x sorted (seq + par 1..{maxlen}) and sorted_by_key (par 1..{maxlen}) ({n_ex} programs)"));

    /* ---- sorted terminals after random programs (any mixture of barriers; one hash-ordered step at most) ---- */
    let opts = GenOpts { max_steps: 8, max_rows: size_for(cx, 24, 100), barriers: true, joins: false, globals: true, nonlocal_batches: false };
    let rounds = cx.budget(120, 3000);
    let mut done = 0;
    while done < rounds {
        let mut p = gen_ok(cx, &opts);
        if p.canon() == "deep" { continue; }
        match final_shape(&p) { Some(Shape::KG) => p.steps.push(Step::Glen), Some(Shape::R) => p.steps.push(Step::Unresult), _ => {} }
        // a third of the keyed results are collected as plain values (element type `V`: every variant of the order)
        if final_shape(&p) == Some(Shape::KV) && done % 3 == 0 { p.steps.push(if done % 2 == 0 { Step::Unkey } else { Step::Values }); }
        let sh = final_shape(&p).unwrap();
        let choices = partition_choices(p.src.len());
        let (a, b) = (*cx.rng.pick(&choices), *cx.rng.pick(&choices));
        check_prog_x(cx, &p, &SourceSpec::Vec, Terminal::Sorted, &[Mode::Seq, Mode::Par(a), Mode::Par(b)], &o);
        if sh == Shape::KV { check_prog_x(cx, &p, &SourceSpec::Vec, Terminal::SortedByKey, &[Mode::Par(a), Mode::Par(b)], &o); }
        done += 1;
    }

    /* ---- sources: from_iter and user VecOps in front of every kind of step ---- */
    let specs = lawful_specs();
    let bad = violating_specs();
    // the empty source and a one-row source under every policy (zero parts, `[[]]`, `[[], [x], []]` …)
    let mut n_s = 0;
    for src in [vec![], vec![kv(0, 1)], vec![kv(0, 1), kv(1, 2), kv(0, 3), kv(1, 4), kv(2, 5)]] {
        for spec in specs.iter().chain(bad.iter()) {
            for steps in [vec![], vec![Step::Gbk], vec![Step::CombineValues(Comb::Sum)], vec![Step::Values, Step::CombineGlobally(Comb::Sum, Some(2))], vec![Step::Values, Step::CombineGlobally(Comb::Count, None), Step::Map(Fn_::Add(1))]] {
                let p = Prog { shape: Shape::KV, src: src.clone(), steps };
                check_prog_x(cx, &p, spec, Terminal::Collect, &[Mode::Seq, Mode::Par(1), Mode::Par(2), Mode::Par(4)], &o);
                n_s += 1;
            }
        }
    }
    cx.exhaustive_blocks.push(format!("sources: {} lawful + {} contract-violating VecOps policies x sources of 0, 1, 5 rows x 5 tails x seq + par 1, 2, 4 ({n_s} programs)", specs.len(), bad.len()));
    let opts = GenOpts { max_steps: 7, max_rows: size_for(cx, 20, 80), barriers: true, joins: true, globals: true, nonlocal_batches: false };
    for i in 0..cx.budget(150, 4000) {
        let mut p = gen_ok(cx, &opts);
        if i % 9 == 0 { p.src.clear(); if !matches!(reference(&p), RefOut::Rows(_)) { continue; } }
        let spec = if i % 8 == 7 { cx.rng.pick(&bad).clone() } else { cx.rng.pick(&specs).clone() };
        let choices = partition_choices(p.src.len());
        let (a, b) = (*cx.rng.pick(&choices), *cx.rng.pick(&choices));
        check_prog_x(cx, &p, &spec, Terminal::Collect, &[Mode::Seq, Mode::Par(a), Mode::Par(b)], &o);
    }

    /* ---- apply_composite around barriers ---- */
    let opts = GenOpts { max_steps: 8, max_rows: size_for(cx, 20, 60), barriers: true, joins: false, globals: true, nonlocal_batches: false };
    for _ in 0..cx.budget(60, 1500) {
        let p = gen_ok(cx, &opts);
        if p.steps.is_empty() { continue; }
        let mut steps = vec![];
        let mut i = 0;
        let mut sh = p.shape;
        while i < p.steps.len() {
            let take = 1 + cx.rng.below(3.min(p.steps.len() - i));
            let piece: Vec<Step> = p.steps[i..i + take].to_vec();
            let sh_out = piece.iter().fold(Some(sh), |s, st| s.and_then(|s| shape_after(s, st))).unwrap();
            if cx.rng.chance(2, 3) && sh != Shape::R && sh_out != Shape::R { steps.push(Step::Composite(piece)); } else { steps.extend(piece); }
            sh = sh_out;
            i += take;
        }
        let q = Prog { shape: p.shape, src: p.src.clone(), steps };
        debug_assert_eq!(steps_enc(&flat(&q).steps), steps_enc(&p.steps));
        let choices = partition_choices(q.src.len());
        let a = *cx.rng.pick(&choices);
        check_prog_x(cx, &q, &SourceSpec::Vec, Terminal::Collect, &[Mode::Seq, Mode::Par(a)], &o);
    }

    /* ---- float aggregates: Sum<f64> / AverageF64 behind a map to f64, all four combine entry points ---- */
    {
        use crate::pipe::float::*;
        let opts = GenOpts { max_steps: 6, max_rows: size_for(cx, 60, 400), barriers: true, joins: false, globals: false, nonlocal_batches: false };
        let thread_counts: &[usize] = &[0, 1, 2, 3, 4, 8, 16];
        let rounds = cx.budget(160, 4000);
        let mut done = 0;
        while done < rounds {
            let mut p = gen_ok(cx, &opts);
            if p.canon() == "deep" { continue; }
            let per_key = done % 2 == 0;
            // end in the shape the entry point needs
            match (final_shape(&p), per_key) {
                (Some(Shape::KG), _) => p.steps.push(Step::Glen),
                (Some(Shape::R), _) => p.steps.push(Step::Unresult),
                _ => {}
            }
            match (final_shape(&p), per_key) {
                (Some(Shape::T), true) => p.steps.push(Step::KeyBy(KeyFn::Kmod(1 + cx.rng.range(0, 3)))),
                (Some(Shape::KV), false) => p.steps.push(Step::Values),
                _ => {}
            }
            if !hazard_free(&p) || !reorder_inert(&p) { continue; }
            let tof = *cx.rng.pick(&[ToF::Tenth, ToF::Recip, ToF::Third]);
            let agg = *cx.rng.pick(&[FAgg::Sum, FAgg::Avg]);
            let parts = *cx.rng.pick(&partition_choices(p.src.len()));
            let entry = if per_key { *cx.rng.pick(&[FEntry::Values, FEntry::ValuesLifted]) }
                else { let fo = gen_fanout(&mut cx.rng, parts); if cx.rng.chance(1, 2) { FEntry::Global(fo) } else { FEntry::GlobalLifted(fo) } };
            let choices = partition_choices(p.src.len());
            let (a, b) = (*cx.rng.pick(&choices), *cx.rng.pick(&choices));
            PAR_THREADS.store(thread_counts[done % thread_counts.len()], std::sync::atomic::Ordering::SeqCst);
            check_float(cx, &p, tof, agg, entry, &[Mode::Seq, Mode::Par(a), Mode::Par(b), Mode::Par(parts)]);
            done += 1;
        }
        PAR_THREADS.store(0, std::sync::atomic::Ordering::SeqCst);
        // long sums: 400 terms over 3 keys, every partition count of the standard list
        let src: Vec<V> = (0..400i64).map(|i| V::pair(V::I(i % 3), V::I((i * 7919) % 1013))).collect();
        for (agg, tof) in [(FAgg::Sum, ToF::Tenth), (FAgg::Avg, ToF::Recip), (FAgg::Sum, ToF::Third)] {
            let modes: Vec<Mode> = std::iter::once(Mode::Seq).chain(partition_choices(400).into_iter().map(Mode::Par)).collect();
            check_float(cx, &Prog { shape: Shape::KV, src: src.clone(), steps: vec![] }, tof, agg, FEntry::Values, &modes);
            check_float(cx, &Prog { shape: Shape::KV, src: src.clone(), steps: vec![Step::Values] }, tof, agg, FEntry::Global(Some(3)), &modes);
        }
    }
}
