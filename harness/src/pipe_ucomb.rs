//! USER combiners for C05's clause "any user combiner that is associative and commutative" (next to `pipe::MinT` /
//! `pipe::MaxT`, whose accumulator is an `Option`). Their accumulators are NOT options, their `merge` is a
//! commutative monoid operation on the accumulators reachable from `create`, `add_input(a, v) = merge(a, add_input(create, v))`
//! and all of them use the trait's DEFAULT `build_from_group` — the plain algebraic laws that
//! `Props/C05.lean::lawful_of_algebraic_laws` bridges to `LawfulCombiner`. Lean counterparts: `Comb.uSumMod m`,
//! `Comb.uUnion`, `Comb.uMaxAbs` (`Model/ProgramUser.lean`).
//!
//! NEGATIVE CONTROL (not generated): "first seen" (`merge(a, b) = a.or(b)`) is associative but NOT commutative; the
//! engine merges in partition order, so it would still agree between modes — it is outside the property's hypothesis
//! and is therefore not used as evidence for it.

use crate::pipe::V;

/// (sum of `to_int` mod m, number of values); `m >= 1`
#[derive(Clone)]
pub struct SumModCount(pub i64);
impl ironbeam::CombineFn<V, (i64, i64), V> for SumModCount {
    fn create(&self) -> (i64, i64) { (0, 0) }
    fn add_input(&self, acc: &mut (i64, i64), v: V) {
        acc.0 = (acc.0.wrapping_add(v.to_int())).rem_euclid(self.0);
        acc.1 += 1;
    }
    fn merge(&self, acc: &mut (i64, i64), other: (i64, i64)) {
        acc.0 = (acc.0.wrapping_add(other.0)).rem_euclid(self.0);
        acc.1 += other.1;
    }
    fn finish(&self, acc: (i64, i64)) -> V { V::pair(V::I(acc.0), V::I(acc.1)) }
}
impl ironbeam::collection::LiftableCombiner<V, (i64, i64), V> for SumModCount {}

/// the set of values seen, kept as a strictly ascending `Vec` (order `V: Ord`); `merge` inserts the other
/// accumulator's elements one by one
#[derive(Clone)]
pub struct SortedUnion;
fn sorted_insert(acc: &mut Vec<V>, v: V) {
    match acc.binary_search(&v) {
        Ok(_) => {}
        Err(i) => acc.insert(i, v),
    }
}
impl ironbeam::CombineFn<V, Vec<V>, V> for SortedUnion {
    fn create(&self) -> Vec<V> { Vec::new() }
    fn add_input(&self, acc: &mut Vec<V>, v: V) { sorted_insert(acc, v); }
    fn merge(&self, acc: &mut Vec<V>, other: Vec<V>) { for v in other { sorted_insert(acc, v); } }
    fn finish(&self, acc: Vec<V>) -> V { V::L(acc) }
}
impl ironbeam::collection::LiftableCombiner<V, Vec<V>, V> for SortedUnion {}

/// the value of largest `(|to_int|, value)`; the accumulator is a one-slot `Vec` (empty = nothing seen); an empty
/// fold finishes as `N`
#[derive(Clone)]
pub struct MaxAbs;
pub fn abs_le(a: &V, b: &V) -> bool {
    let (x, y) = (a.to_int().unsigned_abs(), b.to_int().unsigned_abs());
    x < y || (x == y && a <= b)
}
impl ironbeam::CombineFn<V, Vec<V>, V> for MaxAbs {
    fn create(&self) -> Vec<V> { Vec::new() }
    fn add_input(&self, acc: &mut Vec<V>, v: V) {
        match acc.first() {
            None => acc.push(v),
            Some(c) => { if !abs_le(&v, c) { acc[0] = v; } }
        }
    }
    fn merge(&self, acc: &mut Vec<V>, other: Vec<V>) { for v in other { self.add_input(acc, v); } }
    fn finish(&self, acc: Vec<V>) -> V { acc.into_iter().next().unwrap_or(V::N) }
}
impl ironbeam::collection::LiftableCombiner<V, Vec<V>, V> for MaxAbs {}

/// round 5 — "last value seen": LAWFUL (`merge(fold xs, fold ys) = fold(xs ++ ys)`, unit `create`, associative) but NOT
/// commutative. Outside C05's "associative and commutative" clause, inside C03's "both give the same per-key result"
/// and C01's seq = par: the engine merges partition accumulators in partition order, so the answer is the last value in
/// SOURCE order in both modes, lifted or not. Lean: `Comb.uLast` (`Model/UserCombiners.lean::userLast`,
/// `Props/C05.lean::lawful_uLast`, `uLast_not_commutative`).
#[derive(Clone)]
pub struct Last;
impl ironbeam::CombineFn<V, Option<V>, V> for Last {
    fn create(&self) -> Option<V> { None }
    fn add_input(&self, acc: &mut Option<V>, v: V) { *acc = Some(v); }
    fn merge(&self, acc: &mut Option<V>, other: Option<V>) { if other.is_some() { *acc = other; } }
    fn finish(&self, acc: Option<V>) -> V { acc.unwrap_or(V::N) }
}
impl ironbeam::collection::LiftableCombiner<V, Option<V>, V> for Last {}
