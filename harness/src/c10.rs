//! C10 — compression is transparent and format detection is sound.
//!
//! Requests (paths and byte strings travel as lower-case hex of their UTF-8 / raw bytes, empty = `-`):
//!   CODECS                                   -> `name:ext,ext:magichex;...`  (running registry vs generated table)
//!   LOWER <path>                             -> hex of the ASCII shape of `to_lowercase()` (non-ASCII runs -> `?`)
//!   DETECT <path> <content>                  -> `R=<codec|plain> W=<codec|plain>`  decision of auto_detect_reader / _writer
//!   DETECTS <sched> <path> <content>         -> `R=<codec|plain>`  decision of auto_detect_reader on a `Read` whose i-th call
//!                                               returns at most sched[i] bytes (`-` = every call fills the buffer)
//!   RT <writer> <reader> <path> <plain> <opts>      -> `W=<codec|plain|other> R=<SAME|FAIL>`  write through an entry point, read back
//!   RD <reader> <path> C <codec> <plain> <opts>     -> `DECODED|VERBATIM|FAIL`  file = genuine <codec> stream of <plain>
//!   RD <reader> <path> P <raw> <opts>               -> `VERBATIM|FAIL`          file = these raw bytes
//!   CGLOB <local_jsonl|local_csv|cloud_jsonl> <opts> (<path> <writer> <plain>)*  -> `W=<c1>,<c2>,.. R=<SAME|FAIL>`
//!        every file written through its own writer entry point under its own name, all read through ONE glob call
//!   opts = `sh=<k>,per=<k>,par=<0|1>,hdr=<0|1>` (writer shards, streaming shard size, collect_par?, csv header flag)
//!
//! Real side: the real entry points on real temp files / the fake object store. The decision of
//! `auto_detect_reader` / `auto_detect_writer` is observed from the outside: the bytes that come out are
//! compared with what each codec's own library (flate2, zstd, bzip2, xz2 — linked directly by the harness)
//! produces for the same input.
//! Oracle (independent of the model, uses only the format specifications below): a path carrying a codec
//! extension (ASCII case-insensitive) is stored as a genuine stream of that codec that starts with the
//! format's signature and reads back identical; a neutral name with content that does not start with a
//! true signature is stored and read back verbatim; genuine streams under a neutral name are decoded.

use crate::ctx::{Ctx, guarded, hex};
use ironbeam::io::cloud::readers::{read_cloud_jsonl_glob, read_cloud_jsonl_vec, write_cloud_jsonl_vec};
use ironbeam::io::cloud::{FakeObjectIO, ObjectIO};
use ironbeam::io::compression::{auto_detect_reader, auto_detect_writer, verif_codec_table};
use ironbeam::{
    Pipeline, from_vec, read_csv, read_csv_streaming, read_csv_vec, read_jsonl, read_jsonl_streaming,
    read_jsonl_vec, write_csv_par, write_csv_vec, write_jsonl_par,
};
use ironbeam::io::jsonl::write_jsonl_vec;
use serde::{Deserialize, Serialize};
use std::io::{Cursor, Read, Write};
use std::path::{Path, PathBuf};
use std::sync::{Arc, Mutex};

/// The specification: (name, documented extensions, true format signature).
/// gzip RFC 1952; zstd RFC 8878; bzip2 "BZh"; xz file format 1.x header magic.
const SPEC: [(&str, &[&str], &[u8]); 4] = [
    ("gzip", &[".gz", ".gzip"], &[0x1f, 0x8b]),
    ("zstd", &[".zst", ".zstd"], &[0x28, 0xb5, 0x2f, 0xfd]),
    ("bzip2", &[".bz2", ".bzip2"], &[0x42, 0x5a, 0x68]),
    ("xz", &[".xz"], &[0xfd, 0x37, 0x7a, 0x58, 0x5a, 0x00]),
];

// ---------------------------------------------------------------------------------------------
// translator route: the running registry as a Lean table
// ---------------------------------------------------------------------------------------------

fn lean_str(s: &str) -> String {
    let mut o = String::from("\"");
    for c in s.chars() {
        match c {
            '"' => o.push_str("\\\""),
            '\\' => o.push_str("\\\\"),
            c if (' '..='~').contains(&c) => o.push(c),
            c => o.push_str(&format!("\\u{:04x}", c as u32)),
        }
    }
    o.push('"');
    o
}

pub fn tables(out: &mut String) {
    out.push_str("/-- C10: rows (name, extensions, magic bytes) of the running `CODEC_REGISTRY`\n    (`ironbeam::io::compression::verif_codec_table()`), in registry = detection order -/\n");
    out.push_str("def codecTable : List (String × List String × Option (List Nat)) :=\n  [");
    let rows: Vec<String> = verif_codec_table()
        .iter()
        .map(|(n, exts, magic)| {
            let e: Vec<String> = exts.iter().map(|x| lean_str(x)).collect();
            let m = match magic {
                Some(m) => format!("some [{}]", m.iter().map(|b| b.to_string()).collect::<Vec<_>>().join(", ")),
                None => "none".to_string(),
            };
            format!("({}, [{}], {})", lean_str(n), e.join(", "), m)
        })
        .collect();
    out.push_str(&rows.join(",\n   "));
    out.push_str("]\n\n");
}

// ---------------------------------------------------------------------------------------------
// independent codecs (the libraries themselves, not ironbeam's wrappers)
// ---------------------------------------------------------------------------------------------

fn enc(c: &str, plain: &[u8]) -> Vec<u8> {
    match c {
        "gzip" => {
            let mut e = flate2::write::GzEncoder::new(Vec::new(), flate2::Compression::default());
            e.write_all(plain).unwrap();
            e.finish().unwrap()
        }
        "zstd" => zstd::stream::encode_all(Cursor::new(plain), 3).unwrap(),
        "bzip2" => {
            let mut e = bzip2::write::BzEncoder::new(Vec::new(), bzip2::Compression::default());
            e.write_all(plain).unwrap();
            e.finish().unwrap()
        }
        "xz" => {
            let mut e = xz2::write::XzEncoder::new(Vec::new(), 6);
            e.write_all(plain).unwrap();
            e.finish().unwrap()
        }
        _ => unreachable!(),
    }
}

fn drain(mut r: impl Read) -> Result<Vec<u8>, String> {
    let mut v = Vec::new();
    match r.read_to_end(&mut v) {
        Ok(_) => Ok(v),
        Err(e) => Err(e.to_string()),
    }
}

fn dec(c: &str, data: &[u8]) -> Result<Vec<u8>, String> {
    let cur = Cursor::new(data.to_vec());
    match c {
        "gzip" => drain(flate2::read::GzDecoder::new(cur)),
        "zstd" => match zstd::stream::read::Decoder::new(cur) {
            Ok(d) => drain(d),
            Err(e) => Err(e.to_string()),
        },
        "bzip2" => drain(bzip2::read::BzDecoder::new(cur)),
        "xz" => drain(xz2::read::XzDecoder::new(cur)),
        _ => unreachable!(),
    }
}

// ---------------------------------------------------------------------------------------------
// specification helpers (oracle side)
// ---------------------------------------------------------------------------------------------

/// codec whose documented extension the path carries (ASCII case-insensitive suffix)
fn spec_ext(path: &str) -> Option<&'static str> {
    let p = path.to_ascii_lowercase();
    for (n, exts, _) in SPEC {
        for e in exts {
            if p.ends_with(e) {
                return Some(n);
            }
        }
    }
    None
}
/// codec whose true signature the content starts with
fn spec_sig(content: &[u8]) -> Option<&'static str> {
    SPEC.iter().find(|(_, _, s)| content.starts_with(s)).map(|x| x.0)
}

/// which codec (or none) turned `plain` into `stored`
fn classify_stored(stored: &[u8], plain: &[u8]) -> String {
    if stored == plain {
        return "plain".into();
    }
    for (n, _, sig) in SPEC {
        if stored.starts_with(sig) && dec(n, stored).as_deref() == Ok(plain) {
            return n.to_string();
        }
    }
    "other".into()
}

// ---------------------------------------------------------------------------------------------
// entry points
// ---------------------------------------------------------------------------------------------

#[derive(Serialize, Deserialize, Clone, Debug, PartialEq)]
struct Row {
    name: String,
    n: i64,
}

#[derive(Clone, Copy, PartialEq, Eq, Debug)]
enum W { Raw, JsonlVec, JsonlPar, CsvVec, CsvPar, PcJsonl, PcJsonlPar, PcCsv, PcCsvPar, CloudJsonl }
#[derive(Clone, Copy, PartialEq, Eq, Debug)]
enum R { Raw, JsonlVec, JsonlHelper, JsonlStreaming, CsvVec, CsvHelper, CsvStreaming, CloudJsonl }

const J_WRITERS: [W; 6] = [W::Raw, W::JsonlVec, W::JsonlPar, W::PcJsonl, W::PcJsonlPar, W::CloudJsonl];
const C_WRITERS: [W; 5] = [W::Raw, W::CsvVec, W::CsvPar, W::PcCsv, W::PcCsvPar];
const J_READERS: [R; 5] = [R::Raw, R::JsonlVec, R::JsonlHelper, R::JsonlStreaming, R::CloudJsonl];
const C_READERS: [R; 4] = [R::Raw, R::CsvVec, R::CsvHelper, R::CsvStreaming];

impl W {
    fn tok(self) -> &'static str {
        match self {
            W::Raw => "raw", W::JsonlVec => "jsonl_vec", W::JsonlPar => "jsonl_par", W::CsvVec => "csv_vec",
            W::CsvPar => "csv_par", W::PcJsonl => "pc_jsonl", W::PcJsonlPar => "pc_jsonl_par",
            W::PcCsv => "pc_csv", W::PcCsvPar => "pc_csv_par", W::CloudJsonl => "cloud_jsonl",
        }
    }
}
impl R {
    fn tok(self) -> &'static str {
        match self {
            R::Raw => "raw", R::JsonlVec => "jsonl_vec", R::JsonlHelper => "jsonl_helper",
            R::JsonlStreaming => "jsonl_streaming", R::CsvVec => "csv_vec", R::CsvHelper => "csv_helper",
            R::CsvStreaming => "csv_streaming", R::CloudJsonl => "cloud_jsonl",
        }
    }
}

#[derive(Clone)]
struct Shared(Arc<Mutex<Vec<u8>>>);
impl Write for Shared {
    fn write(&mut self, b: &[u8]) -> std::io::Result<usize> {
        self.0.lock().unwrap().extend_from_slice(b);
        Ok(b.len())
    }
    fn flush(&mut self) -> std::io::Result<()> { Ok(()) }
}

/// a payload: either records (with their independent plain serialisation) or raw bytes
#[derive(Clone)]
struct Payload {
    recs: Option<Vec<Row>>,
    headers: bool,
    plain: Vec<u8>,
}

fn jsonl_plain(recs: &[Row]) -> Vec<u8> {
    let mut v = Vec::new();
    for r in recs {
        // field order and escaping per RFC 8259 for the restricted alphabet the generator uses
        v.extend_from_slice(format!("{{\"name\":\"{}\",\"n\":{}}}\n", r.name, r.n).as_bytes());
    }
    v
}
fn csv_plain(recs: &[Row], headers: bool) -> Vec<u8> {
    let mut v = Vec::new();
    if headers && !recs.is_empty() {
        v.extend_from_slice(b"name,n\n");
    }
    for r in recs {
        v.extend_from_slice(format!("{},{}\n", r.name, r.n).as_bytes());
    }
    v
}

struct Env {
    root: PathBuf,
    next: usize,
}
impl Env {
    fn fresh(&mut self, rel: &str) -> PathBuf {
        self.next += 1;
        let d = self.root.join(format!("{}", self.next));
        d.join(rel)
    }
    fn cleanup(&self) {
        let d = self.root.join(format!("{}", self.next));
        let _ = std::fs::remove_dir_all(d);
    }
}

fn e2s<T, E: std::fmt::Display>(r: Result<T, E>) -> Result<T, String> {
    r.map_err(|e| format!("{e:#}"))
}

/// run a writer entry point; returns the stored bytes
fn real_write(w: W, path: &Path, key: &str, pl: &Payload, shards: usize) -> Result<Vec<u8>, String> {
    if let Some(parent) = path.parent() {
        let _ = std::fs::create_dir_all(parent);
    }
    let recs: &[Row] = pl.recs.as_deref().unwrap_or(&[]);
    let h = pl.headers;
    let from_file = |r: Result<usize, String>| -> Result<Vec<u8>, String> {
        r?;
        e2s(std::fs::read(path))
    };
    match w {
        W::Raw => {
            let buf = Shared(Arc::new(Mutex::new(Vec::new())));
            let mut wr = e2s(auto_detect_writer(buf.clone(), path))?;
            e2s(wr.write_all(&pl.plain))?;
            e2s(wr.flush())?;
            drop(wr);
            let v = buf.0.lock().unwrap().clone();
            Ok(v)
        }
        W::JsonlVec => from_file(e2s(write_jsonl_vec(path, recs))),
        W::JsonlPar => from_file(e2s(write_jsonl_par(path, recs, Some(shards)))),
        W::CsvVec => from_file(e2s(write_csv_vec(path, h, recs))),
        W::CsvPar => from_file(e2s(write_csv_par(path, recs, Some(shards), h))),
        W::PcJsonl => {
            let p = Pipeline::default();
            from_file(e2s(from_vec(&p, recs.to_vec()).write_jsonl(path)))
        }
        W::PcJsonlPar => {
            let p = Pipeline::default();
            from_file(e2s(from_vec(&p, recs.to_vec()).write_jsonl_par(path, Some(shards))))
        }
        W::PcCsv => {
            let p = Pipeline::default();
            from_file(e2s(from_vec(&p, recs.to_vec()).write_csv(path, h)))
        }
        W::PcCsvPar => {
            let p = Pipeline::default();
            from_file(e2s(from_vec(&p, recs.to_vec()).write_csv_par(path, None, h)))
        }
        W::CloudJsonl => {
            let st = FakeObjectIO::new();
            e2s(write_cloud_jsonl_vec(&st, "b", key, recs))?;
            e2s(st.get_object("b", key))
        }
    }
}

enum Out { Recs(Vec<Row>), Bytes(Vec<u8>) }

/// run a reader entry point on `stored` placed under `path` / `key`
fn real_read(r: R, path: &Path, key: &str, stored: &[u8], headers: bool, per: usize, par: bool) -> Result<Out, String> {
    if r != R::CloudJsonl {
        if let Some(parent) = path.parent() {
            let _ = std::fs::create_dir_all(parent);
        }
        e2s(std::fs::write(path, stored))?;
    }
    match r {
        R::Raw => {
            let f = e2s(std::fs::File::open(path))?;
            let rd = e2s(auto_detect_reader(f, path))?;
            Ok(Out::Bytes(drain(rd)?))
        }
        R::JsonlVec => Ok(Out::Recs(e2s(read_jsonl_vec::<Row>(path))?)),
        R::JsonlHelper => {
            let p = Pipeline::default();
            Ok(Out::Recs(e2s(e2s(read_jsonl::<Row>(&p, path))?.collect_seq())?))
        }
        R::JsonlStreaming => {
            let p = Pipeline::default();
            let c = e2s(read_jsonl_streaming::<Row>(&p, path, per))?;
            Ok(Out::Recs(e2s(if par { c.collect_par(None, None) } else { c.collect_seq() })?))
        }
        R::CsvVec => Ok(Out::Recs(e2s(read_csv_vec::<Row>(path, headers))?)),
        R::CsvHelper => {
            let p = Pipeline::default();
            Ok(Out::Recs(e2s(e2s(read_csv::<Row>(&p, path, headers))?.collect_seq())?))
        }
        R::CsvStreaming => {
            let p = Pipeline::default();
            let c = e2s(read_csv_streaming::<Row>(&p, path, headers, per))?;
            Ok(Out::Recs(e2s(if par { c.collect_par(None, None) } else { c.collect_seq() })?))
        }
        R::CloudJsonl => {
            let st = FakeObjectIO::new();
            e2s(st.put_object("b", key, stored))?;
            Ok(Out::Recs(e2s(read_cloud_jsonl_vec::<Row, _>(&st, "b", key))?))
        }
    }
}

fn same_as(out: &Out, pl: &Payload) -> bool {
    match out {
        Out::Recs(v) => pl.recs.as_deref() == Some(v.as_slice()),
        Out::Bytes(b) => *b == pl.plain,
    }
}

fn hx(b: &[u8]) -> String {
    if b.is_empty() { "-".into() } else { hex(b) }
}

// ---------------------------------------------------------------------------------------------
// the request kinds
// ---------------------------------------------------------------------------------------------

fn one_codecs(cx: &mut Ctx) {
    let t = verif_codec_table();
    let s: Vec<String> = t
        .iter()
        .map(|(n, e, m)| format!("{}:{}:{}", n, e.join(","), m.as_ref().map_or("none".into(), |m| hx(m))))
        .collect();
    let i = cx.case("CODECS".into(), s.join(";"), true);
    // oracle: the registry's magic bytes are the true signatures, pairwise prefix-free
    for (n, _, m) in &t {
        let want = SPEC.iter().find(|x| x.0 == n).map(|x| x.2.to_vec());
        if want.is_some() && *m != want {
            cx.oracle_fail(i, "registry-magic-not-format-signature", format!("{n}: magic {:?} but the format signature is {:?}", m, want));
        }
    }
}

/// the model's lower-casing, re-implemented (tied to the Lean definition through LOWER requests)
fn lower_char_model(c: char) -> Vec<char> {
    if c.is_ascii_uppercase() { vec![c.to_ascii_lowercase()] }
    else if c == '\u{130}' { vec!['i', '\u{307}'] }
    else if c == '\u{212A}' { vec!['k'] }
    else { vec![c] }
}
fn ascii_shape(cs: impl Iterator<Item = char>) -> String {
    let mut o = String::new();
    let mut in_run = false;
    for c in cs {
        if c.is_ascii() { o.push(c); in_run = false; } else if !in_run { o.push('?'); in_run = true; }
    }
    o
}
fn one_lower(cx: &mut Ctx, s: &str) {
    let real = ascii_shape(s.to_lowercase().chars());
    cx.case(format!("LOWER {}", hx(s.as_bytes())), hx(real.as_bytes()), false);
    cx.count("lower");
}

/// outcome of pushing `content` through a reader
fn observe_reader(path: &str, content: &[u8]) -> String {
    let got: Result<Vec<u8>, String> = match guarded(|| {
        match auto_detect_reader(Cursor::new(content.to_vec()), path) {
            Ok(r) => drain(r),
            Err(e) => Err(format!("{e:#}")),
        }
    }) {
        Ok(x) => x,
        Err(_) => return "PANIC".into(),
    };
    let mut cands: Vec<&str> = vec![];
    if got.as_deref() == Ok(content) { cands.push("plain"); }
    for (n, _, _) in SPEC {
        if dec(n, content) == got { cands.push(n); }
    }
    match cands.len() {
        1 => cands[0].to_string(),
        0 => "UNKNOWN".into(),
        _ => format!("AMBIG({})", cands.join("|")),
    }
}
/// A `Read` that honours a read schedule: the i-th call returns at most `sched[i]` bytes (>= 1),
/// calls beyond the schedule fill the caller's buffer. Models pipes / sockets / chained readers.
struct ChunkedRead {
    data: Vec<u8>,
    pos: usize,
    sched: Vec<usize>,
    call: usize,
}
impl Read for ChunkedRead {
    fn read(&mut self, buf: &mut [u8]) -> std::io::Result<usize> {
        let limit = self.sched.get(self.call).copied().unwrap_or(usize::MAX).max(1);
        self.call += 1;
        let n = buf.len().min(limit).min(self.data.len() - self.pos);
        buf[..n].copy_from_slice(&self.data[self.pos..self.pos + n]);
        self.pos += n;
        Ok(n)
    }
}

/// decision of `auto_detect_reader` on a source with the given read schedule
fn observe_reader_sched(path: &str, content: &[u8], sched: &[usize]) -> String {
    let got: Result<Vec<u8>, String> = match guarded(|| {
        let src = ChunkedRead { data: content.to_vec(), pos: 0, sched: sched.to_vec(), call: 0 };
        match auto_detect_reader(src, path) {
            Ok(r) => drain(r),
            Err(e) => Err(format!("{e:#}")),
        }
    }) {
        Ok(x) => x,
        Err(_) => return "PANIC".into(),
    };
    let mut cands: Vec<&str> = vec![];
    if got.as_deref() == Ok(content) { cands.push("plain"); }
    for (n, _, _) in SPEC {
        if dec(n, content) == got { cands.push(n); }
    }
    match cands.len() {
        1 => cands[0].to_string(),
        0 => "UNKNOWN".into(),
        _ => format!("AMBIG({})", cands.join("|")),
    }
}

fn sched_tok(sched: &[usize]) -> String {
    if sched.is_empty() { "-".into() } else { sched.iter().map(|k| k.to_string()).collect::<Vec<_>>().join(",") }
}

/// DETECTS: the reader's decision must not depend on how the source chunks its reads
fn one_detect_sched(cx: &mut Ctx, path: &str, content: &[u8], sched: &[usize]) {
    let r = observe_reader_sched(path, content, sched);
    let ext = spec_ext(path);
    let sig = spec_sig(content);
    let i = cx.case(format!("DETECTS {} {} {}", sched_tok(sched), hx(path.as_bytes()), hx(content)), format!("R={r}"), ext.is_some() || sig.is_some());
    cx.count(&format!("detects:R={}", if r.starts_with("AMBIG") { "AMBIG" } else { &r }));
    cx.count(&format!("detects:first-read={}", match sched.first() { None => "full".to_string(), Some(k) if *k >= 6 => ">=6".to_string(), Some(k) => k.to_string() }));
    let want_r = ext.or(sig).unwrap_or("plain");
    if r != want_r {
        let sig_name = if ext.is_none() && sig.is_none() { "neutral-plain-content-detected-as-compressed" }
            else if ext.is_none() { "neutral-signature-not-recognised-short-first-read" } else { "extension-reader-decision-wrong" };
        cx.oracle_fail(i, sig_name, format!("path {path:?} content {} read schedule [{}]: reader decision {r}, specification says {want_r}", hx(&content[..content.len().min(12)]), sched_tok(sched)));
    }
}

fn observe_writer(path: &str, probe: &[u8]) -> String {
    let r = guarded(|| -> Result<Vec<u8>, String> {
        let buf = Shared(Arc::new(Mutex::new(Vec::new())));
        let mut w = e2s(auto_detect_writer(buf.clone(), path))?;
        e2s(w.write_all(probe))?;
        e2s(w.flush())?;
        drop(w);
        let v = buf.0.lock().unwrap().clone();
        Ok(v)
    });
    match r {
        Ok(Ok(stored)) => classify_stored(&stored, probe),
        Ok(Err(_)) => "ERR".into(),
        Err(_) => "PANIC".into(),
    }
}

fn one_detect(cx: &mut Ctx, path: &str, content: &[u8]) {
    let r = observe_reader(path, content);
    let w = observe_writer(path, b"probe-payload 0123456789\n");
    let ext = spec_ext(path);
    let sig = spec_sig(content);
    let nt = ext.is_some() || sig.is_some() || SPEC.iter().any(|(_, _, s)| !content.is_empty() && (s.starts_with(content) || content.starts_with(&s[..1])));
    let i = cx.case(format!("DETECT {} {}", hx(path.as_bytes()), hx(content)), format!("R={r} W={w}"), nt);
    cx.count(&format!("detect:R={}", if r.starts_with("AMBIG") { "AMBIG" } else { &r }));
    let want_r = ext.or(sig).unwrap_or("plain");
    let want_w = ext.unwrap_or("plain");
    if r != want_r {
        let sig_name = if ext.is_none() && sig.is_none() { "neutral-plain-content-detected-as-compressed" }
            else if ext.is_none() { "neutral-signature-not-recognised" } else { "extension-reader-decision-wrong" };
        cx.oracle_fail(i, sig_name, format!("path {path:?} content {}: reader decision {r}, specification says {want_r}", hx(&content[..content.len().min(12)])));
    }
    if w != want_w {
        cx.oracle_fail(i, "extension-writer-decision-wrong", format!("path {path:?}: writer decision {w}, specification says {want_w}"));
    }
}

struct RtOpts { shards: usize, per: usize, par: bool }
fn opts_tok(o: &RtOpts, headers: bool) -> String {
    format!("sh={},per={},par={},hdr={}", o.shards, o.per, u8::from(o.par), u8::from(headers))
}

fn one_rt(cx: &mut Ctx, env: &mut Env, w: W, r: R, rel: &str, pl: &Payload, o: &RtOpts) {
    let path = env.fresh(rel);
    // writer and reader are guarded separately: a panic while READING is a failed read, not a lost write
    let wres = guarded(|| real_write(w, &path, rel, pl, o.shards));
    let (wc, rc, detail) = match wres {
        Err(m) => ("PANIC".to_string(), "FAIL".to_string(), format!("writer panicked: {m}")),
        Ok(Err(e)) => ("ERR".to_string(), "FAIL".to_string(), format!("write error: {e}")),
        Ok(Ok(stored)) => {
            let wc = classify_stored(&stored, &pl.plain);
            // read back what the writer stored, through reader `r` (same path / key)
            let (rc, detail) = match guarded(|| real_read(r, &path, rel, &stored, pl.headers, o.per, o.par)) {
                Ok(Ok(out)) => if same_as(&out, pl) { ("SAME".to_string(), String::new()) } else { ("FAIL".to_string(), "read back different data".to_string()) },
                Ok(Err(e)) => ("FAIL".to_string(), format!("read error: {e}")),
                Err(m) => { cx.count("rt:reader-panicked"); ("FAIL".to_string(), format!("reader panicked: {m}")) }
            };
            (wc, rc, detail)
        }
    };
    env.cleanup();
    let ext = spec_ext(rel);
    let sig = spec_sig(&pl.plain);
    let nt = ext.is_some() || sig.is_some();
    let i = cx.case(
        format!("RT {} {} {} {} {}", w.tok(), r.tok(), hx(rel.as_bytes()), hx(&pl.plain), opts_tok(o, pl.headers)),
        format!("W={wc} R={rc}"),
        nt,
    );
    cx.count(&format!("rt:w={}", w.tok()));
    cx.count(&format!("rt:r={}", r.tok()));
    cx.count(&format!("rt:stored={wc}"));
    cx.count(if ext.is_some() { "rt:path=codec-ext" } else if sig.is_some() { "rt:path=neutral,content=signature" } else { "rt:path=neutral" });
    match ext {
        Some(c) => {
            if wc != c {
                cx.oracle_fail(i, &format!("codec-extension-not-stored-compressed:{}", w.tok()),
                    format!("{} to {rel:?}: stored as {wc}, expected a genuine {c} stream starting with its signature ({detail})", w.tok()));
            }
            if rc != "SAME" {
                cx.oracle_fail(i, &format!("codec-extension-roundtrip-fails:{}", w.tok()),
                    format!("{} to {rel:?} then {}: {detail}", w.tok(), r.tok()));
            }
        }
        None => {
            if sig.is_none() {
                if wc != "plain" {
                    cx.oracle_fail(i, "neutral-name-not-stored-verbatim", format!("{} to {rel:?}: stored as {wc}", w.tok()));
                }
                if rc != "SAME" {
                    cx.oracle_fail(i, "neutral-plain-content-not-read-verbatim", format!("{} to {rel:?} then {}: {detail}", w.tok(), r.tok()));
                }
            }
        }
    }
}

/// `file` is either a genuine stream (`codec` = Some) of `pl.plain`, or `pl.plain` itself
fn one_rd(cx: &mut Ctx, env: &mut Env, r: R, rel: &str, codec: Option<&'static str>, pl: &Payload, o: &RtOpts) {
    let file = match codec { Some(c) => enc(c, &pl.plain), None => pl.plain.clone() };
    // the assumed codec laws (hypothesis `Lawful` of the theorems), validated on the real libraries
    let law_broken = match codec {
        Some(c) => {
            let sig = SPEC.iter().find(|x| x.0 == c).unwrap().2;
            !(file.starts_with(sig) && dec(c, &file).as_deref() == Ok(&pl.plain[..]))
        }
        None => false,
    };
    let path = env.fresh(rel);
    let res = guarded(|| real_read(r, &path, rel, &file, pl.headers, o.per, o.par));
    env.cleanup();
    let (ans, detail) = match res {
        Ok(Ok(out)) => {
            if same_as(&out, pl) { (if codec.is_some() { "DECODED" } else { "VERBATIM" }, String::new()) }
            else if matches!(&out, Out::Bytes(b) if *b == file) { ("VERBATIM", String::new()) }
            else { ("FAIL", "different data".to_string()) }
        }
        Ok(Err(e)) => ("FAIL", e),
        Err(m) => { cx.count("rd:reader-panicked"); ("FAIL", format!("panic: {m}")) }
    };
    let ext = spec_ext(rel);
    let sig = spec_sig(&file);
    let req = match codec {
        Some(c) => format!("RD {} {} C {} {} {}", r.tok(), hx(rel.as_bytes()), c, hx(&pl.plain), opts_tok(o, pl.headers)),
        None => format!("RD {} {} P {} {}", r.tok(), hx(rel.as_bytes()), hx(&pl.plain), opts_tok(o, pl.headers)),
    };
    let i = cx.case(req, ans.to_string(), true);
    cx.count(&format!("rd:r={}", r.tok()));
    cx.count(&format!("rd:{}:{}", if codec.is_some() { "genuine" } else { "raw" }, ans));
    if codec.is_some() { cx.count("codec-law-validated(roundtrip+signature)"); }
    if law_broken {
        cx.oracle_fail(i, "codec-library-law-violated", format!("{codec:?}: compress output does not start with the format signature or does not decompress to the input"));
    }
    match (codec, ext) {
        (Some(c), None) => if ans != "DECODED" {
            cx.oracle_fail(i, "neutral-signature-not-recognised", format!("genuine {c} stream under neutral name {rel:?} read through {}: {ans} {detail}", r.tok()));
        },
        (Some(c), Some(e)) if c == e => if ans != "DECODED" {
            cx.oracle_fail(i, "codec-extension-read-fails", format!("genuine {c} stream under {rel:?} read through {}: {ans} {detail}", r.tok()));
        },
        (None, None) => if sig.is_none() && ans != "VERBATIM" {
            cx.oracle_fail(i, "neutral-plain-content-not-read-verbatim", format!("plain content {} under neutral name {rel:?} read through {}: {ans} {detail}", hx(&file[..file.len().min(12)]), r.tok()));
        },
        _ => {}
    }
}

#[derive(Clone, Copy, PartialEq, Eq)]
enum G { LocalJsonl, LocalCsv, CloudJsonl }
impl G {
    fn tok(self) -> &'static str { match self { G::LocalJsonl => "local_jsonl", G::LocalCsv => "local_csv", G::CloudJsonl => "cloud_jsonl" } }
}

/// CGLOB: files (name, writer, payload) are written into one directory / key prefix, each through its own
/// writer entry point under its own name (mixed codecs, case variants, neutral names side by side), then all
/// are read back through ONE glob call: `read_jsonl(dir/*)`, `read_csv(dir/*)`, `read_cloud_jsonl_glob(g/*)`.
/// Oracle: the result is the concatenation of all files' records in byte order of the names.
fn one_glob(cx: &mut Ctx, env: &mut Env, g: G, files: &[(String, W, Payload)], o: &RtOpts) {
    let mut files: Vec<(String, W, Payload)> = files.to_vec();
    files.sort_by(|a, b| a.0.as_bytes().cmp(b.0.as_bytes()));
    files.dedup_by(|a, b| a.0 == b.0);
    let headers = files.iter().any(|f| f.2.headers);
    let dir = env.fresh("g");
    let store = FakeObjectIO::new();
    let mut wcs: Vec<String> = vec![];
    let mut detail = String::new();
    for (name, w, pl) in &files {
        let rel = format!("g/{name}");
        let path = dir.join(name);
        let res = guarded(|| -> Result<Vec<u8>, String> {
            if g == G::CloudJsonl {
                let recs: &[Row] = pl.recs.as_deref().unwrap_or(&[]);
                e2s(write_cloud_jsonl_vec(&store, "b", &rel, recs))?;
                e2s(store.get_object("b", &rel))
            } else {
                real_write(*w, &path, &rel, pl, o.shards)
            }
        });
        match res {
            Ok(Ok(stored)) => wcs.push(classify_stored(&stored, &pl.plain)),
            Ok(Err(e)) => { wcs.push("ERR".into()); detail = format!("write error: {e}"); }
            Err(m) => { wcs.push("PANIC".into()); detail = format!("writer panicked: {m}"); }
        }
    }
    let want: Vec<Row> = files.iter().flat_map(|f| f.2.recs.clone().unwrap_or_default()).collect();
    let got = guarded(|| -> Result<Vec<Row>, String> {
        match g {
            G::LocalJsonl => {
                let p = Pipeline::default();
                e2s(e2s(read_jsonl::<Row>(&p, dir.join("*")))?.collect_seq())
            }
            G::LocalCsv => {
                let p = Pipeline::default();
                e2s(e2s(read_csv::<Row>(&p, dir.join("*"), headers))?.collect_seq())
            }
            G::CloudJsonl => e2s(read_cloud_jsonl_glob::<Row, _>(&store, "b", "g/*")),
        }
    });
    env.cleanup();
    let rc = match got {
        Ok(Ok(v)) => if v == want { "SAME" } else { detail = format!("read back {} records, expected {}", v.len(), want.len()); "FAIL" },
        Ok(Err(e)) => { detail = format!("read error: {e}"); "FAIL" }
        Err(m) => { detail = format!("reader panicked: {m}"); "FAIL" }
    };
    let mut req = format!("CGLOB {} {}", g.tok(), opts_tok(o, headers));
    for (name, w, pl) in &files {
        let wt = if g == G::CloudJsonl { W::CloudJsonl } else { *w };
        req.push_str(&format!(" {} {} {}", hx(format!("g/{name}").as_bytes()), wt.tok(), hx(&pl.plain)));
    }
    let i = cx.case(req, format!("W={} R={rc}", wcs.join(",")), true);
    cx.count(&format!("glob:{}", g.tok()));
    cx.count(&format!("glob:files={}", files.len()));
    let mut sound = true;
    for ((name, w, pl), wc) in files.iter().zip(&wcs) {
        let ext = spec_ext(name);
        let sig = spec_sig(&pl.plain);
        cx.count(&format!("glob:file:{}", ext.unwrap_or("neutral")));
        match ext {
            Some(c) => if wc != c {
                cx.oracle_fail(i, &format!("codec-extension-not-stored-compressed:{}", w.tok()), format!("glob member {name:?}: stored as {wc}, expected a genuine {c} stream ({detail})"));
            },
            None => if sig.is_none() { if wc != "plain" { cx.oracle_fail(i, "neutral-name-not-stored-verbatim", format!("glob member {name:?}: stored as {wc}")); } } else { sound = false; },
        }
    }
    if sound && rc != "SAME" {
        cx.oracle_fail(i, &format!("glob-read-of-compressed-files-fails:{}", g.tok()), format!("{} files {:?}: {detail}", files.len(), files.iter().map(|f| f.0.as_str()).collect::<Vec<_>>()));
    }
}

// ---------------------------------------------------------------------------------------------
// generators
// ---------------------------------------------------------------------------------------------

fn case_variant(cx: &mut Ctx, e: &str, k: usize) -> String {
    match k {
        0 => e.to_string(),
        1 => e.to_ascii_uppercase(),
        2 => { // Capitalised after the dot: ".Gz"
            let mut s = String::new();
            for (i, c) in e.chars().enumerate() { s.push(if i == 1 { c.to_ascii_uppercase() } else { c }); }
            s
        }
        _ => e.chars().map(|c| if cx.rng.chance(1, 2) { c.to_ascii_uppercase() } else { c }).collect(),
    }
}

const NEUTRAL_TAILS: [&str; 26] = [
    "", ".dat", ".jsonl", ".csv", ".txt", ".gzz", ".g", ".z", ".bz", ".bz3", ".zs", ".zstdd", ".x", ".xzz",
    "gz", "-gz", ".gz.bak", ".gz ", ".tgz", ".GZ.txt", ".gz\u{130}p", ".g\u{212A}z", ".\u{ff47}\u{ff5a}", "_xz", ".bzip", ".gzi",
];
const STEMS: [&str; 12] = ["x", "data", "a.b", "", "X.GZ", "BZh", "part-0001", "donn\u{e9}es", "archive.tar", ".hidden", "x.gz", "zst"];
const MIDS: [&str; 5] = ["", ".jsonl", ".csv", ".txt", ".JSONL"];
const DIRS: [&str; 4] = ["sub.gz/", "d/", "A.XZ/", "n.bz2/"];

fn all_exts() -> Vec<&'static str> {
    SPEC.iter().flat_map(|x| x.1.iter().copied()).collect()
}

fn gen_name(cx: &mut Ctx) -> String {
    let stem = *cx.rng.pick(&STEMS);
    let mid = *cx.rng.pick(&MIDS);
    let tail = if cx.rng.chance(3, 5) {
        let exts = all_exts();
        let e = *cx.rng.pick(&exts);
        let k = cx.rng.below(4);
        case_variant(cx, e, k)
    } else {
        (*cx.rng.pick(&NEUTRAL_TAILS)).to_string()
    };
    let mut name = format!("{stem}{mid}{tail}");
    if name.is_empty() || name == "." || name == ".." { name = format!("f{name}"); }
    if cx.rng.chance(1, 7) { name = format!("{}{}", cx.rng.pick(&DIRS), name); }
    name
}

const NAME_POOL: [&str; 12] = ["alice", "Bob", "BZ", "BZh", "BZh91AY&SY", "B", "x y", "7", "gz", "Zed-9", "BZH", "(paren"];

fn gen_rows(cx: &mut Ctx, max: usize) -> Vec<Row> {
    let n = cx.rng.below(max + 1);
    (0..n)
        .map(|_| Row {
            name: (*cx.rng.pick(&NAME_POOL)).to_string(),
            n: match cx.rng.below(4) { 0 => cx.rng.range(-3, 3), 1 => i64::MAX, 2 => i64::MIN, _ => cx.rng.range(-100000, 100000) },
        })
        .collect()
}

fn payload_j(recs: Vec<Row>) -> Payload {
    let plain = jsonl_plain(&recs);
    Payload { recs: Some(recs), headers: false, plain }
}
fn payload_c(recs: Vec<Row>, headers: bool) -> Payload {
    // csv's `deserialize()` with has_headers = true swallows an I/O error that occurs while it reads the
    // header line and then reports an EMPTY data set; with an empty expected data set a failed read would
    // be indistinguishable from a good one, so empty data sets are always read with has_headers = false
    // (an empty data set has no header line, the flag changes nothing on the writing side).
    let headers = headers && !recs.is_empty();
    let plain = csv_plain(&recs, headers);
    Payload { recs: Some(recs), headers, plain }
}
fn payload_b(bytes: Vec<u8>) -> Payload {
    Payload { recs: None, headers: false, plain: bytes }
}

/// byte strings around every signature: proper prefixes, the signature, the signature + tail,
/// the signature with its last byte altered, plus the historical witnesses
fn prefix_contents() -> Vec<Vec<u8>> {
    let mut v: Vec<Vec<u8>> = vec![vec![], b"BZ".to_vec(), b"BZ,1\nfoo,2\n".to_vec(), b"BZh".to_vec(), b"BZh91AY&SY garbage".to_vec(),
        b"hello, world\n".to_vec(), b"{\"name\":\"BZ\",\"n\":1}\n".to_vec(), b"name,n\nBZ,1\n".to_vec(), vec![0x00], vec![0xff, 0xfe]];
    for (_, _, s) in SPEC {
        for k in 1..=s.len() {
            v.push(s[..k].to_vec());
            let mut t = s[..k].to_vec();
            t.extend_from_slice(b",1\nrest of the file\n");
            v.push(t);
        }
        let mut a = s.to_vec();
        let l = a.len() - 1;
        a[l] ^= 0x01;
        a.extend_from_slice(b" tail tail tail");
        v.push(a);
    }
    v
}

fn safe_shards(cx: &mut Ctx, n: usize) -> usize {
    // `write_jsonl_par` panics for some (n, shards) (range start out of bounds — property C09's finding);
    // only combinations inside its working domain are used here
    let cands: Vec<usize> = [1usize, 2, 3, n.max(1)]
        .into_iter()
        .filter(|&k| {
            let s = k.clamp(1, n.max(1));
            let chunk = n.max(1).div_ceil(s);
            (s - 1) * chunk <= n
        })
        .collect();
    *cx.rng.pick(&cands)
}

fn gen_opts(cx: &mut Ctx, n: usize) -> RtOpts {
    RtOpts { shards: safe_shards(cx, n), per: *cx.rng.pick(&[1usize, 2, 3, 1000]), par: cx.rng.chance(1, 2) }
}

pub fn run(cx: &mut Ctx) {
    let tmp = tempfile::tempdir().expect("tempdir");
    let mut env = Env { root: tmp.path().to_path_buf(), next: 0 };

    // ---- (0) tables and the lower-casing assumption ----
    one_codecs(cx);
    let mut mism = 0u64;
    for cp in 0u32..=0x10FFFF {
        if let Some(c) = char::from_u32(cp) {
            let real = ascii_shape(c.to_string().to_lowercase().chars());
            let model = ascii_shape(lower_char_model(c).into_iter());
            if real != model {
                mism += 1;
                if mism <= 20 { one_lower(cx, &c.to_string()); }
            }
        }
    }
    cx.count_n("lower:unicode-scalars-checked", 0x110000 - 0x800);
    cx.count_n("lower:model-mismatch", mism);
    cx.exhaustive_blocks.push("LOWER: every Unicode scalar value: ASCII shape of char::to_lowercase == the model's lowerChar (mismatches are sent to the driver and show up as disagreements)".into());
    for s in ["ABCXYZ.Gz", "x.GZ\u{130}P", "\u{212A}elvin.XZ", "\u{c9}T\u{c9}.BZ2", "@[`{AZaz", "\u{3a3}\u{3a3}.zst", "\u{ff27}\u{ff3a}"] {
        one_lower(cx, s);
    }
    for cp in 0u32..128 { one_lower(cx, &char::from_u32(cp).unwrap().to_string()); }

    // ---- (1) corpus: the design witnesses ----
    let w3 = vec![Row { name: "a".into(), n: 1 }, Row { name: "b".into(), n: 2 }, Row { name: "c".into(), n: 3 }, Row { name: "d".into(), n: 4 }];
    let o2 = RtOpts { shards: 2, per: 2, par: false };
    one_rt(cx, &mut env, W::JsonlPar, R::JsonlVec, "x.jsonl.gz", &payload_j(w3.clone()), &o2);
    one_rt(cx, &mut env, W::CsvPar, R::CsvVec, "x.csv.gz", &payload_c(w3.clone(), false), &o2);
    one_rt(cx, &mut env, W::PcJsonlPar, R::JsonlVec, "x.jsonl.zst", &payload_j(w3.clone()), &o2);
    one_rt(cx, &mut env, W::JsonlPar, R::JsonlVec, "e.jsonl.gz", &payload_j(vec![]), &o2);
    one_rt(cx, &mut env, W::CsvPar, R::CsvVec, "e.csv.xz", &payload_c(vec![], true), &o2);
    one_rt(cx, &mut env, W::CloudJsonl, R::CloudJsonl, "dir/.gz", &payload_j(w3.clone()), &o2);
    one_rt(cx, &mut env, W::CloudJsonl, R::CloudJsonl, ".bz2", &payload_j(w3.clone()), &o2);
    let bz = vec![Row { name: "BZ".into(), n: 1 }, Row { name: "foo".into(), n: 2 }];
    one_rd(cx, &mut env, R::CsvVec, "plain.csv", None, &payload_c(bz.clone(), false), &o2);
    one_rt(cx, &mut env, W::CsvVec, R::CsvVec, "plain.csv", &payload_c(bz.clone(), false), &o2);
    one_rd(cx, &mut env, R::Raw, "plain.txt", None, &payload_b(b"BZ".to_vec()), &o2);
    one_detect(cx, "plain.csv", b"BZ,1\nfoo,2\n");
    one_detect(cx, "notes.txt", b"BZ");
    // glob reads over files of different codecs side by side (local JSONL / CSV, cloud keys)
    {
        let a = vec![Row { name: "a".into(), n: 1 }, Row { name: "BZh".into(), n: 2 }];
        let b = vec![Row { name: "b".into(), n: 3 }];
        let c = vec![Row { name: "c".into(), n: 4 }, Row { name: "d".into(), n: 5 }, Row { name: "e".into(), n: 6 }];
        let fj = vec![("a.jsonl.gz".to_string(), W::JsonlPar, payload_j(a.clone())), ("b.jsonl".to_string(), W::JsonlVec, payload_j(b.clone())),
            ("c.JSONL.ZST".to_string(), W::PcJsonlPar, payload_j(c.clone())), ("d.dat".to_string(), W::PcJsonl, payload_j(vec![])), (".bz2".to_string(), W::JsonlVec, payload_j(b.clone()))];
        one_glob(cx, &mut env, G::LocalJsonl, &fj, &o2);
        one_glob(cx, &mut env, G::CloudJsonl, &fj, &o2);
        let fc = vec![("a.csv.xz".to_string(), W::CsvPar, payload_c(a.clone(), true)), ("b.csv".to_string(), W::CsvVec, payload_c(b.clone(), true)),
            ("c.csv.Bz2".to_string(), W::PcCsvPar, payload_c(c.clone(), true)), ("d.gzip".to_string(), W::PcCsv, payload_c(a.clone(), true))];
        one_glob(cx, &mut env, G::LocalCsv, &fc, &o2);
    }
    // a genuine stream under a neutral name whose source delivers its first byte alone
    for (c, _, _) in SPEC {
        let g = enc(c, b"{\"name\":\"a\",\"n\":1}\n");
        one_detect_sched(cx, "x.dat", &g, &[1]);
    }

    // ---- (2) exhaustive small scope ----
    let exts = all_exts();
    let contents = prefix_contents();
    let mut names: Vec<String> = vec![];
    for e in &exts {
        for k in 0..3 {
            names.push(format!("x.jsonl{}", case_variant(cx, e, k)));
        }
        names.push((*e).to_string()); // the bare extension as the whole name
    }
    for t in NEUTRAL_TAILS { names.push(format!("x{t}")); }
    names.push("sub.gz/x.jsonl".into());
    let mut nd = 0;
    for n in &names {
        for c in &contents {
            one_detect(cx, n, c);
            nd += 1;
        }
    }
    cx.exhaustive_blocks.push(format!("DETECT: {} names (every extension x {{lower, UPPER, Capitalised}}, bare extensions, {} neutral tails, a directory carrying an extension) x {} contents (every non-empty prefix of every signature alone and followed by text, each signature with its last byte flipped, 'BZ' witnesses, empty) = {nd} cases", names.len(), NEUTRAL_TAILS.len(), contents.len()));

    let rt_names: Vec<String> = {
        let mut v = vec![];
        for e in &exts {
            for k in 0..cx.budget(2, 3) { v.push(format!("x.d{}", case_variant(cx, e, k))); }
        }
        v.push("x.dat".into());
        v.push("x.gz.bak".into());
        v
    };
    let bzh = vec![Row { name: "BZh".into(), n: 7 }, Row { name: "BZ".into(), n: -1 }, Row { name: "q".into(), n: 0 }];
    let j_payloads = vec![payload_j(vec![]), payload_j(bzh.clone())];
    let c_payloads = vec![payload_c(vec![], true), payload_c(bzh.clone(), false), payload_c(bzh.clone(), true)];
    let mut nrt = 0;
    for n in &rt_names {
        for pl in &j_payloads {
            for w in J_WRITERS { for r in J_READERS {
                one_rt(cx, &mut env, w, r, n, pl, &RtOpts { shards: 2, per: 2, par: nrt % 2 == 0 });
                nrt += 1;
            } }
        }
        for pl in &c_payloads {
            for w in C_WRITERS { for r in C_READERS {
                one_rt(cx, &mut env, w, r, n, pl, &RtOpts { shards: 2, per: 2, par: nrt % 2 == 0 });
                nrt += 1;
            } }
        }
    }
    cx.exhaustive_blocks.push(format!("RT: every writer entry point x every reader entry point of the same format (6x5 JSONL, 5x4 CSV) x {} names (every extension in {} case variants + 2 neutral) x payloads {{empty, 3 rows whose text starts 'BZh' (csv without header), same with header}} = {nrt} cases", rt_names.len(), cx.budget(2, 3)));

    // names that consist of nothing but the extension (dot-files), alone and inside a directory
    let mut nbare = 0;
    for e in &exts {
        for k in 0..2 {
            let v = case_variant(cx, e, k);
            for name in [v.clone(), format!("dir/{v}")] {
                for w in J_WRITERS {
                    let r = if w == W::CloudJsonl { R::CloudJsonl } else { J_READERS[nbare % J_READERS.len()] };
                    one_rt(cx, &mut env, w, r, &name, &payload_j(bzh.clone()), &o2);
                    nbare += 1;
                }
                for w in C_WRITERS {
                    one_rt(cx, &mut env, w, C_READERS[nbare % C_READERS.len()], &name, &payload_c(bzh.clone(), true), &o2);
                    nbare += 1;
                }
            }
        }
    }
    cx.exhaustive_blocks.push(format!("RT: names that are only an extension (`.gz`, `dir/.GZ`, ...) x every writer entry point = {nbare} cases"));

    // genuine streams / raw content under every name class, through every reader
    let mut nrd = 0;
    let rd_names = ["x.dat", "x", "x.jsonl", "x.GZ", "x.zst", "x.Bz2", "x.xz", "x.gz.bak"];
    for n in rd_names {
        for (c, _, _) in SPEC {
            for r in J_READERS { one_rd(cx, &mut env, r, n, Some(c), &payload_j(bzh.clone()), &o2); nrd += 1; }
            for r in C_READERS { one_rd(cx, &mut env, r, n, Some(c), &payload_c(bzh.clone(), false), &o2); nrd += 1; }
        }
        for r in J_READERS { one_rd(cx, &mut env, r, n, None, &payload_j(bzh.clone()), &o2); nrd += 1; }
        for r in C_READERS {
            one_rd(cx, &mut env, r, n, None, &payload_c(bzh.clone(), false), &o2);
            one_rd(cx, &mut env, r, n, None, &payload_c(bz.clone(), false), &o2);
            nrd += 2;
        }
        for c in &contents { one_rd(cx, &mut env, R::Raw, n, None, &payload_b(c.clone()), &o2); nrd += 1; }
    }
    cx.exhaustive_blocks.push(format!("RD: {} names x (genuine stream of every codec | plain text | every signature-prefix content) x every reader = {nrd} cases", rd_names.len()));

    // the reader's decision on sources that deliver their first bytes in short reads
    let scheds: [&[usize]; 7] = [&[1], &[1, 1, 1, 1, 1, 1, 1, 1], &[2], &[3, 1], &[5], &[6], &[1, 8192]];
    let mut nds = 0;
    let ds_names = ["x.dat", "x", "x.jsonl", "x.GZ", "x.csv.zst", "x.gz.bak"];
    let mut ds_contents: Vec<Vec<u8>> = contents.clone();
    for (c, _, _) in SPEC {
        ds_contents.push(enc(c, &jsonl_plain(&bzh)));
        ds_contents.push(enc(c, b""));
    }
    for n in ds_names {
        for c in &ds_contents {
            for sc in scheds { one_detect_sched(cx, n, c, sc); nds += 1; }
        }
    }
    cx.exhaustive_blocks.push(format!("DETECTS: {} names x {} contents (the signature-prefix contents + a genuine stream and an empty genuine stream of every codec) x {} read schedules (first read of 1, 2, 3, 5, 6 bytes; byte-by-byte; 1 then full) = {nds} cases", ds_names.len(), ds_contents.len(), scheds.len()));

    // content larger than the 8 KiB BufReader, plain and compressed, through every entry point
    let mut nbig = 0;
    {
        let big: Vec<Row> = (0..cx.budget(700, 1100)).map(|i| Row { name: big_name(cx), n: i as i64 * 7919 - 1000 }).collect();
        let pj = payload_j(big.clone());
        let pc = payload_c(big.clone(), true);
        for (c, _, _) in SPEC {
            let zj = enc(c, &pj.plain);
            let zc = enc(c, &pc.plain);
            cx.count(&format!("big:compressed-size>{}", if zj.len() > 8192 && zc.len() > 8192 { "8KiB" } else { "SMALL(unexpected)" }));
        }
        // writer shards 2 / 1: every part file / buffer of the parallel writers is itself larger than 8 KiB
        let ob = RtOpts { shards: 2, per: 100, par: true };
        let os = RtOpts { shards: 1, per: 64, par: false };
        cx.count(&format!("big:smallest-part-bytes>{}", if pj.plain.len() / 2 > 8192 + 64 && pc.plain.len() / 2 > 8192 + 64 { "8KiB" } else { "SMALL(unexpected)" }));
        for (k, n) in ["big.d.gz", "big.d.ZST", "big.d.bz2", "big.d.xz", "big.dat"].iter().enumerate() {
            for w in J_WRITERS { let r = J_READERS[(k + nbig) % J_READERS.len()]; one_rt(cx, &mut env, w, r, n, &pj, if nbig % 2 == 0 { &ob } else { &os }); nbig += 1; }
            for w in C_WRITERS { let r = C_READERS[(k + nbig) % C_READERS.len()]; one_rt(cx, &mut env, w, r, n, &pc, if nbig % 2 == 0 { &ob } else { &os }); nbig += 1; }
        }
        for (c, _, _) in SPEC {
            for r in J_READERS { one_rd(cx, &mut env, r, "big.dat", Some(c), &pj, &ob); nbig += 1; }
            for r in C_READERS { one_rd(cx, &mut env, r, "big", Some(c), &pc, &os); nbig += 1; }
            let z = enc(c, &pj.plain);
            one_detect_sched(cx, "big.dat", &z, &[1]);
            one_detect_sched(cx, "big.dat", &z, &[]);
            nbig += 2;
        }
    }
    cx.exhaustive_blocks.push(format!("BIG: one data set whose plain and compressed forms both exceed the 8 KiB reader buffer: every writer entry point x 5 names (4 codecs + neutral) with rotating readers; a genuine stream of every codec under a neutral name through every reader; short-first-read detection = {nbig} cases"));

    // glob reads: every codec side by side in one directory / key prefix
    let mut ngl = 0;
    for g in [G::LocalJsonl, G::LocalCsv, G::CloudJsonl] {
        for variant in 0..cx.budget(3, 6) {
            let h = variant % 2 == 0;
            let mut files = vec![];
            for (k, e) in exts.iter().enumerate() {
                let recs = vec![Row { name: format!("r{k}"), n: k as i64 }, Row { name: "BZh".into(), n: -(k as i64) }];
                let name = format!("f{k}.d{}", case_variant(cx, e, variant % 4));
                let (w, pl) = if g == G::LocalCsv { (C_WRITERS[1 + (k + variant) % 4], payload_c(recs, h)) } else { (J_WRITERS[1 + (k + variant) % 4], payload_j(recs)) };
                files.push((name, w, pl));
            }
            let plain_recs = vec![Row { name: "plain".into(), n: 0 }];
            files.push(("m.dat".to_string(), if g == G::LocalCsv { W::CsvVec } else { W::JsonlVec }, if g == G::LocalCsv { payload_c(plain_recs, h) } else { payload_j(plain_recs) }));
            one_glob(cx, &mut env, g, &files, &RtOpts { shards: 1 + variant % 3, per: 2, par: false });
            ngl += 1;
        }
    }
    cx.exhaustive_blocks.push(format!("GLOB: read_jsonl(dir/*), read_csv(dir/*), read_cloud_jsonl_glob(g/*) over a directory holding one file per extension (rotating case variants and writer entry points) plus a neutral file = {ngl} cases"));

    // ---- (3) random block ----
    let rounds = if cx.tier == crate::ctx::Tier::Search { 12000 } else { cx.budget(1500, 60000) };
    for _ in 0..rounds {
        let name = gen_name(cx);
        match cx.rng.below(10) {
            0..=3 => {
                // record round trip
                let recs = gen_rows(cx, 6);
                let o = gen_opts(cx, recs.len());
                if cx.rng.chance(1, 2) {
                    let w = *cx.rng.pick(&J_WRITERS);
                    let r = *cx.rng.pick(&J_READERS);
                    one_rt(cx, &mut env, w, r, &name, &payload_j(recs), &o);
                } else {
                    let h = cx.rng.chance(1, 2);
                    let w = *cx.rng.pick(&C_WRITERS);
                    let r = *cx.rng.pick(&C_READERS);
                    one_rt(cx, &mut env, w, r, &name, &payload_c(recs, h), &o);
                }
            }
            4 => {
                // raw bytes through the raw writer and reader
                let c = gen_bytes(cx, &contents);
                let o = gen_opts(cx, 1);
                one_rt(cx, &mut env, W::Raw, R::Raw, &name, &payload_b(c), &o);
            }
            5 => {
                let c = gen_bytes(cx, &contents);
                one_detect(cx, &name, &c);
            }
            6 => {
                // a source with a random read schedule; content: bytes around signatures or a genuine stream
                let c = if cx.rng.chance(1, 2) { gen_bytes(cx, &contents) } else {
                    let recs = gen_rows(cx, 3);
                    enc(SPEC[cx.rng.below(4)].0, &jsonl_plain(&recs))
                };
                let k = cx.rng.below(5);
                let sched: Vec<usize> = (0..k).map(|_| *cx.rng.pick(&[1usize, 1, 2, 3, 5, 6, 7, 100])).collect();
                one_detect_sched(cx, &name, &c, &sched);
                if cx.rng.chance(1, 6) { gen_glob(cx, &mut env); }
            }
            7 => {
                let o = gen_opts(cx, 1);
                let c = gen_bytes(cx, &contents);
                one_rd(cx, &mut env, R::Raw, &name, None, &payload_b(c), &o);
            }
            _ => {
                // genuine stream of a random codec under a random name through a random reader
                let recs = gen_rows(cx, 5);
                let o = gen_opts(cx, recs.len());
                let c = SPEC[cx.rng.below(4)].0;
                let codec = if cx.rng.chance(4, 5) { Some(c) } else { None };
                if cx.rng.chance(1, 2) {
                    let r = *cx.rng.pick(&J_READERS);
                    one_rd(cx, &mut env, r, &name, codec, &payload_j(recs), &o);
                } else {
                    let r = *cx.rng.pick(&C_READERS);
                    one_rd(cx, &mut env, r, &name, codec, &payload_c(recs, false), &o);
                }
            }
        }
    }
}

/// a 24-character name that does not compress well
fn big_name(cx: &mut Ctx) -> String {
    const A: &[u8] = b"abcdefghijklmnopqrstuvwxyzABCDEFGHIJKLMNOPQRSTUVWXYZ0123456789";
    (0..24).map(|_| A[cx.rng.below(A.len())] as char).collect()
}

/// a random directory of 1..4 files with random names (no '/'), writers and payloads, read through a glob
fn gen_glob(cx: &mut Ctx, env: &mut Env) {
    let g = *cx.rng.pick(&[G::LocalJsonl, G::LocalCsv, G::CloudJsonl]);
    let h = cx.rng.chance(1, 2);
    let k = 1 + cx.rng.below(4);
    let mut files = vec![];
    for _ in 0..k {
        let mut name = gen_name(cx);
        if let Some(p) = name.rfind('/') { name = name[p + 1..].to_string(); }
        if name.is_empty() || name == "." || name == ".." { name = format!("f{name}"); }
        let recs = gen_rows(cx, 4);
        if g == G::LocalCsv {
            let w = *cx.rng.pick(&C_WRITERS[1..]);
            files.push((name, w, payload_c(recs, h)));
        } else {
            let w = *cx.rng.pick(&J_WRITERS[1..5]);
            files.push((name, w, payload_j(recs)));
        }
    }
    // csv: one header flag for the whole directory (read_csv applies it to every file)
    let nmax = files.iter().map(|f| f.2.recs.as_ref().map_or(0, Vec::len)).max().unwrap_or(0);
    let o = gen_opts(cx, nmax.max(1));
    let o = RtOpts { shards: 1 + o.shards % 2, ..o };
    one_glob(cx, env, g, &files, &o);
}

fn gen_bytes(cx: &mut Ctx, contents: &[Vec<u8>]) -> Vec<u8> {
    match cx.rng.below(4) {
        0 => contents[cx.rng.below(contents.len())].clone(),
        1 => {
            // a signature prefix followed by random bytes
            let s = SPEC[cx.rng.below(4)].2;
            let k = cx.rng.below(s.len() + 1);
            let mut v = s[..k].to_vec();
            for _ in 0..cx.rng.below(40) { v.push(cx.rng.below(256) as u8); }
            v
        }
        2 => {
            // text
            let n = cx.rng.below(60);
            let alpha: &[u8] = b"BZh(,\n abcxyz019{}\"\x1f";
            (0..n).map(|_| alpha[cx.rng.below(alpha.len())]).collect()
        }
        _ => {
            let n = cx.rng.below(30);
            (0..n).map(|_| cx.rng.below(256) as u8).collect()
        }
    }
}
