//! C10 — compression is transparent and format detection is sound.
//!
//! Requests (paths and byte strings travel as lower-case hex of their UTF-8 / raw bytes, empty = `-`):
//!   CODECS                                   -> `name:ext,ext:magichex;...`  (running registry vs generated table)
//!   LOWER <path>                             -> hex of the ASCII shape of `to_lowercase()` (non-ASCII runs -> `?`)
//!   DETECT <path> <content>                  -> `R=<codec|plain> W=<codec|plain>`  decision of auto_detect_reader / _writer
//!   DETECTS <sched> <faults> <path> <content> -> `R=<codec|plain|ERR>`  decision of auto_detect_reader on a `Read` whose i-th
//!                                               successful call returns at most sched[i] bytes (`-` = every call fills the
//!                                               buffer) and which raises the I/O faults `<offset>i` (Interrupted) / `<offset>e`
//!                                               (another error, once) in front of the byte at that offset
//!   RT <writer> <reader> <path> <plain> <opts>      -> `W=<codec|plain|other> R=<SAME|FAIL>`  write through an entry point, read back
//!   RD <reader> <path> C <codec> <plain> <opts>     -> `DECODED|VERBATIM|FAIL`  file = genuine <codec> stream of <plain>
//!   RD <reader> <path> P <raw> <opts>               -> `VERBATIM|FAIL`          file = these raw bytes
//!   CGLOB <local_jsonl|local_csv|cloud_jsonl> <opts> (<path> <writer> <plain>)*  -> `W=<c1>,<c2>,.. R=<SAME|FAIL>`
//!        every file written through its own writer entry point under its own name, all read through ONE glob call
//!   ODETECT <rawname> <lossy> <content>, ORT <rawname> <writer> <reader> <lossy> <plain> <opts>
//!        DETECT / RT for a file name that is not valid UTF-8 (`OsStr::from_bytes`); <lossy> = its `to_string_lossy()`
//!   XREG <fresh|used> <extras> <KIND> ...    -> KIND in {CODECS, DETECT, DETECTS, RT, RD} evaluated in a CHILD PROCESS that
//!        registered two user codecs with `register_codec` (`fresh`: before any other registry use; `used`: after a detection)
//!   opts = `sh=<k|none>,per=<k>,par=<0|1>,hdr=<0|1>` (writer shards, streaming shard size, collect_par?, csv header flag)
//!
//! Real side: the real entry points on real temp files / the fake object store. The decision of
//! `auto_detect_reader` / `auto_detect_writer` is observed from the outside: the bytes that come out are
//! compared with what each codec's own library (flate2, zstd, bzip2, xz2 — linked directly by the harness)
//! produces for the same input.
//! Oracle (independent of the model, uses only the format specifications below): a path carrying a codec
//! extension (ASCII case-insensitive) is stored as a genuine stream of that codec that starts with the
//! format's signature and reads back identical; a neutral name with content that does not start with a
//! true signature is stored and read back verbatim; genuine streams under a neutral name are decoded; a source
//! fault is reported or harmless, never a silently different result.
//!
//! Run hygiene (no verdict depends on luck, timing or load): every oracle failure is CONFIRMED BY RE-EXECUTION of the
//! case (a failure that does not repeat is a note, not a verdict); the concurrent blocks only have deterministic
//! expectations (contention raises their power, never their verdict); a stall watchdog (15 min without a finished case)
//! ends the run; the registry children get 10 min and one retry; an xz encoder that cannot be created in this
//! environment (memory limit) removes the xz cases with a note.

use crate::ctx::{Ctx, guarded, hex};
use ironbeam::io::cloud::readers::{read_cloud_jsonl_glob, read_cloud_jsonl_vec, write_cloud_jsonl_vec};
use ironbeam::io::cloud::{FakeObjectIO, ObjectIO};
use ironbeam::io::compression::{CompressionCodec, auto_detect_reader, auto_detect_writer, register_codec, verif_codec_table};
use ironbeam::{
    Pipeline, from_vec, read_csv, read_csv_streaming, read_csv_vec, read_jsonl, read_jsonl_streaming,
    read_jsonl_vec, write_csv, write_csv_par, write_csv_vec, write_jsonl_par,
};
use ironbeam::io::jsonl::write_jsonl_vec;
use serde::{Deserialize, Serialize};
use std::collections::VecDeque;
use std::io::{Cursor, Read, Write};
use std::os::unix::ffi::OsStrExt;
use std::path::{Path, PathBuf};
use std::sync::atomic::{AtomicBool, AtomicU64, Ordering};
use std::sync::{Arc, Mutex};

/// The specification: (name, documented extensions, true format signature).
/// gzip RFC 1952; zstd RFC 8878; bzip2 "BZh"; xz file format 1.x header magic.
const SPEC: [(&str, &[&str], &[u8]); 4] = [
    ("gzip", &[".gz", ".gzip"], &[0x1f, 0x8b]),
    ("zstd", &[".zst", ".zstd"], &[0x28, 0xb5, 0x2f, 0xfd]),
    ("bzip2", &[".bz2", ".bzip2"], &[0x42, 0x5a, 0x68]),
    ("xz", &[".xz"], &[0xfd, 0x37, 0x7a, 0x58, 0x5a, 0x00]),
];

/// The user codecs the registry child registers (name, extensions, magic bytes): one with magic bytes,
/// one without, one whose extension / magic overlap built-in ones. Their stream formats are defined by `enc` / `dec` below; the registered objects
/// (`UserCodec`) implement the same formats as `Read` / `Write` adaptors.
const USERS: [(&str, &[&str], Option<&[u8]>); 3] = [
    ("noop", &[".noop"], Some(&[0xff, 0xfe])),
    ("rot", &[".rot", ".myext"], None),
    // a codec that WOULD shadow built-ins if it came first: its extension `z` is a suffix of `.gz` / `.xz`, its
    // magic `1f` a prefix of gzip's — registry ORDER (built-ins first) is what keeps `x.gz` and gzip streams gzip
    ("zed", &["z"], Some(&[0x1f])),
];
const ZED_HEADER: &[u8] = &[0x1f, b'Z', b'E', b'D'];
const NOOP_HEADER: &[u8] = &[0xff, 0xfe, b'N', b'O', b'O', b'P', b'1'];
const ROT_HEADER: &[u8] = b"ROT:";

/// true in the registry child: the specification then also lists the user codecs
static WITH_USERS: AtomicBool = AtomicBool::new(false);
/// prefix of every request line (the registry child: `XREG <pre> <extras> `)
static PREFIX: Mutex<String> = Mutex::new(String::new());
/// progress counter for the stall watchdog
static HEART: AtomicU64 = AtomicU64::new(0);
/// per built-in codec: false when this environment cannot run the codec's own library (e.g. an xz preset-6 encoder
/// needs ~94 MiB; under a tight memory limit its creation fails): that codec's cases are skipped with a note
static CODEC_OK: [AtomicBool; 4] = [AtomicBool::new(true), AtomicBool::new(true), AtomicBool::new(true), AtomicBool::new(true)];
fn codec_ok(c: &str) -> bool {
    SPEC.iter().position(|x| x.0 == c).is_none_or(|k| CODEC_OK[k].load(Ordering::SeqCst))
}

/// every codec of the specification in detection order: (name, extensions, signature / magic if any)
fn all_codecs() -> Vec<(&'static str, &'static [&'static str], Option<&'static [u8]>)> {
    let mut v: Vec<_> = SPEC.iter().map(|x| (x.0, x.1, Some(x.2))).collect();
    if WITH_USERS.load(Ordering::SeqCst) {
        v.extend(USERS.iter().copied());
    }
    v
}

fn emit(cx: &mut Ctx, req: String, real: String, nt: bool) -> usize {
    HEART.fetch_add(1, Ordering::SeqCst);
    let p = PREFIX.lock().unwrap().clone();
    cx.case(format!("{p}{req}"), real, nt)
}

// ---------------------------------------------------------------------------------------------
// translator route: the running registry as a Lean table
// ---------------------------------------------------------------------------------------------

fn lean_str(s: &str) -> String {
    let mut o = String::from("\"");
    for c in s.chars() {
        match c {
            '"' => o.push_str("\\\""),
            '\\' => o.push_str("\\\\"),
            c if (' '..='~').contains(&c) => o.push(c),
            c => o.push_str(&format!("\\u{:04x}", c as u32)),
        }
    }
    o.push('"');
    o
}

pub fn tables(out: &mut String) {
    out.push_str("/-- C10: rows (name, extensions, magic bytes) of the running `CODEC_REGISTRY`\n    (`ironbeam::io::compression::verif_codec_table()`), in registry = detection order -/\n");
    out.push_str("def codecTable : List (String × List String × Option (List Nat)) :=\n  [");
    let rows: Vec<String> = verif_codec_table()
        .iter()
        .map(|(n, exts, magic)| {
            let e: Vec<String> = exts.iter().map(|x| lean_str(x)).collect();
            let m = match magic {
                Some(m) => format!("some [{}]", m.iter().map(|b| b.to_string()).collect::<Vec<_>>().join(", ")),
                None => "none".to_string(),
            };
            format!("({}, [{}], {})", lean_str(n), e.join(", "), m)
        })
        .collect();
    out.push_str(&rows.join(",\n   "));
    out.push_str("]\n\n");
}

// ---------------------------------------------------------------------------------------------
// independent codecs (the libraries themselves, not ironbeam's wrappers)
// ---------------------------------------------------------------------------------------------

fn enc_xz(plain: &[u8], preset: u32) -> Vec<u8> {
    let mut e = xz2::write::XzEncoder::new(Vec::new(), preset);
    e.write_all(plain).unwrap();
    e.finish().unwrap()
}

/// `enc_raw` with confirm-by-re-execution: an encoder that cannot be created (memory) is retried; if it keeps
/// failing the codec is marked unavailable for the rest of the run (its cases are skipped) and `None` is returned
fn try_enc(c: &str, plain: &[u8]) -> Option<Vec<u8>> {
    for attempt in 0..3u64 {
        if let Ok(v) = guarded(|| enc_raw(c, plain)) { return Some(v); }
        std::thread::sleep(std::time::Duration::from_millis(100 * (attempt + 1)));
    }
    if let Some(k) = SPEC.iter().position(|x| x.0 == c) { CODEC_OK[k].store(false, Ordering::SeqCst); }
    None
}
/// for call sites guarded by `codec_ok` / `xz_skipped`: an empty vector if the library fails after all (the codec
/// is then unavailable and every later case of it is skipped; the run notes say so)
fn enc(c: &str, plain: &[u8]) -> Vec<u8> {
    try_enc(c, plain).unwrap_or_default()
}

fn enc_raw(c: &str, plain: &[u8]) -> Vec<u8> {
    match c {
        "gzip" => {
            let mut e = flate2::write::GzEncoder::new(Vec::new(), flate2::Compression::default());
            e.write_all(plain).unwrap();
            e.finish().unwrap()
        }
        "zstd" => zstd::stream::encode_all(Cursor::new(plain), 3).unwrap(),
        "bzip2" => {
            let mut e = bzip2::write::BzEncoder::new(Vec::new(), bzip2::Compression::default());
            e.write_all(plain).unwrap();
            e.finish().unwrap()
        }
        "xz" => enc_xz(plain, 6),
        "noop" => [NOOP_HEADER, plain].concat(),
        "rot" => {
            let mut v = ROT_HEADER.to_vec();
            v.extend(plain.iter().map(|b| b ^ 0x5a));
            v
        }
        "zed" => [ZED_HEADER, plain].concat(),
        _ => unreachable!(),
    }
}

fn drain(mut r: impl Read) -> Result<Vec<u8>, String> {
    let mut v = Vec::new();
    match r.read_to_end(&mut v) {
        Ok(_) => Ok(v),
        Err(e) => Err(e.to_string()),
    }
}

fn dec(c: &str, data: &[u8]) -> Result<Vec<u8>, String> {
    let cur = Cursor::new(data.to_vec());
    match c {
        "gzip" => drain(flate2::read::GzDecoder::new(cur)),
        "zstd" => match zstd::stream::read::Decoder::new(cur) {
            Ok(d) => drain(d),
            Err(e) => Err(e.to_string()),
        },
        "bzip2" => drain(bzip2::read::BzDecoder::new(cur)),
        "xz" => drain(xz2::read::XzDecoder::new(cur)),
        "noop" => match data.strip_prefix(NOOP_HEADER) {
            Some(rest) => Ok(rest.to_vec()),
            None => Err("noop header missing".into()),
        },
        "rot" => match data.strip_prefix(ROT_HEADER) {
            Some(rest) => Ok(rest.iter().map(|b| b ^ 0x5a).collect()),
            None => Err("rot header missing".into()),
        },
        "zed" => match data.strip_prefix(ZED_HEADER) {
            Some(rest) => Ok(rest.to_vec()),
            None => Err("zed header missing".into()),
        },
        _ => unreachable!(),
    }
}

// ---------------------------------------------------------------------------------------------
// the user codecs as registered objects (registry child only)
// ---------------------------------------------------------------------------------------------

struct UserCodec {
    name: &'static str,
    exts: &'static [&'static str],
    magic: Option<&'static [u8]>,
    header: &'static [u8],
    xor: u8,
}
struct HdrWriter { inner: Box<dyn Write>, header: Option<&'static [u8]>, xor: u8 }
impl HdrWriter {
    fn put_header(&mut self) -> std::io::Result<()> {
        if let Some(h) = self.header.take() { self.inner.write_all(h)?; }
        Ok(())
    }
}
impl Write for HdrWriter {
    fn write(&mut self, b: &[u8]) -> std::io::Result<usize> {
        self.put_header()?;
        let t: Vec<u8> = b.iter().map(|x| x ^ self.xor).collect();
        self.inner.write_all(&t)?;
        Ok(b.len())
    }
    fn flush(&mut self) -> std::io::Result<()> {
        self.put_header()?;
        self.inner.flush()
    }
}
impl Drop for HdrWriter {
    fn drop(&mut self) {
        let _ = self.put_header();
        let _ = self.inner.flush();
    }
}
struct HdrReader { inner: Box<dyn Read>, header: &'static [u8], checked: bool, xor: u8, what: &'static str }
impl Read for HdrReader {
    fn read(&mut self, buf: &mut [u8]) -> std::io::Result<usize> {
        if !self.checked {
            let mut h = vec![0u8; self.header.len()];
            let ok = self.inner.read_exact(&mut h).is_ok() && h == self.header;
            if !ok {
                return Err(std::io::Error::new(std::io::ErrorKind::InvalidData, format!("{} header missing", self.what)));
            }
            self.checked = true;
        }
        let n = self.inner.read(buf)?;
        for b in &mut buf[..n] { *b ^= self.xor; }
        Ok(n)
    }
}
impl CompressionCodec for UserCodec {
    fn name(&self) -> &str { self.name }
    fn extensions(&self) -> &[&str] { self.exts }
    fn magic_bytes(&self) -> Option<&[u8]> { self.magic }
    fn wrap_reader_dyn(&self, reader: Box<dyn Read>) -> std::io::Result<Box<dyn Read>> {
        Ok(Box::new(HdrReader { inner: reader, header: self.header, checked: false, xor: self.xor, what: self.name }))
    }
    fn wrap_writer_dyn(&self, writer: Box<dyn Write>) -> std::io::Result<Box<dyn Write>> {
        Ok(Box::new(HdrWriter { inner: writer, header: Some(self.header), xor: self.xor }))
    }
}

// ---------------------------------------------------------------------------------------------
// specification helpers (oracle side)
// ---------------------------------------------------------------------------------------------

/// codec whose documented extension the name carries (ASCII case-insensitive suffix of the name's BYTES, so that
/// it also applies to names that are not valid UTF-8)
fn spec_ext_bytes(name: &[u8]) -> Option<&'static str> {
    let p = name.to_ascii_lowercase();
    for (n, exts, _) in all_codecs() {
        for e in exts {
            if p.ends_with(e.as_bytes()) {
                return Some(n);
            }
        }
    }
    None
}
fn spec_ext(path: &str) -> Option<&'static str> { spec_ext_bytes(path.as_bytes()) }
/// codec whose true signature (a user codec: its magic bytes) the content starts with
fn spec_sig(content: &[u8]) -> Option<&'static str> {
    all_codecs().iter().find(|(_, _, s)| s.is_some_and(|s| content.starts_with(s))).map(|x| x.0)
}

/// which codec (or none) turned `plain` into `stored`
fn classify_stored(stored: &[u8], plain: &[u8]) -> String {
    if stored == plain {
        return "plain".into();
    }
    for (n, _, sig) in all_codecs() {
        if stored.starts_with(sig.unwrap_or(&[])) && dec(n, stored).as_deref() == Ok(plain) {
            return n.to_string();
        }
    }
    "other".into()
}

/// Which decision of `auto_detect_reader` is the observed outcome `got` consistent with? The decision itself is
/// not observable; what comes out of the returned reader is compared with what every codec's own library (and the
/// identity) makes of the same bytes. When several decisions explain the outcome (e.g. two decoders reject the
/// bytes with the same message, or a decoder returns its input), the one the SPECIFICATION demands (`want`) is
/// reported if it is among them — an outcome that is consistent with the specified decision is not evidence
/// against it; an outcome that is not consistent with it is reported as what it is consistent with.
fn classify_read(got: &Result<Vec<u8>, String>, content: &[u8], want: &str) -> String {
    let mut cands: Vec<&str> = vec![];
    if got.as_deref() == Ok(content) { cands.push("plain"); }
    let decs: Vec<(&str, Result<Vec<u8>, String>)> = all_codecs().iter().map(|(n, _, _)| (*n, dec(n, content))).collect();
    for (n, d) in &decs {
        if d == got { cands.push(n); }
    }
    if cands.is_empty() && got.is_err() {
        // an error with an unexpected text: consistent with every decoder that rejects these bytes
        for (n, d) in &decs {
            if d.is_err() { cands.push(n); }
        }
    }
    if cands.contains(&want) { return want.to_string(); }
    match cands.len() {
        1 => cands[0].to_string(),
        0 => "UNKNOWN".into(),
        _ => format!("AMBIG({})", cands.join("|")),
    }
}

// ---------------------------------------------------------------------------------------------
// entry points
// ---------------------------------------------------------------------------------------------

#[derive(Serialize, Deserialize, Clone, Debug, PartialEq)]
struct Row {
    name: String,
    n: i64,
}

#[derive(Clone, Copy, PartialEq, Eq, Debug)]
enum W { Raw, JsonlVec, JsonlPar, CsvVec, CsvAlias, CsvPar, PcJsonl, PcJsonlPar, PcCsv, PcCsvPar, CloudJsonl }
#[derive(Clone, Copy, PartialEq, Eq, Debug)]
enum R { Raw, JsonlVec, JsonlHelper, JsonlStreaming, CsvVec, CsvHelper, CsvStreaming, CloudJsonl }

const J_WRITERS: [W; 6] = [W::Raw, W::JsonlVec, W::JsonlPar, W::PcJsonl, W::PcJsonlPar, W::CloudJsonl];
const C_WRITERS: [W; 6] = [W::Raw, W::CsvVec, W::CsvPar, W::PcCsv, W::PcCsvPar, W::CsvAlias];
const J_READERS: [R; 5] = [R::Raw, R::JsonlVec, R::JsonlHelper, R::JsonlStreaming, R::CloudJsonl];
const C_READERS: [R; 4] = [R::Raw, R::CsvVec, R::CsvHelper, R::CsvStreaming];

impl W {
    fn tok(self) -> &'static str {
        match self {
            W::Raw => "raw", W::JsonlVec => "jsonl_vec", W::JsonlPar => "jsonl_par", W::CsvVec => "csv_vec",
            W::CsvAlias => "csv_alias", W::CsvPar => "csv_par", W::PcJsonl => "pc_jsonl", W::PcJsonlPar => "pc_jsonl_par",
            W::PcCsv => "pc_csv", W::PcCsvPar => "pc_csv_par", W::CloudJsonl => "cloud_jsonl",
        }
    }
}
impl R {
    fn tok(self) -> &'static str {
        match self {
            R::Raw => "raw", R::JsonlVec => "jsonl_vec", R::JsonlHelper => "jsonl_helper",
            R::JsonlStreaming => "jsonl_streaming", R::CsvVec => "csv_vec", R::CsvHelper => "csv_helper",
            R::CsvStreaming => "csv_streaming", R::CloudJsonl => "cloud_jsonl",
        }
    }
}

#[derive(Clone)]
struct Shared(Arc<Mutex<Vec<u8>>>);
impl Write for Shared {
    fn write(&mut self, b: &[u8]) -> std::io::Result<usize> {
        self.0.lock().unwrap().extend_from_slice(b);
        Ok(b.len())
    }
    fn flush(&mut self) -> std::io::Result<()> { Ok(()) }
}

/// a payload: either records (with their independent plain serialisation) or raw bytes
#[derive(Clone)]
struct Payload {
    recs: Option<Vec<Row>>,
    headers: bool,
    plain: Vec<u8>,
}

fn jsonl_plain(recs: &[Row]) -> Vec<u8> {
    let mut v = Vec::new();
    for r in recs {
        // field order and escaping per RFC 8259 for the restricted alphabet the generator uses
        v.extend_from_slice(format!("{{\"name\":\"{}\",\"n\":{}}}\n", r.name, r.n).as_bytes());
    }
    v
}
fn csv_plain(recs: &[Row], headers: bool) -> Vec<u8> {
    let mut v = Vec::new();
    if headers && !recs.is_empty() {
        v.extend_from_slice(b"name,n\n");
    }
    for r in recs {
        v.extend_from_slice(format!("{},{}\n", r.name, r.n).as_bytes());
    }
    v
}

struct Env {
    root: PathBuf,
    next: usize,
}
impl Env {
    fn fresh(&mut self, rel: &Path) -> PathBuf {
        self.next += 1;
        let d = self.root.join(format!("{}", self.next));
        d.join(rel)
    }
    fn cleanup(&self) {
        let d = self.root.join(format!("{}", self.next));
        let _ = std::fs::remove_dir_all(d);
    }
}

fn e2s<T, E: std::fmt::Display>(r: Result<T, E>) -> Result<T, String> {
    r.map_err(|e| format!("{e:#}"))
}

/// `glob::Pattern::escape`: the pattern that matches exactly this path (identity for paths without `*?[]`).
/// `read_jsonl` / `read_csv` take a PATTERN: a literal name that contains a metacharacter has to be escaped by the
/// caller, and so has a temp directory whose own name contains one.
fn glob_escape(p: &str) -> String {
    let mut o = String::new();
    for c in p.chars() {
        match c {
            '*' => o.push_str("[*]"),
            '?' => o.push_str("[?]"),
            '[' => o.push_str("[[]"),
            ']' => o.push_str("[]]"),
            c => o.push(c),
        }
    }
    o
}

/// run a writer entry point; returns the stored bytes
fn real_write(w: W, path: &Path, key: &str, pl: &Payload, shards: Option<usize>) -> Result<Vec<u8>, String> {
    if let Some(parent) = path.parent() {
        let _ = std::fs::create_dir_all(parent);
    }
    let recs: &[Row] = pl.recs.as_deref().unwrap_or(&[]);
    let h = pl.headers;
    let from_file = |r: Result<usize, String>| -> Result<Vec<u8>, String> {
        r?;
        e2s(std::fs::read(path))
    };
    match w {
        W::Raw => {
            let buf = Shared(Arc::new(Mutex::new(Vec::new())));
            let mut wr = e2s(auto_detect_writer(buf.clone(), path))?;
            e2s(wr.write_all(&pl.plain))?;
            e2s(wr.flush())?;
            drop(wr);
            let v = buf.0.lock().unwrap().clone();
            Ok(v)
        }
        W::JsonlVec => from_file(e2s(write_jsonl_vec(path, recs))),
        W::JsonlPar => from_file(e2s(write_jsonl_par(path, recs, shards))),
        W::CsvVec => from_file(e2s(write_csv_vec(path, h, recs))),
        W::CsvAlias => from_file(e2s(write_csv(path, h, &recs.to_vec()))),
        W::CsvPar => from_file(e2s(write_csv_par(path, recs, shards, h))),
        W::PcJsonl => {
            let p = Pipeline::default();
            from_file(e2s(from_vec(&p, recs.to_vec()).write_jsonl(path)))
        }
        W::PcJsonlPar => {
            let p = Pipeline::default();
            from_file(e2s(from_vec(&p, recs.to_vec()).write_jsonl_par(path, shards)))
        }
        W::PcCsv => {
            let p = Pipeline::default();
            from_file(e2s(from_vec(&p, recs.to_vec()).write_csv(path, h)))
        }
        W::PcCsvPar => {
            let p = Pipeline::default();
            from_file(e2s(from_vec(&p, recs.to_vec()).write_csv_par(path, shards, h)))
        }
        W::CloudJsonl => {
            let st = FakeObjectIO::new();
            e2s(write_cloud_jsonl_vec(&st, "b", key, recs))?;
            e2s(st.get_object("b", key))
        }
    }
}

enum Out { Recs(Vec<Row>), Bytes(Vec<u8>) }

/// run a reader entry point on `stored` placed under `path` / `key`
fn real_read(r: R, path: &Path, key: &str, stored: &[u8], headers: bool, per: usize, par: bool) -> Result<Out, String> {
    if r != R::CloudJsonl {
        if let Some(parent) = path.parent() {
            let _ = std::fs::create_dir_all(parent);
        }
        e2s(std::fs::write(path, stored))?;
    }
    // the helper readers take a glob PATTERN: the pattern that matches exactly this file
    let pattern = || -> Result<String, String> {
        path.to_str().map(glob_escape).ok_or_else(|| "helper readers need a UTF-8 path".to_string())
    };
    match r {
        R::Raw => {
            let f = e2s(std::fs::File::open(path))?;
            let rd = e2s(auto_detect_reader(f, path))?;
            Ok(Out::Bytes(drain(rd)?))
        }
        R::JsonlVec => Ok(Out::Recs(e2s(read_jsonl_vec::<Row>(path))?)),
        R::JsonlHelper => {
            let p = Pipeline::default();
            Ok(Out::Recs(e2s(e2s(read_jsonl::<Row>(&p, pattern()?))?.collect_seq())?))
        }
        R::JsonlStreaming => {
            let p = Pipeline::default();
            let c = e2s(read_jsonl_streaming::<Row>(&p, path, per))?;
            Ok(Out::Recs(e2s(if par { c.collect_par(None, None) } else { c.collect_seq() })?))
        }
        R::CsvVec => Ok(Out::Recs(e2s(read_csv_vec::<Row>(path, headers))?)),
        R::CsvHelper => {
            let p = Pipeline::default();
            Ok(Out::Recs(e2s(e2s(read_csv::<Row>(&p, pattern()?, headers))?.collect_seq())?))
        }
        R::CsvStreaming => {
            let p = Pipeline::default();
            let c = e2s(read_csv_streaming::<Row>(&p, path, headers, per))?;
            Ok(Out::Recs(e2s(if par { c.collect_par(None, None) } else { c.collect_seq() })?))
        }
        R::CloudJsonl => {
            let st = FakeObjectIO::new();
            e2s(st.put_object("b", key, stored))?;
            Ok(Out::Recs(e2s(read_cloud_jsonl_vec::<Row, _>(&st, "b", key))?))
        }
    }
}

fn same_as(out: &Out, pl: &Payload) -> bool {
    match out {
        Out::Recs(v) => pl.recs.as_deref() == Some(v.as_slice()),
        Out::Bytes(b) => *b == pl.plain,
    }
}

fn hx(b: &[u8]) -> String {
    if b.is_empty() { "-".into() } else { hex(b) }
}

/// a codec's cases are skipped (with a note) when this environment cannot run the codec's own library
fn xz_skipped(name: &[u8], codec: Option<&str>) -> bool {
    spec_ext_bytes(name).is_some_and(|c| !codec_ok(c)) || codec.is_some_and(|c| !codec_ok(c))
}

// ---------------------------------------------------------------------------------------------
// the request kinds
// ---------------------------------------------------------------------------------------------

fn codecs_line() -> String {
    let t = verif_codec_table();
    let s: Vec<String> = t
        .iter()
        .map(|(n, e, m)| format!("{}:{}:{}", n, e.join(","), m.as_ref().map_or("none".into(), |m| hx(m))))
        .collect();
    s.join(";")
}

fn one_codecs(cx: &mut Ctx) {
    let t = verif_codec_table();
    let i = emit(cx, "CODECS".into(), codecs_line(), true);
    // oracle: the registry lists the built-in codecs FIRST, in the documented order, with the true signatures,
    // followed by the registered user codecs in registration order
    let want: Vec<(String, Option<Vec<u8>>)> = all_codecs().iter().map(|(n, _, s)| (n.to_string(), s.map(<[u8]>::to_vec))).collect();
    let got: Vec<(String, Option<Vec<u8>>)> = t.iter().map(|(n, _, m)| (n.clone(), m.clone())).collect();
    if got != want {
        let sig = if got.len() == want.len() && got.iter().zip(&want).all(|(a, b)| a.0 == b.0) { "registry-magic-not-format-signature" } else { "registry-content-or-order-wrong" };
        cx.oracle_fail(i, sig, format!("registry (name, magic) rows {got:?}, expected {want:?}"));
    }
}

/// the model's lower-casing, re-implemented (tied to the Lean definition through LOWER requests)
fn lower_char_model(c: char) -> Vec<char> {
    if c.is_ascii_uppercase() { vec![c.to_ascii_lowercase()] }
    else if c == '\u{130}' { vec!['i', '\u{307}'] }
    else if c == '\u{212A}' { vec!['k'] }
    else { vec![c] }
}
fn ascii_shape(cs: impl Iterator<Item = char>) -> String {
    let mut o = String::new();
    let mut in_run = false;
    for c in cs {
        if c.is_ascii() { o.push(c); in_run = false; } else if !in_run { o.push('?'); in_run = true; }
    }
    o
}
fn one_lower(cx: &mut Ctx, s: &str) {
    let real = ascii_shape(s.to_lowercase().chars());
    emit(cx, format!("LOWER {}", hx(s.as_bytes())), hx(real.as_bytes()), false);
    cx.count("lower");
}

/// A `Read` that honours a read schedule and raises I/O faults: the i-th SUCCESSFUL call returns at most
/// `sched[i]` bytes (>= 1), successful calls beyond the schedule fill the caller's buffer; in front of the byte at
/// offset `o` the pending faults `(o, is_error)` are raised, one per call (`Interrupted`, or a transient
/// `ErrorKind::Other` that is delivered once); a read never crosses a pending fault; at the end of the data every
/// call returns `Ok(0)`. Models pipes / sockets / chained readers.
struct ChunkedRead {
    data: Vec<u8>,
    pos: usize,
    sched: Vec<usize>,
    k: usize,
    faults: VecDeque<(usize, bool)>,
    err_seen: Arc<AtomicBool>,
}
impl Read for ChunkedRead {
    fn read(&mut self, buf: &mut [u8]) -> std::io::Result<usize> {
        if self.pos >= self.data.len() {
            return Ok(0);
        }
        if let Some(&(off, is_err)) = self.faults.front() {
            if off <= self.pos {
                self.faults.pop_front();
                return if is_err {
                    self.err_seen.store(true, Ordering::SeqCst);
                    Err(std::io::Error::new(std::io::ErrorKind::Other, "injected transient source error"))
                } else {
                    Err(std::io::Error::new(std::io::ErrorKind::Interrupted, "injected EINTR"))
                };
            }
        }
        let limit = self.sched.get(self.k).copied().unwrap_or(usize::MAX).max(1);
        let until_fault = self.faults.front().map_or(usize::MAX, |f| f.0 - self.pos);
        let n = buf.len().min(limit).min(self.data.len() - self.pos).min(until_fault);
        self.k += 1;
        buf[..n].copy_from_slice(&self.data[self.pos..self.pos + n]);
        self.pos += n;
        Ok(n)
    }
}

/// decision of `auto_detect_reader` on `content` delivered by a source with the given read schedule and faults
/// (`sched = faults = []`: a `Cursor`); `ERR` = an injected source ERROR reached the caller
fn observe_reader_src(path: &Path, content: &[u8], sched: &[usize], faults: &[(usize, bool)], want: &str) -> String {
    let seen = Arc::new(AtomicBool::new(false));
    let seen2 = seen.clone();
    let got: Result<Vec<u8>, String> = match guarded(|| {
        let r = if sched.is_empty() && faults.is_empty() {
            auto_detect_reader(Cursor::new(content.to_vec()), path)
        } else {
            let src = ChunkedRead { data: content.to_vec(), pos: 0, sched: sched.to_vec(), k: 0, faults: faults.iter().copied().collect(), err_seen: seen2 };
            auto_detect_reader(src, path)
        };
        match r {
            Ok(r) => drain(r),
            Err(e) => Err(format!("{e:#}")),
        }
    }) {
        Ok(x) => x,
        Err(_) => return "PANIC".into(),
    };
    if got.is_err() && seen.load(Ordering::SeqCst) {
        return "ERR".into();
    }
    if got.as_ref().is_err_and(|e| e.contains("injected EINTR")) {
        return "ERR(interrupted-read-not-retried)".into();
    }
    classify_read(&got, content, want)
}

fn sched_tok(sched: &[usize]) -> String {
    if sched.is_empty() { "-".into() } else { sched.iter().map(|k| k.to_string()).collect::<Vec<_>>().join(",") }
}
fn faults_tok(f: &[(usize, bool)]) -> String {
    if f.is_empty() { "-".into() } else { f.iter().map(|(o, e)| format!("{o}{}", if *e { 'e' } else { 'i' })).collect::<Vec<_>>().join(",") }
}

/// DETECTS: the reader's decision must not depend on how the source chunks its reads, nor on `Interrupted`
/// faults; another source error while the signature is collected must be REPORTED (never a silent pass-through)
fn one_detect_sched(cx: &mut Ctx, path: &str, content: &[u8], sched: &[usize], faults: &[(usize, bool)]) {
    if xz_skipped(path.as_bytes(), spec_sig(content)) { cx.count("skipped:codec-unavailable"); return; }
    let ext = spec_ext(path);
    let sig = spec_sig(content);
    let want_r = ext.or(sig).unwrap_or("plain");
    // an error fault is live while the head is collected: in front of one of the first 6 bytes, with data behind it
    let live_err = ext.is_none() && faults.iter().any(|(o, e)| *e && *o < 6 && *o < content.len());
    let judge = |r: &str| -> Option<(&'static str, String)> {
        let ok = if live_err { r == "ERR" || r == want_r } else { r == want_r };
        if ok { return None; }
        let sig_name = if ext.is_none() && sig.is_none() { "neutral-plain-content-detected-as-compressed" }
            else if ext.is_none() && faults.iter().any(|f| f.1) { "neutral-signature-not-recognised-after-source-error" }
            else if ext.is_none() && !faults.is_empty() { "neutral-signature-not-recognised-after-interrupted-read" }
            else if ext.is_none() { "neutral-signature-not-recognised-short-first-read" } else { "extension-reader-decision-wrong" };
        Some((sig_name, format!("path {path:?} content {} read schedule [{}] faults [{}]: reader decision {r}, specification says {want_r}{}", hx(&content[..content.len().min(12)]), sched_tok(sched), faults_tok(faults), if live_err { " or a reported error" } else { "" })))
    };
    let mut r = observe_reader_src(Path::new(path), content, sched, faults, want_r);
    if judge(&r).is_some() {
        let r2 = observe_reader_src(Path::new(path), content, sched, faults, want_r);
        if judge(&r2).is_none() { cx.count("unconfirmed-failure(not repeated on re-execution)"); r = r2; }
    }
    let i = emit(cx, format!("DETECTS {} {} {} {}", sched_tok(sched), faults_tok(faults), hx(path.as_bytes()), hx(content)), format!("R={r}"), ext.is_some() || sig.is_some());
    cx.count(&format!("detects:R={}", if r.starts_with("AMBIG") { "AMBIG" } else { &r }));
    cx.count(&format!("detects:first-read={}", match sched.first() { None => "full".to_string(), Some(k) if *k >= 6 => ">=6".to_string(), Some(k) => k.to_string() }));
    if !faults.is_empty() { cx.count(&format!("detects:faults={}", if faults.iter().any(|f| f.1) { "error" } else { "interrupted-only" })); }
    if let Some((s, d)) = judge(&r) { cx.oracle_fail(i, s, d); }
}

fn observe_writer(path: &Path, probe: &[u8]) -> String {
    let r = guarded(|| -> Result<Vec<u8>, String> {
        let buf = Shared(Arc::new(Mutex::new(Vec::new())));
        let mut w = e2s(auto_detect_writer(buf.clone(), path))?;
        e2s(w.write_all(probe))?;
        e2s(w.flush())?;
        drop(w);
        let v = buf.0.lock().unwrap().clone();
        Ok(v)
    });
    match r {
        Ok(Ok(stored)) => classify_stored(&stored, probe),
        Ok(Err(_)) => "ERR".into(),
        Err(_) => "PANIC".into(),
    }
}

/// DETECT (and ODETECT for a name that is not valid UTF-8: `raw` = the name's bytes)
fn one_detect_raw(cx: &mut Ctx, raw: &[u8], content: &[u8]) {
    if xz_skipped(raw, spec_sig(content)) { cx.count("skipped:codec-unavailable"); return; }
    let os = std::ffi::OsStr::from_bytes(raw);
    let path = Path::new(os);
    let lossy = os.to_string_lossy().to_string();
    let utf8 = std::str::from_utf8(raw).is_ok();
    let ext = spec_ext_bytes(raw);
    let sig = spec_sig(content);
    let want_r = ext.or(sig).unwrap_or("plain");
    let want_w = ext.unwrap_or("plain");
    let probe = b"probe-payload 0123456789\n";
    let mut r = observe_reader_src(path, content, &[], &[], want_r);
    let mut w = observe_writer(path, probe);
    if r != want_r || w != want_w {
        let (r2, w2) = (observe_reader_src(path, content, &[], &[], want_r), observe_writer(path, probe));
        if r2 == want_r && w2 == want_w { cx.count("unconfirmed-failure(not repeated on re-execution)"); r = r2; w = w2; }
    }
    let nt = ext.is_some() || sig.is_some() || SPEC.iter().any(|(_, _, s)| !content.is_empty() && (s.starts_with(content) || content.starts_with(&s[..1])));
    let req = if utf8 { format!("DETECT {} {}", hx(raw), hx(content)) } else { format!("ODETECT {} {} {}", hx(raw), hx(lossy.as_bytes()), hx(content)) };
    let i = emit(cx, req, format!("R={r} W={w}"), nt);
    cx.count(&format!("detect:R={}", if r.starts_with("AMBIG") { "AMBIG" } else { &r }));
    if !utf8 { cx.count("detect:name-not-utf8"); }
    if r != want_r {
        let sig_name = if ext.is_none() && sig.is_none() { "neutral-plain-content-detected-as-compressed" }
            else if ext.is_none() { "neutral-signature-not-recognised" } else { "extension-reader-decision-wrong" };
        cx.oracle_fail(i, sig_name, format!("path {lossy:?} content {}: reader decision {r}, specification says {want_r}", hx(&content[..content.len().min(12)])));
    }
    if w != want_w {
        cx.oracle_fail(i, "extension-writer-decision-wrong", format!("path {lossy:?}: writer decision {w}, specification says {want_w}"));
    }
}
fn one_detect(cx: &mut Ctx, path: &str, content: &[u8]) { one_detect_raw(cx, path.as_bytes(), content); }

#[derive(Clone, Copy)]
struct RtOpts { shards: Option<usize>, per: usize, par: bool }
fn opts_tok(o: &RtOpts, headers: bool) -> String {
    format!("sh={},per={},par={},hdr={}", o.shards.map_or("none".to_string(), |k| k.to_string()), o.per, u8::from(o.par), u8::from(headers))
}

struct RtOut { wc: String, rc: String, detail: String, reader_panicked: bool }

/// write through `w`, read back through `r` (pure: usable from several threads at once)
fn exec_rt(w: W, r: R, path: &Path, key: &str, pl: &Payload, o: &RtOpts) -> RtOut {
    // writer and reader are guarded separately: a panic while READING is a failed read, not a lost write
    let wres = guarded(|| real_write(w, path, key, pl, o.shards));
    match wres {
        Err(m) => RtOut { wc: "PANIC".into(), rc: "FAIL".into(), detail: format!("writer panicked: {m}"), reader_panicked: false },
        Ok(Err(e)) => RtOut { wc: "ERR".into(), rc: "FAIL".into(), detail: format!("write error: {e}"), reader_panicked: false },
        Ok(Ok(stored)) => {
            let wc = classify_stored(&stored, &pl.plain);
            // read back what the writer stored, through reader `r` (same path / key)
            let (rc, detail, rp) = match guarded(|| real_read(r, path, key, &stored, pl.headers, o.per, o.par)) {
                Ok(Ok(out)) => if same_as(&out, pl) { ("SAME".to_string(), String::new(), false) } else { ("FAIL".to_string(), "read back different data".to_string(), false) },
                Ok(Err(e)) => ("FAIL".to_string(), format!("read error: {e}"), false),
                Err(m) => ("FAIL".to_string(), format!("reader panicked: {m}"), true),
            };
            RtOut { wc, rc, detail, reader_panicked: rp }
        }
    }
}

/// the property's statement on one written-and-read-back case: the oracle failures (signature, detail)
fn judge_rt(w: W, r: R, name: &[u8], shown: &str, pl: &Payload, out: &RtOut) -> Vec<(String, String)> {
    let ext = spec_ext_bytes(name);
    let sig = spec_sig(&pl.plain);
    let mut v = vec![];
    match ext {
        Some(c) => {
            if out.wc != c {
                v.push((format!("codec-extension-not-stored-compressed:{}", w.tok()),
                    format!("{} to {shown:?}: stored as {}, expected a genuine {c} stream starting with its signature ({})", w.tok(), out.wc, out.detail)));
            }
            if out.rc != "SAME" {
                v.push((format!("codec-extension-roundtrip-fails:{}", w.tok()), format!("{} to {shown:?} then {}: {}", w.tok(), r.tok(), out.detail)));
            }
        }
        None => {
            if sig.is_none() {
                if out.wc != "plain" {
                    v.push(("neutral-name-not-stored-verbatim".to_string(), format!("{} to {shown:?}: stored as {}", w.tok(), out.wc)));
                }
                if out.rc != "SAME" {
                    v.push(("neutral-plain-content-not-read-verbatim".to_string(), format!("{} to {shown:?} then {}: {}", w.tok(), r.tok(), out.detail)));
                }
            }
        }
    }
    v
}

fn emit_rt(cx: &mut Ctx, w: W, r: R, name: &[u8], pl: &Payload, o: &RtOpts, out: &RtOut, fails: Vec<(String, String)>) {
    let utf8 = std::str::from_utf8(name).ok();
    let lossy = String::from_utf8_lossy(name).to_string();
    let ext = spec_ext_bytes(name);
    let sig = spec_sig(&pl.plain);
    let req = match utf8 {
        Some(_) => format!("RT {} {} {} {} {}", w.tok(), r.tok(), hx(name), hx(&pl.plain), opts_tok(o, pl.headers)),
        None => format!("ORT {} {} {} {} {} {}", hx(name), w.tok(), r.tok(), hx(lossy.as_bytes()), hx(&pl.plain), opts_tok(o, pl.headers)),
    };
    let i = emit(cx, req, format!("W={} R={}", out.wc, out.rc), ext.is_some() || sig.is_some());
    cx.count(&format!("rt:w={}", w.tok()));
    cx.count(&format!("rt:r={}", r.tok()));
    cx.count(&format!("rt:stored={}", out.wc));
    cx.count(&format!("rt:sh={}", match o.shards { None => "none".to_string(), Some(k) if k > 3 => ">3".to_string(), Some(k) => k.to_string() }));
    cx.count(if ext.is_some() { "rt:path=codec-ext" } else if sig.is_some() { "rt:path=neutral,content=signature" } else { "rt:path=neutral" });
    if utf8.is_none() { cx.count("rt:name-not-utf8"); }
    if name.iter().any(|b| b"*?[]".contains(b)) { cx.count("rt:name-has-glob-metachar"); }
    if out.reader_panicked { cx.count("rt:reader-panicked"); }
    for (s, d) in fails { cx.oracle_fail(i, &s, d); }
}

/// RT (ORT when `name` is not valid UTF-8); an oracle failure is confirmed by re-execution
fn one_rt_raw(cx: &mut Ctx, env: &mut Env, w: W, r: R, name: &[u8], pl: &Payload, o: &RtOpts) {
    if xz_skipped(name, None) { cx.count("skipped:codec-unavailable"); return; }
    let rel = Path::new(std::ffi::OsStr::from_bytes(name));
    let key = String::from_utf8_lossy(name).to_string();
    let run = |env: &mut Env| -> RtOut {
        let path = env.fresh(rel);
        let out = exec_rt(w, r, &path, &key, pl, o);
        env.cleanup();
        out
    };
    let mut out = run(env);
    let mut fails = judge_rt(w, r, name, &key, pl, &out);
    if !fails.is_empty() {
        let out2 = run(env);
        let fails2 = judge_rt(w, r, name, &key, pl, &out2);
        if fails2.is_empty() { cx.count("unconfirmed-failure(not repeated on re-execution)"); out = out2; fails = fails2; }
    }
    emit_rt(cx, w, r, name, pl, o, &out, fails);
}
fn one_rt(cx: &mut Ctx, env: &mut Env, w: W, r: R, rel: &str, pl: &Payload, o: &RtOpts) {
    one_rt_raw(cx, env, w, r, rel.as_bytes(), pl, o);
}

/// `file` is either a genuine stream (`codec` = Some) of `pl.plain`, or `pl.plain` itself
fn one_rd(cx: &mut Ctx, env: &mut Env, r: R, rel: &str, codec: Option<&'static str>, pl: &Payload, o: &RtOpts) {
    if xz_skipped(rel.as_bytes(), codec) { cx.count("skipped:codec-unavailable"); return; }
    let file = match codec {
        Some(c) => match try_enc(c, &pl.plain) { Some(z) => z, None => { cx.count("skipped:codec-unavailable"); return; } },
        None => pl.plain.clone(),
    };
    // the assumed codec laws (hypothesis `Lawful` of the theorems), validated on the real libraries
    let law_broken = match codec {
        Some(c) => {
            let sig = all_codecs().iter().find(|x| x.0 == c).unwrap().2.unwrap_or(&[]);
            !(file.starts_with(sig) && dec(c, &file).as_deref() == Ok(&pl.plain[..]))
        }
        None => false,
    };
    let ext = spec_ext(rel);
    let sig = spec_sig(&file);
    let run = |env: &mut Env| -> (&'static str, String, bool) {
        let path = env.fresh(Path::new(rel));
        let res = guarded(|| real_read(r, &path, rel, &file, pl.headers, o.per, o.par));
        env.cleanup();
        match res {
            Ok(Ok(out)) => {
                if same_as(&out, pl) { (if codec.is_some() { "DECODED" } else { "VERBATIM" }, String::new(), false) }
                else if matches!(&out, Out::Bytes(b) if *b == file) { ("VERBATIM", String::new(), false) }
                else if matches!(&out, Out::Recs(v) if v.is_empty()) { ("FAIL", "different data (an EMPTY data set and no error)".to_string(), false) }
                else { ("FAIL", "different data".to_string(), false) }
            }
            Ok(Err(e)) => ("FAIL", e, false),
            Err(m) => ("FAIL", format!("panic: {m}"), true),
        }
    };
    let judge = |ans: &str, detail: &str| -> Option<(&'static str, String)> {
        match (codec, ext) {
            // (a codec that declares no magic bytes cannot be recognised by content: no expectation)
            (Some(c), None) => if ans != "DECODED" && all_codecs().iter().any(|x| x.0 == c && x.2.is_some()) {
                return Some(("neutral-signature-not-recognised", format!("genuine {c} stream under neutral name {rel:?} read through {}: {ans} {detail}", r.tok())));
            },
            (Some(c), Some(e)) if c == e => if ans != "DECODED" {
                return Some(("codec-extension-read-fails", format!("genuine {c} stream under {rel:?} read through {}: {ans} {detail}", r.tok())));
            },
            (None, None) => if sig.is_none() && ans != "VERBATIM" {
                return Some(("neutral-plain-content-not-read-verbatim", format!("plain content {} under neutral name {rel:?} read through {}: {ans} {detail}", hx(&file[..file.len().min(12)]), r.tok())));
            },
            _ => {}
        }
        None
    };
    let (mut ans, mut detail, mut panicked) = run(env);
    if judge(ans, &detail).is_some() {
        let (a2, d2, p2) = run(env);
        if judge(a2, &d2).is_none() { cx.count("unconfirmed-failure(not repeated on re-execution)"); ans = a2; detail = d2; panicked = p2; }
    }
    let req = match codec {
        Some(c) => format!("RD {} {} C {} {} {}", r.tok(), hx(rel.as_bytes()), c, hx(&pl.plain), opts_tok(o, pl.headers)),
        None => format!("RD {} {} P {} {}", r.tok(), hx(rel.as_bytes()), hx(&pl.plain), opts_tok(o, pl.headers)),
    };
    let i = emit(cx, req, ans.to_string(), true);
    cx.count(&format!("rd:r={}", r.tok()));
    cx.count(&format!("rd:{}:{}", if codec.is_some() { "genuine" } else { "raw" }, ans));
    if matches!(r, R::CsvVec | R::CsvHelper | R::CsvStreaming) { cx.count(&format!("rd:csv:hdr={}", u8::from(pl.headers))); }
    if panicked { cx.count("rd:reader-panicked"); }
    if detail.contains("an EMPTY data set and no error") { cx.count("rd:undecodable-file-read-as-empty-data-set-without-error(csv has_headers=true)"); }
    if codec.is_some() { cx.count("codec-law-validated(roundtrip+signature)"); }
    if law_broken {
        cx.oracle_fail(i, "codec-library-law-violated", format!("{codec:?}: compress output does not start with the format signature or does not decompress to the input"));
    }
    if let Some((s, d)) = judge(ans, &detail) { cx.oracle_fail(i, s, d); }
}

#[derive(Clone, Copy, PartialEq, Eq)]
enum G { LocalJsonl, LocalCsv, CloudJsonl }
impl G {
    fn tok(self) -> &'static str { match self { G::LocalJsonl => "local_jsonl", G::LocalCsv => "local_csv", G::CloudJsonl => "cloud_jsonl" } }
}

/// false on a file system that folds case (two names differing only in case would be ONE file)
static FS_CASE_SENSITIVE: AtomicBool = AtomicBool::new(true);

/// CGLOB: files (name, writer, payload) are written into one directory / key prefix, each through its own
/// writer entry point under its own name (mixed codecs, case variants, neutral names side by side), then all
/// are read back through ONE glob call: `read_jsonl(dir/*)`, `read_csv(dir/*)`, `read_cloud_jsonl_glob(g/*)`.
/// Oracle: the result is the concatenation of all files' records in byte order of the names.
fn one_glob(cx: &mut Ctx, env: &mut Env, g: G, files: &[(String, W, Payload)], o: &RtOpts) {
    let mut files: Vec<(String, W, Payload)> = files.to_vec();
    files.retain(|f| !xz_skipped(f.0.as_bytes(), None));
    files.sort_by(|a, b| a.0.as_bytes().cmp(b.0.as_bytes()));
    files.dedup_by(|a, b| a.0 == b.0);
    if !FS_CASE_SENSITIVE.load(Ordering::SeqCst) && g != G::CloudJsonl {
        let mut seen = std::collections::BTreeSet::new();
        files.retain(|f| seen.insert(f.0.to_lowercase()));
    }
    let headers = files.iter().any(|f| f.2.headers);
    struct GOut { wcs: Vec<String>, rc: &'static str, detail: String }
    let run = |env: &mut Env| -> GOut {
        let dir = env.fresh(Path::new("g"));
        let store = FakeObjectIO::new();
        let mut wcs: Vec<String> = vec![];
        let mut detail = String::new();
        for (name, w, pl) in &files {
            let rel = format!("g/{name}");
            let path = dir.join(name);
            let res = guarded(|| -> Result<Vec<u8>, String> {
                if g == G::CloudJsonl {
                    let recs: &[Row] = pl.recs.as_deref().unwrap_or(&[]);
                    e2s(write_cloud_jsonl_vec(&store, "b", &rel, recs))?;
                    e2s(store.get_object("b", &rel))
                } else {
                    real_write(*w, &path, &rel, pl, o.shards)
                }
            });
            match res {
                Ok(Ok(stored)) => wcs.push(classify_stored(&stored, &pl.plain)),
                Ok(Err(e)) => { wcs.push("ERR".into()); detail = format!("write error: {e}"); }
                Err(m) => { wcs.push("PANIC".into()); detail = format!("writer panicked: {m}"); }
            }
        }
        let want: Vec<Row> = files.iter().flat_map(|f| f.2.recs.clone().unwrap_or_default()).collect();
        // the pattern: the directory itself escaped (its name may contain glob characters), then `/*`
        let pat = format!("{}/*", glob_escape(&dir.to_string_lossy()));
        let got = guarded(|| -> Result<Vec<Row>, String> {
            match g {
                G::LocalJsonl => {
                    let p = Pipeline::default();
                    e2s(e2s(read_jsonl::<Row>(&p, &pat))?.collect_seq())
                }
                G::LocalCsv => {
                    let p = Pipeline::default();
                    e2s(e2s(read_csv::<Row>(&p, &pat, headers))?.collect_seq())
                }
                G::CloudJsonl => e2s(read_cloud_jsonl_glob::<Row, _>(&store, "b", "g/*")),
            }
        });
        env.cleanup();
        let rc = match got {
            Ok(Ok(v)) => if v == want { "SAME" } else { detail = format!("read back {} records, expected {}", v.len(), want.len()); "FAIL" },
            Ok(Err(e)) => { detail = format!("read error: {e}"); "FAIL" }
            Err(m) => { detail = format!("reader panicked: {m}"); "FAIL" }
        };
        GOut { wcs, rc, detail }
    };
    let judge = |out: &GOut| -> Vec<(String, String)> {
        let mut v = vec![];
        let mut sound = true;
        for ((name, w, pl), wc) in files.iter().zip(&out.wcs) {
            let ext = spec_ext(name);
            let sig = spec_sig(&pl.plain);
            let wt = if g == G::CloudJsonl { W::CloudJsonl } else { *w };
            match ext {
                Some(c) => if wc != c {
                    v.push((format!("codec-extension-not-stored-compressed:{}", wt.tok()), format!("glob member {name:?}: stored as {wc}, expected a genuine {c} stream ({})", out.detail)));
                },
                None => if sig.is_none() { if wc != "plain" { v.push(("neutral-name-not-stored-verbatim".to_string(), format!("glob member {name:?}: stored as {wc}"))); } } else { sound = false; },
            }
        }
        if sound && out.rc != "SAME" {
            v.push((format!("glob-read-of-compressed-files-fails:{}", g.tok()), format!("{} files {:?}: {}", files.len(), files.iter().map(|f| f.0.as_str()).collect::<Vec<_>>(), out.detail)));
        }
        v
    };
    let mut out = run(env);
    let mut fails = judge(&out);
    if !fails.is_empty() {
        let out2 = run(env);
        let f2 = judge(&out2);
        if f2.is_empty() { cx.count("unconfirmed-failure(not repeated on re-execution)"); out = out2; fails = f2; }
    }
    let mut req = format!("CGLOB {} {}", g.tok(), opts_tok(o, headers));
    for (name, w, pl) in &files {
        let wt = if g == G::CloudJsonl { W::CloudJsonl } else { *w };
        req.push_str(&format!(" {} {} {}", hx(format!("g/{name}").as_bytes()), wt.tok(), hx(&pl.plain)));
    }
    let i = emit(cx, req, format!("W={} R={}", out.wcs.join(","), out.rc), true);
    cx.count(&format!("glob:{}", g.tok()));
    cx.count(&format!("glob:files={}", files.len()));
    for (name, _, _) in &files { cx.count(&format!("glob:file:{}", spec_ext(name).unwrap_or("neutral"))); }
    for (s, d) in fails { cx.oracle_fail(i, &s, d); }
}

// ---------------------------------------------------------------------------------------------
// generators
// ---------------------------------------------------------------------------------------------

fn case_variant(cx: &mut Ctx, e: &str, k: usize) -> String {
    match k {
        0 => e.to_string(),
        1 => e.to_ascii_uppercase(),
        2 => { // Capitalised after the dot: ".Gz"
            let mut s = String::new();
            for (i, c) in e.chars().enumerate() { s.push(if i == 1 { c.to_ascii_uppercase() } else { c }); }
            s
        }
        _ => e.chars().map(|c| if cx.rng.chance(1, 2) { c.to_ascii_uppercase() } else { c }).collect(),
    }
}

const NEUTRAL_TAILS: [&str; 26] = [
    "", ".dat", ".jsonl", ".csv", ".txt", ".gzz", ".g", ".z", ".bz", ".bz3", ".zs", ".zstdd", ".x", ".xzz",
    "gz", "-gz", ".gz.bak", ".gz ", ".tgz", ".GZ.txt", ".gz\u{130}p", ".g\u{212A}z", ".\u{ff47}\u{ff5a}", "_xz", ".bzip", ".gzi",
];
const STEMS: [&str; 15] = ["x", "data", "a.b", "", "X.GZ", "BZh", "part-0001", "donn\u{e9}es", "archive.tar", ".hidden", "x.gz", "zst",
    "x[1]", "s*r", "w?y]"];
const MIDS: [&str; 5] = ["", ".jsonl", ".csv", ".txt", ".JSONL"];
const DIRS: [&str; 4] = ["sub.gz/", "d/", "A.XZ/", "n.bz2/"];

fn all_exts() -> Vec<&'static str> {
    all_codecs().iter().flat_map(|x| x.1.iter().copied()).collect()
}

fn gen_name(cx: &mut Ctx) -> String {
    let stem = *cx.rng.pick(&STEMS);
    let mid = *cx.rng.pick(&MIDS);
    let tail = if cx.rng.chance(3, 5) {
        let exts = all_exts();
        let e = *cx.rng.pick(&exts);
        let k = cx.rng.below(4);
        case_variant(cx, e, k)
    } else {
        (*cx.rng.pick(&NEUTRAL_TAILS)).to_string()
    };
    let mut name = format!("{stem}{mid}{tail}");
    if name.is_empty() || name == "." || name == ".." { name = format!("f{name}"); }
    if cx.rng.chance(1, 7) { name = format!("{}{}", cx.rng.pick(&DIRS), name); }
    name
}

/// file names that are not valid UTF-8 (Linux allows any byte but `/` and NUL): a Latin-1 byte, a lone
/// continuation byte, a truncated sequence — in the stem, with a codec extension or a neutral tail
fn non_utf8_names(cx: &mut Ctx) -> Vec<Vec<u8>> {
    let stems: [&[u8]; 4] = [b"caf\xe9", b"\x80x", b"d\xc3", b"a\xff\xfeb"];
    let mut v = vec![];
    for (k, e) in all_exts().iter().enumerate() {
        let mut n = stems[k % stems.len()].to_vec();
        n.extend_from_slice(b".jsonl");
        n.extend_from_slice(case_variant(cx, e, k % 3).as_bytes());
        v.push(n);
    }
    for t in [&b".dat"[..], b"", b".gz\xe9", b".g\xffz"] {
        let mut n = stems[v.len() % stems.len()].to_vec();
        n.extend_from_slice(t);
        v.push(n);
    }
    v
}

const NAME_POOL: [&str; 12] = ["alice", "Bob", "BZ", "BZh", "BZh91AY&SY", "B", "x y", "7", "gz", "Zed-9", "BZH", "(paren"];

fn gen_rows(cx: &mut Ctx, max: usize) -> Vec<Row> {
    let n = cx.rng.below(max + 1);
    (0..n)
        .map(|_| Row {
            name: (*cx.rng.pick(&NAME_POOL)).to_string(),
            n: match cx.rng.below(4) { 0 => cx.rng.range(-3, 3), 1 => i64::MAX, 2 => i64::MIN, _ => cx.rng.range(-100000, 100000) },
        })
        .collect()
}

fn payload_j(recs: Vec<Row>) -> Payload {
    let plain = jsonl_plain(&recs);
    Payload { recs: Some(recs), headers: false, plain }
}
fn payload_c(recs: Vec<Row>, headers: bool) -> Payload {
    // csv's `deserialize()` with has_headers = true swallows an I/O error that occurs while it reads the
    // header line and then reports an EMPTY data set; with an empty expected data set a failed read would
    // be indistinguishable from a good one, so empty data sets are always read with has_headers = false
    // (an empty data set has no header line, the flag changes nothing on the writing side).
    let headers = headers && !recs.is_empty();
    let plain = csv_plain(&recs, headers);
    Payload { recs: Some(recs), headers, plain }
}
fn payload_b(bytes: Vec<u8>) -> Payload {
    Payload { recs: None, headers: false, plain: bytes }
}

/// byte strings around every signature: proper prefixes, the signature, the signature + tail,
/// the signature with its last byte altered, plus the historical witnesses
fn prefix_contents() -> Vec<Vec<u8>> {
    let mut v: Vec<Vec<u8>> = vec![vec![], b"BZ".to_vec(), b"BZ,1\nfoo,2\n".to_vec(), b"BZh".to_vec(), b"BZh91AY&SY garbage".to_vec(),
        b"hello, world\n".to_vec(), b"{\"name\":\"BZ\",\"n\":1}\n".to_vec(), b"name,n\nBZ,1\n".to_vec(), vec![0x00], vec![0xff, 0xfe]];
    for (_, _, s) in all_codecs() {
        let Some(s) = s else { continue };
        for k in 1..=s.len() {
            v.push(s[..k].to_vec());
            let mut t = s[..k].to_vec();
            t.extend_from_slice(b",1\nrest of the file\n");
            v.push(t);
        }
        let mut a = s.to_vec();
        let l = a.len() - 1;
        a[l] ^= 0x01;
        a.extend_from_slice(b" tail tail tail");
        v.push(a);
    }
    v.dedup();
    v
}

/// writer shard counts: `None` (the writers' own default: `num_cpus` based), 1, 2, 3, n
fn gen_shards(cx: &mut Ctx, n: usize) -> Option<usize> {
    match cx.rng.below(6) {
        0 => None,
        1 => Some(1),
        2 => Some(2),
        3 => Some(3),
        4 => Some(n.max(1)),
        _ => Some(n + 2), // more shards than rows: clamped
    }
}

fn gen_opts(cx: &mut Ctx, n: usize) -> RtOpts {
    RtOpts { shards: gen_shards(cx, n), per: *cx.rng.pick(&[1usize, 2, 3, 1000]), par: cx.rng.chance(1, 2) }
}

/// fault placements in front of the first 6 bytes (what `read_head` itself reads)
fn gen_head_faults(cx: &mut Ctx, with_error: bool) -> Vec<(usize, bool)> {
    let k = 1 + cx.rng.below(3);
    let mut offs: Vec<usize> = (0..k).map(|_| cx.rng.below(6)).collect();
    offs.sort();
    let mut f: Vec<(usize, bool)> = offs.into_iter().map(|o| (o, false)).collect();
    if with_error {
        let i = cx.rng.below(f.len());
        f[i].1 = true;
    }
    f
}

// ---------------------------------------------------------------------------------------------
// run hygiene: preflights, stall watchdog
// ---------------------------------------------------------------------------------------------

/// no finished case for this long = the real code hangs (a single case takes milliseconds to a few seconds)
const STALL_LIMIT_S: u64 = 900;

fn start_watchdog() {
    std::thread::spawn(|| {
        let mut last = HEART.load(Ordering::SeqCst);
        let mut since = std::time::Instant::now();
        loop {
            std::thread::sleep(std::time::Duration::from_secs(5));
            let now = HEART.load(Ordering::SeqCst);
            if now != last { last = now; since = std::time::Instant::now(); continue; }
            if since.elapsed().as_secs() > STALL_LIMIT_S {
                eprintln!("C10: no case finished for {STALL_LIMIT_S} s after case #{now} - the code under test hangs; giving up");
                std::process::exit(3);
            }
        }
    });
}

fn preflight(cx: &mut Ctx, root: &Path) {
    // can the codecs' own libraries run here? (xz preset 6 needs ~94 MiB per encoder; under a tight memory limit
    // `XzEncoder::new` fails)
    for (k, (c, _, sig)) in SPEC.iter().enumerate() {
        let mut ok = false;
        for attempt in 0..3 {
            if guarded(|| { let z = enc(c, b"probe"); z.starts_with(sig) && dec(c, &z).as_deref() == Ok(&b"probe"[..]) }).is_ok_and(|b| b) { ok = true; break; }
            std::thread::sleep(std::time::Duration::from_millis(200 * (attempt + 1)));
        }
        CODEC_OK[k].store(ok, Ordering::SeqCst);
        if !ok { cx.notes.push(format!("the {c} library cannot be run in this environment (encoder creation fails: memory limit?): every case with a {c} extension or a {c} stream was SKIPPED (stat skipped:codec-unavailable); the other codecs were checked as usual")); }
    }
    // does the temp file system fold case?
    let d = root.join("casefold");
    let _ = std::fs::create_dir_all(&d);
    let _ = std::fs::write(d.join("a"), b"1");
    let _ = std::fs::write(d.join("A"), b"2");
    let n = std::fs::read_dir(&d).map(|it| it.count()).unwrap_or(2);
    FS_CASE_SENSITIVE.store(n == 2, Ordering::SeqCst);
    if n != 2 { cx.notes.push("the temp file system folds case: glob directories hold one file per case-folded name".into()); }
    let _ = std::fs::remove_dir_all(&d);
}

// ---------------------------------------------------------------------------------------------
// the registry child: `ibh child c10 registry <fresh|used> <seed> <tier>`
// ---------------------------------------------------------------------------------------------

fn extras_tok() -> String {
    USERS.iter().map(|(n, e, m)| format!("{}:{}:{}", n, e.join(","), m.map_or("none".to_string(), hx))).collect::<Vec<_>>().join(";")
}

/// Child process: the registry is process-wide state, so the cases that call `register_codec` run here.
/// `fresh`: `register_codec` is the FIRST registry operation of the process; `used`: a detection came first.
/// Prints the cases (request, real answer, non-trivial flag), oracle failures and statistics on stdout.
pub fn child(args: &[String]) -> i32 {
    if args.first().map(String::as_str) == Some("ping") { println!("PONG c10"); return 0; }
    if args.first().map(String::as_str) != Some("registry") || args.len() < 4 { return 2; }
    let pre = args[1].as_str();
    let seed: u64 = args[2].parse().unwrap_or(1);
    let tier = match args[3].as_str() { "thorough" => crate::ctx::Tier::Thorough, "search" => crate::ctx::Tier::Search, _ => crate::ctx::Tier::Quick };
    if pre != "fresh" && pre != "used" { return 2; }
    start_watchdog();
    if pre == "used" {
        // a detection (= `get_registry`) before the first `register_codec`
        let w = observe_writer(Path::new("warm.gz"), b"warm-up");
        if w != "gzip" { eprintln!("warm-up detection gave {w}"); }
    }
    for (n, e, m) in USERS {
        let (header, xor): (&'static [u8], u8) = match n { "noop" => (NOOP_HEADER, 0), "rot" => (ROT_HEADER, 0x5a), _ => (ZED_HEADER, 0) };
        register_codec(Arc::new(UserCodec { name: n, exts: e, magic: m, header, xor }));
    }
    WITH_USERS.store(true, Ordering::SeqCst);
    *PREFIX.lock().unwrap() = format!("XREG {pre} {} ", extras_tok());
    let mut cx = Ctx::new("C10", seed ^ 0x5ee0_c10c, tier);
    let tmp = tempfile::tempdir().expect("tempdir");
    let mut env = Env { root: tmp.path().to_path_buf(), next: 0 };
    preflight(&mut cx, tmp.path());
    registry_block(&mut cx, &mut env);
    // hand the results to the parent
    let mut out = String::new();
    for ((req, real), nt) in cx.reqs.iter().zip(&cx.reals).zip(&cx.nontrivial) {
        out.push_str(&format!("C\t{}\t{req}\t{real}\n", u8::from(*nt)));
    }
    for f in &cx.fails { out.push_str(&format!("F\t{}\t{}\t{}\n", f.case, f.signature, f.detail.replace(['\t', '\n'], " "))); }
    for (k, v) in &cx.stats { if !k.starts_with("oracle_fail:") { out.push_str(&format!("S\t{k}\t{v}\n")); } }
    for n in &cx.notes { out.push_str(&format!("N\t{}\n", n.replace(['\t', '\n'], " "))); }
    out.push_str("END\n");
    print!("{out}");
    0
}

/// what the registry child checks: the table, detection for every built-in AND user extension / magic, round
/// trips through every local entry point (and the cloud one for built-in extensions), genuine streams
fn registry_block(cx: &mut Ctx, env: &mut Env) {
    one_codecs(cx);
    let exts = all_exts();
    let contents = prefix_contents();
    let mut names: Vec<String> = vec![];
    for e in &exts {
        for k in 0..2 { names.push(format!("x.jsonl{}", case_variant(cx, e, k))); }
    }
    names.push(".noop".into());
    for t in ["", ".dat", ".jsonl", ".noo", ".noop.bak", ".rott", ".gz.bak", "noop"] { names.push(format!("x{t}")); }
    names.push("sub.noop/x.jsonl".into());
    let mut nd = 0;
    for n in &names {
        for c in &contents { one_detect(cx, n, c); nd += 1; }
    }
    cx.exhaustive_blocks.push(format!("XREG DETECT (child process with 3 user codecs registered): {} names (every built-in and user extension x {{lower, UPPER}}, neutral tails) x {} contents (prefixes of every built-in signature and of the user magic `ff fe`) = {nd} cases", names.len(), contents.len()));
    // short first reads with user magic in play (the head collected is still the longest signature: 6 bytes)
    let rows = vec![Row { name: "BZh".into(), n: 7 }, Row { name: "q".into(), n: 0 }];
    let mut ns = 0;
    for (c, _, _) in all_codecs() {
        if !codec_ok(c) { continue; }
        let z = enc(c, &jsonl_plain(&rows));
        for sc in [&[1usize][..], &[2], &[1, 1, 1, 1, 1, 1, 1]] {
            one_detect_sched(cx, "x.dat", &z, sc, &[]);
            one_detect_sched(cx, "x.dat", &z, sc, &[(1, false)]);
            ns += 2;
        }
    }
    for c in [&[0xffu8][..], &[0xff, 0xfe], &[0xff, 0xfe, b'N']] { one_detect_sched(cx, "x.dat", c, &[1], &[]); ns += 1; }
    cx.exhaustive_blocks.push(format!("XREG DETECTS: a genuine stream of every built-in and user codec under a neutral name, first reads of 1 / 2 bytes / byte-by-byte, with and without an Interrupted fault = {ns} cases"));
    // round trips
    let pj = payload_j(rows.clone());
    let pc = payload_c(rows.clone(), true);
    let o2 = RtOpts { shards: Some(2), per: 1, par: true };
    let on = RtOpts { shards: None, per: 2, par: false };
    let mut nrt = 0;
    let rt_names: Vec<String> = {
        let mut v: Vec<String> = exts.iter().enumerate().map(|(k, e)| format!("x.d{}", case_variant(cx, e, k % 3))).collect();
        v.push("x.dat".into());
        v.push("x.noop.bak".into());
        v
    };
    for (k, n) in rt_names.iter().enumerate() {
        let user_ext = spec_ext(n).is_some_and(|c| USERS.iter().any(|u| u.0 == c));
        for w in J_WRITERS {
            // the cloud writer does not consult the registry: an object key with a USER codec's extension is outside
            // the property (which speaks of the built-in codecs)
            if w == W::CloudJsonl && user_ext { cx.count("xreg:skipped(cloud writer x user extension: outside the property)"); continue; }
            let r = if w == W::CloudJsonl { R::CloudJsonl } else { J_READERS[(k + nrt) % 4] };
            one_rt(cx, env, w, r, n, &pj, if nrt % 2 == 0 { &o2 } else { &on });
            nrt += 1;
        }
        for w in C_WRITERS {
            one_rt(cx, env, w, C_READERS[(k + nrt) % C_READERS.len()], n, &pc, if nrt % 2 == 0 { &o2 } else { &on });
            nrt += 1;
        }
    }
    cx.exhaustive_blocks.push(format!("XREG RT: every writer entry point x {} names (every built-in and user extension + 2 neutral) with rotating readers = {nrt} cases", rt_names.len()));
    let mut nrd = 0;
    for n in ["x.dat", "x", "x.NOOP", "x.myext", "x.gz"] {
        for (c, _, _) in all_codecs() {
            one_rd(cx, env, J_READERS[nrd % 4], n, Some(c), &pj, &o2);
            one_rd(cx, env, C_READERS[nrd % 4], n, Some(c), &pc, &on);
            nrd += 2;
        }
        one_rd(cx, env, R::JsonlVec, n, None, &pj, &o2);
        one_rd(cx, env, R::Raw, n, None, &payload_b(vec![0xff, 0xfe, b'x']), &o2);
        nrd += 2;
    }
    cx.exhaustive_blocks.push(format!("XREG RD: a genuine stream of every built-in and user codec under neutral / user-extension / built-in names = {nrd} cases"));
}

/// run one registry child with a watchdog; `None` = it did not complete
fn spawn_registry_child(pre: &str, seed: u64, tier: crate::ctx::Tier, limit_s: u64) -> Option<String> {
    use std::process::{Command, Stdio};
    let exe = std::env::current_exe().ok()?;
    let tier_s = match tier { crate::ctx::Tier::Thorough => "thorough", crate::ctx::Tier::Search => "search", _ => "quick" };
    let mut ch = Command::new(exe)
        .args(["child", "c10", "registry", pre, &seed.to_string(), tier_s])
        .stdin(Stdio::null()).stdout(Stdio::piped()).stderr(Stdio::null())
        .spawn().ok()?;
    let mut so = ch.stdout.take()?;
    let reader = std::thread::spawn(move || { let mut s = String::new(); let _ = so.read_to_string(&mut s); s });
    let t0 = std::time::Instant::now();
    loop {
        match ch.try_wait() {
            Ok(Some(st)) => {
                let out = reader.join().unwrap_or_default();
                return if st.success() && out.ends_with("END\n") { Some(out) } else { None };
            }
            Ok(None) => {
                if t0.elapsed().as_secs() > limit_s { let _ = ch.kill(); let _ = ch.wait(); return None; }
                std::thread::sleep(std::time::Duration::from_millis(50));
                HEART.fetch_add(1, Ordering::SeqCst);
            }
            Err(_) => return None,
        }
    }
}

/// is `ibh child c10 ...` dispatched to `c10::child` (one line in `main.rs::child`)?
fn child_entry_wired() -> bool {
    let Ok(exe) = std::env::current_exe() else { return false };
    for _ in 0..3 {
        if let Ok(o) = std::process::Command::new(&exe).args(["child", "c10", "ping"]).stdin(std::process::Stdio::null()).output() {
            if o.status.success() && String::from_utf8_lossy(&o.stdout).starts_with("PONG c10") { return true; }
            if o.status.code() == Some(2) { return false; }
        }
        std::thread::sleep(std::time::Duration::from_millis(300));
    }
    false
}

fn registry_children(cx: &mut Ctx) {
    if !child_entry_wired() {
        cx.notes.push("THE REGISTRY BLOCK DID NOT RUN: `ibh child c10 ping` is not answered - add `Some(\"c10\") => c10::child(&args[1..]),` to `main.rs::child` (register_codec changes process-wide state, so these cases need a child process)".into());
        cx.count("xreg:child-entry-not-wired");
        return;
    }
    for pre in ["fresh", "used"] {
        let mut out = spawn_registry_child(pre, cx.seed, cx.tier, 600);
        if out.is_none() {
            cx.count("xreg:child-retried");
            out = spawn_registry_child(pre, cx.seed, cx.tier, 1200);
        }
        let Some(out) = out else {
            let i = emit(cx, format!("XREG {pre} {} CODECS", extras_tok()), "CHILD-DID-NOT-COMPLETE".into(), true);
            cx.oracle_fail(i, "registry-child-did-not-complete", format!("`ibh child c10 registry {pre}` crashed or hung twice (10 and 20 minute limits): the code under test aborts or hangs once user codecs are registered"));
            continue;
        };
        let base = cx.reqs.len();
        for line in out.lines() {
            let f: Vec<&str> = line.splitn(4, '\t').collect();
            match f.as_slice() {
                ["C", nt, req, real] => { HEART.fetch_add(1, Ordering::SeqCst); cx.case((*req).to_string(), (*real).to_string(), *nt == "1"); }
                ["F", k, sig, detail] => { if let Ok(k) = k.parse::<usize>() { cx.oracle_fail(base + k, sig, (*detail).to_string()); } }
                ["S", k, v] => { cx.count_n(&format!("xreg:{k}"), v.parse().unwrap_or(0)); }
                ["N", n] => cx.notes.push(format!("registry child ({pre}): {n}")),
                _ => {}
            }
        }
        cx.count(&format!("xreg:child-completed:{pre}"));
    }
    cx.exhaustive_blocks.push("XREG: two CHILD PROCESSES register three user codecs (`noop`: extension .noop, magic ff fe; `rot`: extensions .rot/.myext, no magic; `zed`: extension `z` = a suffix of .gz/.xz, magic 1f = a prefix of gzip's, so that registry ORDER matters) — one as its very first registry operation, one after a detection — and re-run CODECS, the small-scope DETECT / DETECTS blocks, RT through every entry point and RD; the model answers from its registry STATE (`Registry.run`)".into());
}

// ---------------------------------------------------------------------------------------------
// concurrent detection (the registry is shared by all threads)
// ---------------------------------------------------------------------------------------------

/// `threads` threads hammer `auto_detect_reader` / `auto_detect_writer` at the same time on a fixed list of probes.
/// The expectation is deterministic (every call must give the sequential answer): contention only adds power.
fn conc_detect(cx: &mut Ctx, threads: usize, iters: usize) {
    let rows = jsonl_plain(&[Row { name: "a".into(), n: 1 }, Row { name: "BZh".into(), n: 2 }]);
    let mut probes: Vec<(String, Vec<u8>)> = vec![("c.csv".into(), b"BZ,1\nfoo,2\n".to_vec()), ("c.jsonl".into(), rows.clone())];
    for (n1, n2, c) in [("c.jsonl.gz", "c.dat", "gzip"), ("c.ZST", "c", "zstd"), ("c.bz2", "c.txt", "bzip2")] {
        if codec_ok(c) { probes.push((n1.into(), enc(c, &rows))); probes.push((n2.into(), enc(c, &rows))); }
    }
    if codec_ok("xz") {
        // preset 0: a small dictionary keeps the decoders cheap
        probes.push(("c.xz".into(), enc_xz(&rows, 0)));
        probes.push(("c.bin".into(), enc_xz(&rows, 0)));
    }
    let wprobes: Vec<&str> = if codec_ok("gzip") { vec!["w.gz", "w.GZIP", "w.dat", "w.gz.bak"] } else { vec!["w.dat", "w.gz.bak"] };
    let np = probes.len();
    let want_of = |k: usize| -> &'static str {
        if k < np { spec_ext(&probes[k].0).or(spec_sig(&probes[k].1)).unwrap_or("plain") } else { spec_ext(wprobes[k - np]).unwrap_or("plain") }
    };
    // one concurrent round: for every probe the set of distinct decisions any thread saw, folded into one answer
    let round = || -> Vec<String> {
        let results: Vec<Vec<std::collections::BTreeSet<String>>> = std::thread::scope(|s| {
            let hs: Vec<_> = (0..threads).map(|t| {
                let probes = &probes;
                let wprobes = &wprobes;
                s.spawn(move || {
                    let mut seen: Vec<std::collections::BTreeSet<String>> = vec![Default::default(); probes.len() + wprobes.len()];
                    for it in 0..iters {
                        for k in 0..probes.len() {
                            let j = (k + t + it) % probes.len();
                            let (n, c) = &probes[j];
                            let want = spec_ext(n).or(spec_sig(c)).unwrap_or("plain");
                            seen[j].insert(observe_reader_src(Path::new(n), c, &[], &[], want));
                        }
                        if it % 8 == 0 {
                            for (k, n) in wprobes.iter().enumerate() { seen[probes.len() + k].insert(observe_writer(Path::new(n), b"probe-payload 0123456789\n")); }
                        }
                        HEART.fetch_add(1, Ordering::SeqCst);
                    }
                    seen
                })
            }).collect();
            hs.into_iter().map(|h| h.join().unwrap_or_default()).collect()
        });
        (0..np + wprobes.len()).map(|k| {
            let mut all = std::collections::BTreeSet::new();
            for r in &results { if let Some(s) = r.get(k) { all.extend(s.iter().cloned()); } }
            if all.len() == 1 { all.into_iter().next().unwrap() } else { format!("UNSTABLE({})", all.into_iter().collect::<Vec<_>>().join("|")) }
        }).collect()
    };
    let mut ans = round();
    if (0..ans.len()).any(|k| ans[k] != want_of(k)) {
        // confirm by re-execution: a probe is reported only if it deviates in BOTH rounds
        let again = round();
        for k in 0..ans.len() {
            if ans[k] != want_of(k) && again[k] == want_of(k) { cx.count("unconfirmed-failure(not repeated on re-execution)"); ans[k] = again[k].clone(); }
        }
    }
    let mut n = 0;
    for (k, (name, content)) in probes.iter().enumerate() {
        let (want, r) = (want_of(k), &ans[k]);
        let i = emit(cx, format!("DETECTS - - {} {}", hx(name.as_bytes()), hx(content)), format!("R={r}"), true);
        cx.count("conc:reader-probe");
        if r != want { cx.oracle_fail(i, "concurrent-detection-differs-from-sequential", format!("{threads} threads x {iters} rounds of auto_detect_reader on {name:?} (seen in two runs): decisions {r}, specification says {want}")); }
        n += 1;
    }
    for (k, name) in wprobes.iter().enumerate() {
        let (want, w) = (want_of(np + k), &ans[np + k]);
        // the reader half of the DETECT answer is taken sequentially (empty content: plain / the extension's codec)
        let r = observe_reader_src(Path::new(name), b"", &[], &[], want);
        let i = emit(cx, format!("DETECT {} -", hx(name.as_bytes())), format!("R={r} W={w}"), true);
        cx.count("conc:writer-probe");
        if w != want { cx.oracle_fail(i, "concurrent-detection-differs-from-sequential", format!("{threads} threads of auto_detect_writer on {name:?} (seen in two runs): decisions {w}, specification says {want}")); }
        n += 1;
    }
    cx.exhaustive_blocks.push(format!("CONC: {threads} threads x {iters} rounds call auto_detect_reader on {} probes (every codec by extension and by signature, plain text) and auto_detect_writer on {} names AT THE SAME TIME; every single call must give the sequential decision = {n} cases", probes.len(), wprobes.len()));
}

/// 4 threads write and read back through different entry points under different codec names at the same time
fn conc_rt(cx: &mut Ctx, env: &mut Env) {
    let rows: Vec<Row> = (0..40).map(|i| Row { name: format!("r{i}"), n: i * 31 - 7 }).collect();
    let pj = payload_j(rows.clone());
    let pc = payload_c(rows, true);
    let o = RtOpts { shards: Some(3), per: 7, par: true };
    let mut jobs: Vec<(W, R, String, Payload, PathBuf)> = vec![];
    for round in 0..2 {
        for (k, (_, exts, _)) in SPEC.iter().enumerate() {
            let e = exts[round % exts.len()];
            let (w, r, pl) = match (k + round) % 4 {
                0 => (W::JsonlPar, R::JsonlStreaming, pj.clone()),
                1 => (W::CsvPar, R::CsvStreaming, pc.clone()),
                2 => (W::JsonlVec, R::JsonlHelper, pj.clone()),
                _ => (W::CsvAlias, R::CsvVec, pc.clone()),
            };
            let name = format!("t{round}{k}.d{e}");
            if xz_skipped(name.as_bytes(), None) { continue; }
            let path = env.fresh(Path::new(&name));
            jobs.push((w, r, name, pl, path));
        }
    }
    let mut n = 0;
    for batch in jobs.chunks(4) {
        let run_batch = || -> Vec<RtOut> {
            std::thread::scope(|s| {
                let hs: Vec<_> = batch.iter().map(|(w, r, name, pl, path)| s.spawn(move || exec_rt(*w, *r, path, name, pl, &o))).collect();
                hs.into_iter().map(|h| h.join().unwrap_or(RtOut { wc: "PANIC".into(), rc: "FAIL".into(), detail: "thread died".into(), reader_panicked: false })).collect()
            })
        };
        let outs = run_batch();
        // confirm by re-execution: the whole batch once more, concurrently
        let again: Option<Vec<RtOut>> = if batch.iter().zip(&outs).any(|((w, r, name, pl, _), out)| !judge_rt(*w, *r, name.as_bytes(), name, pl, out).is_empty()) { Some(run_batch()) } else { None };
        for (k, ((w, r, name, pl, _), out)) in batch.iter().zip(outs).enumerate() {
            let mut out = out;
            let mut fails = judge_rt(*w, *r, name.as_bytes(), name, pl, &out);
            if !fails.is_empty() {
                if let Some(a) = &again {
                    let f2 = judge_rt(*w, *r, name.as_bytes(), name, pl, &a[k]);
                    if f2.is_empty() {
                        cx.count("unconfirmed-failure(not repeated on re-execution)");
                        out = RtOut { wc: a[k].wc.clone(), rc: a[k].rc.clone(), detail: a[k].detail.clone(), reader_panicked: a[k].reader_panicked };
                        fails = f2;
                    }
                }
            }
            emit_rt(cx, *w, *r, name.as_bytes(), pl, &o, &out, fails);
            cx.count("conc:rt");
            n += 1;
        }
    }
    let dir = env.root.join(format!("{}", env.next));
    let _ = std::fs::remove_dir_all(dir);
    cx.exhaustive_blocks.push(format!("CONC RT: batches of 4 threads, each writing and reading back through a different entry point under a different codec's extension at the same time = {n} cases"));
}

// ---------------------------------------------------------------------------------------------
// the run
// ---------------------------------------------------------------------------------------------

/// wall time per block, for the evidence (a run-quality figure, never compared)
fn lap(cx: &mut Ctx, t: &mut std::time::Instant, what: &str) {
    cx.count_n(&format!("time_ms:{what}"), t.elapsed().as_millis() as u64);
    *t = std::time::Instant::now();
}

pub fn run(cx: &mut Ctx) {
    let mut t = std::time::Instant::now();
    let tmp = tempfile::tempdir().expect("tempdir");
    let mut env = Env { root: tmp.path().to_path_buf(), next: 0 };
    start_watchdog();
    preflight(cx, tmp.path());

    // ---- (0) tables and the lower-casing assumption ----
    one_codecs(cx);
    let mut mism = 0u64;
    for cp in 0u32..=0x10FFFF {
        if let Some(c) = char::from_u32(cp) {
            let real = ascii_shape(c.to_string().to_lowercase().chars());
            let model = ascii_shape(lower_char_model(c).into_iter());
            if real != model {
                mism += 1;
                if mism <= 20 { one_lower(cx, &c.to_string()); }
            }
        }
    }
    cx.count_n("lower:unicode-scalars-checked", 0x110000 - 0x800);
    cx.count_n("lower:model-mismatch", mism);
    cx.exhaustive_blocks.push("LOWER: every Unicode scalar value: ASCII shape of char::to_lowercase == the model's lowerChar (mismatches are sent to the driver and show up as disagreements)".into());
    for s in ["ABCXYZ.Gz", "x.GZ\u{130}P", "\u{212A}elvin.XZ", "\u{c9}T\u{c9}.BZ2", "@[`{AZaz", "\u{3a3}\u{3a3}.zst", "\u{ff27}\u{ff3a}", "caf\u{fffd}.jsonl.GZ"] {
        one_lower(cx, s);
    }
    for cp in 0u32..128 { one_lower(cx, &char::from_u32(cp).unwrap().to_string()); }

    lap(cx, &mut t, "lower");
    // ---- (1) corpus: the design witnesses ----
    let w3 = vec![Row { name: "a".into(), n: 1 }, Row { name: "b".into(), n: 2 }, Row { name: "c".into(), n: 3 }, Row { name: "d".into(), n: 4 }];
    let o2 = RtOpts { shards: Some(2), per: 2, par: false };
    let on = RtOpts { shards: None, per: 2, par: true };
    one_rt(cx, &mut env, W::JsonlPar, R::JsonlVec, "x.jsonl.gz", &payload_j(w3.clone()), &o2);
    one_rt(cx, &mut env, W::CsvPar, R::CsvVec, "x.csv.gz", &payload_c(w3.clone(), false), &o2);
    one_rt(cx, &mut env, W::PcJsonlPar, R::JsonlVec, "x.jsonl.zst", &payload_j(w3.clone()), &o2);
    one_rt(cx, &mut env, W::JsonlPar, R::JsonlVec, "e.jsonl.gz", &payload_j(vec![]), &o2);
    one_rt(cx, &mut env, W::CsvPar, R::CsvVec, "e.csv.xz", &payload_c(vec![], true), &o2);
    one_rt(cx, &mut env, W::CloudJsonl, R::CloudJsonl, "dir/.gz", &payload_j(w3.clone()), &o2);
    one_rt(cx, &mut env, W::CloudJsonl, R::CloudJsonl, ".bz2", &payload_j(w3.clone()), &o2);
    // shards = None (the writers' own default), the `write_csv` alias, PCollection::write_csv_par(Some(k))
    one_rt(cx, &mut env, W::JsonlPar, R::JsonlStreaming, "n.jsonl.zst", &payload_j(w3.clone()), &on);
    one_rt(cx, &mut env, W::CsvPar, R::CsvStreaming, "n.csv.bz2", &payload_c(w3.clone(), true), &on);
    one_rt(cx, &mut env, W::CsvAlias, R::CsvVec, "alias.csv.gz", &payload_c(w3.clone(), true), &o2);
    one_rt(cx, &mut env, W::PcCsvPar, R::CsvHelper, "pc.csv.ZST", &payload_c(w3.clone(), true), &o2);
    one_rt(cx, &mut env, W::PcCsvPar, R::CsvVec, "pc.csv.gzip", &payload_c(w3.clone(), false), &on);
    // a name with glob metacharacters: the helper readers get the escaped pattern
    one_rt(cx, &mut env, W::JsonlVec, R::JsonlHelper, "x[1].jsonl.gz", &payload_j(w3.clone()), &o2);
    one_rt(cx, &mut env, W::CsvVec, R::CsvHelper, "s*r?.csv.xz", &payload_c(w3.clone(), true), &o2);
    let bz = vec![Row { name: "BZ".into(), n: 1 }, Row { name: "foo".into(), n: 2 }];
    one_rd(cx, &mut env, R::CsvVec, "plain.csv", None, &payload_c(bz.clone(), false), &o2);
    one_rt(cx, &mut env, W::CsvVec, R::CsvVec, "plain.csv", &payload_c(bz.clone(), false), &o2);
    one_rd(cx, &mut env, R::Raw, "plain.txt", None, &payload_b(b"BZ".to_vec()), &o2);
    one_detect(cx, "plain.csv", b"BZ,1\nfoo,2\n");
    one_detect(cx, "notes.txt", b"BZ");
    // glob reads over files of different codecs side by side (local JSONL / CSV, cloud keys)
    {
        let a = vec![Row { name: "a".into(), n: 1 }, Row { name: "BZh".into(), n: 2 }];
        let b = vec![Row { name: "b".into(), n: 3 }];
        let c = vec![Row { name: "c".into(), n: 4 }, Row { name: "d".into(), n: 5 }, Row { name: "e".into(), n: 6 }];
        let fj = vec![("a.jsonl.gz".to_string(), W::JsonlPar, payload_j(a.clone())), ("b.jsonl".to_string(), W::JsonlVec, payload_j(b.clone())),
            ("c.JSONL.ZST".to_string(), W::PcJsonlPar, payload_j(c.clone())), ("d.dat".to_string(), W::PcJsonl, payload_j(vec![])), (".bz2".to_string(), W::JsonlVec, payload_j(b.clone()))];
        one_glob(cx, &mut env, G::LocalJsonl, &fj, &o2);
        one_glob(cx, &mut env, G::CloudJsonl, &fj, &o2);
        let fc = vec![("a.csv.xz".to_string(), W::CsvPar, payload_c(a.clone(), true)), ("b.csv".to_string(), W::CsvVec, payload_c(b.clone(), true)),
            ("c.csv.Bz2".to_string(), W::PcCsvPar, payload_c(c.clone(), true)), ("d.gzip".to_string(), W::CsvAlias, payload_c(a.clone(), true))];
        one_glob(cx, &mut env, G::LocalCsv, &fc, &o2);
    }
    // a genuine stream under a neutral name whose source delivers its first byte alone; the same with an
    // `Interrupted` fault after that byte (EINTR on a pipe), and with a transient source ERROR after it
    for (c, _, _) in SPEC {
        if xz_skipped(b"", Some(c)) { continue; }
        let g = enc(c, b"{\"name\":\"a\",\"n\":1}\n");
        one_detect_sched(cx, "x.dat", &g, &[1], &[]);
        one_detect_sched(cx, "x.dat", &g, &[1], &[(1, false)]);
        one_detect_sched(cx, "x.dat", &g, &[], &[(1, true)]);
    }

    lap(cx, &mut t, "corpus");
    // ---- (2) exhaustive small scope ----
    let exts = all_exts();
    let contents = prefix_contents();
    let mut names: Vec<String> = vec![];
    for e in &exts {
        for k in 0..3 {
            names.push(format!("x.jsonl{}", case_variant(cx, e, k)));
        }
        names.push((*e).to_string()); // the bare extension as the whole name
    }
    for t in NEUTRAL_TAILS { names.push(format!("x{t}")); }
    names.push("sub.gz/x.jsonl".into());
    names.push("x[1].gz".into());
    let mut nd = 0;
    for n in &names {
        for c in &contents {
            one_detect(cx, n, c);
            nd += 1;
        }
    }
    cx.exhaustive_blocks.push(format!("DETECT: {} names (every extension x {{lower, UPPER, Capitalised}}, bare extensions, {} neutral tails, a directory carrying an extension) x {} contents (every non-empty prefix of every signature alone and followed by text, each signature with its last byte flipped, 'BZ' witnesses, empty) = {nd} cases", names.len(), NEUTRAL_TAILS.len(), contents.len()));

    lap(cx, &mut t, "detect");
    // names that are not valid UTF-8 (oracle: the ASCII-case-insensitive suffix of the name's bytes decides)
    let bzh = vec![Row { name: "BZh".into(), n: 7 }, Row { name: "BZ".into(), n: -1 }, Row { name: "q".into(), n: 0 }];
    let mut no = 0;
    for (k, raw) in non_utf8_names(cx).iter().enumerate() {
        let mut cs: Vec<Vec<u8>> = vec![b"BZ,1\n".to_vec(), vec![]];
        for c in ["gzip", "zstd"] { if codec_ok(c) { cs.push(enc(c, b"x\n")); } }
        for c in &cs { one_detect_raw(cx, raw, c); no += 1; }
        let ow = [W::Raw, W::JsonlVec, W::JsonlPar, W::PcJsonl, W::PcJsonlPar];
        let or = [R::Raw, R::JsonlVec, R::JsonlStreaming];
        for (j, w) in ow.iter().enumerate() {
            one_rt_raw(cx, &mut env, *w, or[(j + k) % 3], raw, &payload_j(bzh.clone()), if (j + k) % 2 == 0 { &o2 } else { &on });
            no += 1;
        }
        let cw = [W::CsvVec, W::CsvPar, W::CsvAlias, W::PcCsv, W::PcCsvPar];
        let cr = [R::Raw, R::CsvVec, R::CsvStreaming];
        for (j, w) in cw.iter().enumerate() {
            one_rt_raw(cx, &mut env, *w, cr[(j + k) % 3], raw, &payload_c(bzh.clone(), true), if (j + k) % 2 == 0 { &on } else { &o2 });
            no += 1;
        }
    }
    cx.exhaustive_blocks.push(format!("ODETECT / ORT: file names that are NOT valid UTF-8 (a Latin-1 byte, a lone continuation byte, a truncated sequence; every extension + neutral tails) x detection and every LOCAL writer entry point with rotating readers (the helper readers reject such paths before any I/O; cloud keys are `&str`) = {no} cases"));

    lap(cx, &mut t, "non-utf8");
    let rt_names: Vec<String> = {
        let mut v = vec![];
        for e in &exts {
            for k in 0..cx.budget(2, 3) { v.push(format!("x.d{}", case_variant(cx, e, k))); }
        }
        v.push("x.dat".into());
        v.push("x.gz.bak".into());
        v
    };
    let j_payloads = vec![payload_j(vec![]), payload_j(bzh.clone())];
    let c_payloads = vec![payload_c(vec![], true), payload_c(bzh.clone(), false), payload_c(bzh.clone(), true)];
    let mut nrt = 0;
    for n in &rt_names {
        for pl in &j_payloads {
            for w in J_WRITERS { for r in J_READERS {
                one_rt(cx, &mut env, w, r, n, pl, &RtOpts { shards: if nrt % 5 == 4 { None } else { Some(2) }, per: 2, par: nrt % 2 == 0 });
                nrt += 1;
            } }
        }
        for pl in &c_payloads {
            for w in C_WRITERS { for r in C_READERS {
                one_rt(cx, &mut env, w, r, n, pl, &RtOpts { shards: if nrt % 5 == 4 { None } else { Some(2) }, per: 2, par: nrt % 2 == 0 });
                nrt += 1;
            } }
        }
    }
    cx.exhaustive_blocks.push(format!("RT: every writer entry point x every reader entry point of the same format (6x5 JSONL, 6x4 CSV incl. the `write_csv` alias) x {} names (every extension in {} case variants + 2 neutral) x payloads {{empty, 3 rows whose text starts 'BZh' (csv without header), same with header}}, shards Some(2) / None = {nrt} cases", rt_names.len(), cx.budget(2, 3)));

    lap(cx, &mut t, "rt");
    // names that consist of nothing but the extension (dot-files), alone and inside a directory
    let mut nbare = 0;
    for e in &exts {
        for k in 0..2 {
            let v = case_variant(cx, e, k);
            for name in [v.clone(), format!("dir/{v}")] {
                for w in J_WRITERS {
                    let r = if w == W::CloudJsonl { R::CloudJsonl } else { J_READERS[nbare % J_READERS.len()] };
                    one_rt(cx, &mut env, w, r, &name, &payload_j(bzh.clone()), &o2);
                    nbare += 1;
                }
                for w in C_WRITERS {
                    one_rt(cx, &mut env, w, C_READERS[nbare % C_READERS.len()], &name, &payload_c(bzh.clone(), true), &o2);
                    nbare += 1;
                }
            }
        }
    }
    cx.exhaustive_blocks.push(format!("RT: names that are only an extension (`.gz`, `dir/.GZ`, ...) x every writer entry point = {nbare} cases"));

    lap(cx, &mut t, "bare");
    // genuine streams / raw content under every name class, through every reader; CSV with AND without header
    let mut nrd = 0;
    let rd_names = ["x.dat", "x", "x.jsonl", "x.GZ", "x.zst", "x.Bz2", "x.xz", "x.gz.bak", "x[1].dat"];
    for n in rd_names {
        for (c, _, _) in SPEC {
            for r in J_READERS { one_rd(cx, &mut env, r, n, Some(c), &payload_j(bzh.clone()), &o2); nrd += 1; }
            for r in C_READERS {
                one_rd(cx, &mut env, r, n, Some(c), &payload_c(bzh.clone(), false), &o2);
                one_rd(cx, &mut env, r, n, Some(c), &payload_c(bzh.clone(), true), &o2);
                nrd += 2;
            }
        }
        for r in J_READERS { one_rd(cx, &mut env, r, n, None, &payload_j(bzh.clone()), &o2); nrd += 1; }
        for r in C_READERS {
            one_rd(cx, &mut env, r, n, None, &payload_c(bzh.clone(), false), &o2);
            one_rd(cx, &mut env, r, n, None, &payload_c(bzh.clone(), true), &o2);
            one_rd(cx, &mut env, r, n, None, &payload_c(bz.clone(), false), &o2);
            nrd += 3;
        }
        for c in &contents { one_rd(cx, &mut env, R::Raw, n, None, &payload_b(c.clone()), &o2); nrd += 1; }
    }
    cx.exhaustive_blocks.push(format!("RD: {} names x (genuine stream of every codec | plain text | every signature-prefix content) x every reader (CSV readers with has_headers false AND true) = {nrd} cases", rd_names.len()));

    lap(cx, &mut t, "rd");
    // the reader's decision on sources that deliver their first bytes in short reads / raise I/O faults
    let scheds: [&[usize]; 7] = [&[1], &[1, 1, 1, 1, 1, 1, 1, 1], &[2], &[3, 1], &[5], &[6], &[1, 8192]];
    let mut nds = 0;
    let ds_names = ["x.dat", "x", "x.jsonl", "x.GZ", "x.csv.zst", "x.gz.bak"];
    let mut ds_contents: Vec<Vec<u8>> = contents.clone();
    for (c, _, _) in SPEC {
        if xz_skipped(b"", Some(c)) { continue; }
        ds_contents.push(enc(c, &jsonl_plain(&bzh)));
        ds_contents.push(enc(c, b""));
    }
    for n in ds_names {
        for c in &ds_contents {
            for sc in scheds { one_detect_sched(cx, n, c, sc, &[]); nds += 1; }
        }
    }
    cx.exhaustive_blocks.push(format!("DETECTS: {} names x {} contents (the signature-prefix contents + a genuine stream and an empty genuine stream of every codec) x {} read schedules (first read of 1, 2, 3, 5, 6 bytes; byte-by-byte; 1 then full) = {nds} cases", ds_names.len(), ds_contents.len(), scheds.len()));
    // faults while the head is collected (neutral names only: under a codec extension the decoder reads the source
    // itself): one Interrupted at every offset 0..5, two in a row, Interrupted + short reads; one transient error at
    // every offset 0..5
    let mut nfl = 0;
    for n in ["x.dat", "x", "x.gz.bak"] {
        for c in &ds_contents {
            for off in 0..6usize {
                one_detect_sched(cx, n, c, if off % 2 == 0 { &[] } else { &[1, 1, 1] }, &[(off, false)]);
                nfl += 1;
                if n == "x.dat" { one_detect_sched(cx, n, c, if off % 2 == 1 { &[] } else { &[2] }, &[(off, true)]); nfl += 1; }
            }
            one_detect_sched(cx, n, c, &[1], &[(1, false), (1, false)]);
            one_detect_sched(cx, n, c, &[], &[(0, false), (3, false), (5, false)]);
            nfl += 2;
        }
    }
    // plain text: Interrupted anywhere (the pass-through is std's BufReader + read_to_end, which retry)
    for off in [6usize, 7, 12, 13] {
        one_detect_sched(cx, "x.txt", b"hello, world\nsecond line\n", &[4, 4], &[(off, false)]);
        nfl += 1;
    }
    cx.exhaustive_blocks.push(format!("DETECTS with I/O faults: neutral names x the same contents x {{one Interrupted at each offset 0..5, two in a row, three spread; one transient error at each offset 0..5}}; Interrupted behind the head for plain text = {nfl} cases"));

    lap(cx, &mut t, "detects");
    // content larger than the 8 KiB BufReader, plain and compressed, through every entry point
    let mut nbig = 0;
    {
        let big: Vec<Row> = (0..cx.budget(700, 1100)).map(|i| Row { name: big_name(cx, 24), n: i as i64 * 7919 - 1000 }).collect();
        let pj = payload_j(big.clone());
        let pc = payload_c(big.clone(), true);
        for (c, _, _) in SPEC {
            if xz_skipped(b"", Some(c)) { continue; }
            let zj = enc(c, &pj.plain);
            let zc = enc(c, &pc.plain);
            cx.count(&format!("big:compressed-size>{}", if zj.len() > 8192 && zc.len() > 8192 { "8KiB" } else { "SMALL(unexpected)" }));
        }
        // writer shards 2 / 1: every part file / buffer of the parallel writers is itself larger than 8 KiB
        let ob = RtOpts { shards: Some(2), per: 100, par: true };
        let os = RtOpts { shards: Some(1), per: 64, par: false };
        cx.count(&format!("big:smallest-part-bytes>{}", if pj.plain.len() / 2 > 8192 + 64 && pc.plain.len() / 2 > 8192 + 64 { "8KiB" } else { "SMALL(unexpected)" }));
        for (k, n) in ["big.d.gz", "big.d.ZST", "big.d.bz2", "big.d.xz", "big.dat"].iter().enumerate() {
            for w in J_WRITERS { let r = J_READERS[(k + nbig) % J_READERS.len()]; one_rt(cx, &mut env, w, r, n, &pj, if nbig % 2 == 0 { &ob } else { &os }); nbig += 1; }
            for w in C_WRITERS { let r = C_READERS[(k + nbig) % C_READERS.len()]; one_rt(cx, &mut env, w, r, n, &pc, if nbig % 2 == 0 { &ob } else { &os }); nbig += 1; }
        }
        for (c, _, _) in SPEC {
            if xz_skipped(b"", Some(c)) { continue; }
            for r in J_READERS { one_rd(cx, &mut env, r, "big.dat", Some(c), &pj, &ob); nbig += 1; }
            for r in C_READERS { one_rd(cx, &mut env, r, "big", Some(c), &pc, &os); nbig += 1; }
            let z = enc(c, &pj.plain);
            one_detect_sched(cx, "big.dat", &z, &[1], &[]);
            one_detect_sched(cx, "big.dat", &z, &[], &[]);
            one_detect_sched(cx, "big.dat", &z, &[2, 1], &[(2, false)]);
            nbig += 3;
        }
    }
    cx.exhaustive_blocks.push(format!("BIG: one data set whose plain and compressed forms both exceed the 8 KiB reader buffer: every writer entry point x 5 names (4 codecs + neutral) with rotating readers; a genuine stream of every codec under a neutral name through every reader; short-first-read detection = {nbig} cases"));

    lap(cx, &mut t, "big");
    // one data set whose single shard buffers / part files exceed the encoders' own buffers (flate2: 32 KiB of output
    // per `write` call; zstd: one 128 KiB block per call): a writer that calls `write` where it must call `write_all`
    // loses data only from here on. gzip and zstd only (cheap).
    let mut nhuge = 0;
    {
        let rows: Vec<Row> = (0..2000).map(|i| Row { name: big_name(cx, 160), n: i as i64 * 104729 - 5 }).collect();
        let pj = payload_j(rows.clone());
        let pc = payload_c(rows, true);
        cx.count(&format!("huge:plain-bytes>{}", if pj.plain.len() > 300 * 1024 && pc.plain.len() > 300 * 1024 { "300KiB" } else { "SMALL(unexpected)" }));
        cx.count(&format!("huge:half>{}", if pc.plain.len() / 2 > 140 * 1024 { "140KiB" } else { "SMALL(unexpected)" }));
        let o1 = RtOpts { shards: Some(1), per: 500, par: true };
        let o2h = RtOpts { shards: Some(2), per: 1000, par: false };
        one_rt(cx, &mut env, W::CsvPar, R::CsvVec, "huge.csv.gz", &pc, &o1);
        one_rt(cx, &mut env, W::CsvPar, R::CsvStreaming, "huge.csv.zst", &pc, &o2h);
        one_rt(cx, &mut env, W::JsonlPar, R::JsonlVec, "huge.jsonl.zst", &pj, &o1);
        one_rt(cx, &mut env, W::JsonlPar, R::JsonlStreaming, "huge.jsonl.GZ", &pj, &o2h);
        nhuge += 4;
        if cx.tier != crate::ctx::Tier::Quick {
            one_rt(cx, &mut env, W::CsvPar, R::CsvVec, "huge.csv.zstd", &pc, &o1);
            one_rt(cx, &mut env, W::CsvPar, R::CsvVec, "huge.csv.gzip", &pc, &o2h);
            one_rt(cx, &mut env, W::PcJsonlPar, R::JsonlVec, "huge.jsonl.gz", &pj, &o1);
            one_rt(cx, &mut env, W::CsvVec, R::CsvHelper, "huge2.csv.zst", &pc, &o1);
            one_rt(cx, &mut env, W::CloudJsonl, R::CloudJsonl, "huge.jsonl.zst", &pj, &o1);
            nhuge += 5;
        }
    }
    cx.exhaustive_blocks.push(format!("HUGE: one data set of > 300 KiB plain text that compresses badly, through write_csv_par / write_jsonl_par with 1 and 2 shards under .gz / .zst names (each shard buffer / part file > 140 KiB: beyond flate2's 32 KiB output buffer and zstd's 128 KiB block) = {nhuge} cases"));

    lap(cx, &mut t, "huge");
    // glob reads: every codec side by side in one directory / key prefix
    let mut ngl = 0;
    for g in [G::LocalJsonl, G::LocalCsv, G::CloudJsonl] {
        for variant in 0..cx.budget(3, 6) {
            let h = variant % 2 == 0;
            let mut files = vec![];
            for (k, e) in exts.iter().enumerate() {
                let recs = vec![Row { name: format!("r{k}"), n: k as i64 }, Row { name: "BZh".into(), n: -(k as i64) }];
                let name = format!("f{k}.d{}", case_variant(cx, e, variant % 4));
                let (w, pl) = if g == G::LocalCsv { (C_WRITERS[1 + (k + variant) % 5], payload_c(recs, h)) } else { (J_WRITERS[1 + (k + variant) % 4], payload_j(recs)) };
                files.push((name, w, pl));
            }
            let plain_recs = vec![Row { name: "plain".into(), n: 0 }];
            files.push(("m[1].dat".to_string(), if g == G::LocalCsv { W::CsvVec } else { W::JsonlVec }, if g == G::LocalCsv { payload_c(plain_recs, h) } else { payload_j(plain_recs) }));
            one_glob(cx, &mut env, g, &files, &RtOpts { shards: if variant == 2 { None } else { Some(1 + variant % 3) }, per: 2, par: false });
            ngl += 1;
        }
    }
    cx.exhaustive_blocks.push(format!("GLOB: read_jsonl(dir/*), read_csv(dir/*), read_cloud_jsonl_glob(g/*) over a directory holding one file per extension (rotating case variants and writer entry points) plus a neutral file = {ngl} cases"));

    lap(cx, &mut t, "glob");
    // ---- (2b) the registry as state (child processes), concurrent use of the compression layer ----
    registry_children(cx);
    lap(cx, &mut t, "registry-children");
    conc_detect(cx, 8, cx.budget(150, 600));
    lap(cx, &mut t, "conc-detect");
    conc_rt(cx, &mut env);

    lap(cx, &mut t, "registry+conc");
    // ---- (3) random block ----
    let rounds = if cx.tier == crate::ctx::Tier::Search { 12000 } else { cx.budget(1500, 40000) };
    for _ in 0..rounds {
        let name = gen_name(cx);
        match cx.rng.below(10) {
            0..=3 => {
                // record round trip
                let recs = gen_rows(cx, 6);
                let o = gen_opts(cx, recs.len());
                if cx.rng.chance(1, 2) {
                    let w = *cx.rng.pick(&J_WRITERS);
                    let r = *cx.rng.pick(&J_READERS);
                    one_rt(cx, &mut env, w, r, &name, &payload_j(recs), &o);
                } else {
                    let h = cx.rng.chance(1, 2);
                    let w = *cx.rng.pick(&C_WRITERS);
                    let r = *cx.rng.pick(&C_READERS);
                    one_rt(cx, &mut env, w, r, &name, &payload_c(recs, h), &o);
                }
            }
            4 => {
                // raw bytes through the raw writer and reader
                let c = gen_bytes(cx, &contents);
                let o = gen_opts(cx, 1);
                one_rt(cx, &mut env, W::Raw, R::Raw, &name, &payload_b(c), &o);
            }
            5 => {
                let c = gen_bytes(cx, &contents);
                one_detect(cx, &name, &c);
            }
            6 => {
                // a source with a random read schedule; content: bytes around signatures or a genuine stream;
                // under a neutral name every third source also raises faults while the head is collected
                let c = if cx.rng.chance(1, 2) { gen_bytes(cx, &contents) } else {
                    let recs = gen_rows(cx, 3);
                    let c = SPEC[cx.rng.below(4)].0;
                    if codec_ok(c) { enc(c, &jsonl_plain(&recs)) } else { jsonl_plain(&recs) }
                };
                let k = cx.rng.below(5);
                let sched: Vec<usize> = (0..k).map(|_| *cx.rng.pick(&[1usize, 1, 2, 3, 5, 6, 7, 100])).collect();
                let faults = if spec_ext(&name).is_none() && cx.rng.chance(1, 3) { let e = cx.rng.chance(1, 3); gen_head_faults(cx, e) } else { vec![] };
                one_detect_sched(cx, &name, &c, &sched, &faults);
                if cx.rng.chance(1, 6) { gen_glob(cx, &mut env); }
            }
            7 => {
                let o = gen_opts(cx, 1);
                let c = gen_bytes(cx, &contents);
                one_rd(cx, &mut env, R::Raw, &name, None, &payload_b(c), &o);
            }
            _ => {
                // genuine stream of a random codec under a random name through a random reader
                let recs = gen_rows(cx, 5);
                let o = gen_opts(cx, recs.len());
                let c = SPEC[cx.rng.below(4)].0;
                let codec = if cx.rng.chance(4, 5) { Some(c) } else { None };
                if cx.rng.chance(1, 2) {
                    let r = *cx.rng.pick(&J_READERS);
                    one_rd(cx, &mut env, r, &name, codec, &payload_j(recs), &o);
                } else {
                    let r = *cx.rng.pick(&C_READERS);
                    let h = cx.rng.chance(1, 2);
                    one_rd(cx, &mut env, r, &name, codec, &payload_c(recs, h), &o);
                }
            }
        }
    }

    lap(cx, &mut t, "random");
    // run-quality notes (never verdicts)
    for (c, _, _) in SPEC {
        if !codec_ok(c) && !cx.notes.iter().any(|n| n.contains(&format!("the {c} library cannot be run"))) {
            cx.notes.push(format!("the {c} library stopped working during the run (encoder creation failed three times in a row: memory?): the {c} cases after that point were SKIPPED (stat skipped:codec-unavailable)"));
        }
    }
    let panics = cx.stats.get("rd:reader-panicked").copied().unwrap_or(0) + cx.stats.get("rt:reader-panicked").copied().unwrap_or(0);
    if panics > 0 { cx.notes.push(format!("{panics} reads PANICKED instead of returning Err and were counted as failed reads (FAIL): a streaming source over a file its decoder rejects makes the runner panic with `cloneable source` (runner.rs); none of them is a case the property speaks about (the file is not a stream of the codec its name / first bytes announce)")); }
    let unconf = cx.stats.get("unconfirmed-failure(not repeated on re-execution)").copied().unwrap_or(0);
    if unconf > 0 { cx.notes.push(format!("{unconf} oracle failures did NOT repeat when the case was executed again and were dropped (transient environment trouble: disk, memory); every reported failure was seen twice")); }
    let empties = cx.stats.get("rd:undecodable-file-read-as-empty-data-set-without-error(csv has_headers=true)").copied().unwrap_or(0);
    if empties > 0 { cx.notes.push(format!("{empties} CSV reads with has_headers = true of a file the chosen decoder rejects returned Ok(EMPTY data set) instead of Err (the csv crate drops an I/O error met while it reads the header row); counted as failed reads, outside the property's statement")); }
}

/// a name of `len` characters that does not compress well
fn big_name(cx: &mut Ctx, len: usize) -> String {
    const A: &[u8] = b"abcdefghijklmnopqrstuvwxyzABCDEFGHIJKLMNOPQRSTUVWXYZ0123456789";
    (0..len).map(|_| A[cx.rng.below(A.len())] as char).collect()
}

/// a random directory of 1..4 files with random names (no '/'), writers and payloads, read through a glob
fn gen_glob(cx: &mut Ctx, env: &mut Env) {
    let g = *cx.rng.pick(&[G::LocalJsonl, G::LocalCsv, G::CloudJsonl]);
    let h = cx.rng.chance(1, 2);
    let k = 1 + cx.rng.below(4);
    let mut files = vec![];
    for _ in 0..k {
        let mut name = gen_name(cx);
        if let Some(p) = name.rfind('/') { name = name[p + 1..].to_string(); }
        if name.is_empty() || name == "." || name == ".." { name = format!("f{name}"); }
        let recs = gen_rows(cx, 4);
        if g == G::LocalCsv {
            let w = *cx.rng.pick(&C_WRITERS[1..]);
            files.push((name, w, payload_c(recs, h)));
        } else {
            let w = *cx.rng.pick(&J_WRITERS[1..5]);
            files.push((name, w, payload_j(recs)));
        }
    }
    // csv: one header flag for the whole directory (read_csv applies it to every file)
    let nmax = files.iter().map(|f| f.2.recs.as_ref().map_or(0, Vec::len)).max().unwrap_or(0);
    let o = gen_opts(cx, nmax.max(1));
    one_glob(cx, env, g, &files, &o);
}

fn gen_bytes(cx: &mut Ctx, contents: &[Vec<u8>]) -> Vec<u8> {
    match cx.rng.below(4) {
        0 => contents[cx.rng.below(contents.len())].clone(),
        1 => {
            // a signature prefix followed by random bytes
            let s = SPEC[cx.rng.below(4)].2;
            let k = cx.rng.below(s.len() + 1);
            let mut v = s[..k].to_vec();
            for _ in 0..cx.rng.below(40) { v.push(cx.rng.below(256) as u8); }
            v
        }
        2 => {
            // text
            let n = cx.rng.below(60);
            let alpha: &[u8] = b"BZh(,\n abcxyz019{}\"\x1f";
            (0..n).map(|_| alpha[cx.rng.below(alpha.len())]).collect()
        }
        _ => {
            let n = cx.rng.below(30);
            (0..n).map(|_| cx.rng.below(256) as u8).collect()
        }
    }
}
