//! Join-centred blocks of the pipeline family:
//! * the IN-JOIN EXHAUSTIVE block: every barrier kind inside the LEFT and inside the RIGHT side x 4 join kinds x
//!   rows 0..4 x seq + par 1..4 (the sides run through `run_subplan_seq` / `run_subplan_par`, which carry their own
//!   copies of the GBK / CombineValues / CombineGlobal arms and of the fan-in loop);
//! * programs whose right side is not a fresh collection (`Step::JoinX`): other pipeline, self-join, shared prefix,
//!   sibling second join;
//! * a dense stream of NESTED joins (must be rejected with an error in both modes).

use crate::ctx::Ctx;
use crate::pipe::*;
use crate::pipe_x::*;

pub const KINDS: [JoinKind; 4] = [JoinKind::Inner, JoinKind::Left, JoinKind::Right, JoinKind::Full];
fn kv(k: i64, v: i64) -> V { V::pair(V::I(k), V::I(v)) }

#[derive(Clone, Copy, PartialEq, Debug)]
pub enum SideBarrier { Gbk, CombineValues, GbkLifted, RawLifted, Global(Option<usize>), GlobalLifted(Option<usize>), Distinct, DistinctPerKey, TopKPerKey }

pub fn all_side_barriers() -> Vec<SideBarrier> {
    let mut v = vec![SideBarrier::Gbk, SideBarrier::CombineValues, SideBarrier::GbkLifted, SideBarrier::RawLifted];
    for fo in [None, Some(0), Some(1), Some(2), Some(3)] { v.push(SideBarrier::Global(fo)); }
    v.push(SideBarrier::GlobalLifted(Some(1)));
    v.push(SideBarrier::GlobalLifted(Some(2)));
    v.extend([SideBarrier::Distinct, SideBarrier::DistinctPerKey, SideBarrier::TopKPerKey]);
    v
}
/// the kinds C05 is about (combines; the fan-in loop of the sub-plan runner)
pub fn combine_side_barriers() -> Vec<SideBarrier> {
    all_side_barriers().into_iter().filter(|b| !matches!(b, SideBarrier::Gbk)).collect()
}

/// a side program of `n` rows that contains barrier `b` and ends in shape KV with keys in {0, 1, 2}
pub fn side_prog(b: SideBarrier, n: usize) -> Prog {
    let rows: Vec<V> = (0..n as i64).map(|i| kv(i % 2, i + 1)).collect();
    let t_rows: Vec<V> = (0..n as i64).map(|i| V::I(i + 1)).collect();
    match b {
        SideBarrier::Gbk => Prog { shape: Shape::KV, src: rows, steps: vec![Step::Gbk, Step::Gsum] },
        SideBarrier::CombineValues => Prog { shape: Shape::KV, src: rows, steps: vec![Step::CombineValues(Comb::Sum)] },
        SideBarrier::GbkLifted => Prog { shape: Shape::KV, src: rows, steps: vec![Step::Gbk, Step::CombineValuesLifted(Comb::Count)] },
        SideBarrier::RawLifted => Prog { shape: Shape::KG, src: (0..n as i64).map(|i| V::pair(V::I(i % 2), V::L((0..(i % 3)).map(|j| V::I(i + j)).collect()))).collect(), steps: vec![Step::CombineValuesLifted(Comb::Sum)] },
        SideBarrier::Global(fo) => Prog { shape: Shape::T, src: t_rows, steps: vec![Step::CombineGlobally(Comb::Sum, fo), Step::Map(Fn_::Modn(3)), Step::Topair] },
        SideBarrier::GlobalLifted(fo) => Prog { shape: Shape::T, src: t_rows, steps: vec![Step::CombineGloballyLifted(Comb::MaxT, fo), Step::Map(Fn_::Modn(3)), Step::Topair] },
        SideBarrier::Distinct => Prog { shape: Shape::T, src: t_rows, steps: vec![Step::Map(Fn_::Modn(3)), Step::Distinct, Step::Topair] },
        SideBarrier::DistinctPerKey => Prog { shape: Shape::KV, src: rows, steps: vec![Step::MapValues(Fn_::Modn(2)), Step::DistinctPerKey] },
        SideBarrier::TopKPerKey => Prog { shape: Shape::KV, src: rows, steps: vec![Step::TopKPerKey(1), Step::Glen] },
    }
}

/// every barrier kind of `barriers` inside the left and inside the right side x 4 join kinds x rows 0..=max_rows x seq + par 1..4
pub fn injoin_block(cx: &mut Ctx, barriers: &[SideBarrier], max_rows: usize, o: &XOpts) {
    let _t = crate::pipe_x::BlockTimer::new("injoin_block");
    let other = Prog { shape: Shape::KV, src: vec![kv(0, 70), kv(2, 80), kv(0, 90)], steps: vec![] };
    let modes = [XMode::Seq, XMode::Par(1), XMode::Par(2), XMode::Par(3), XMode::Par(4)];
    let mut n = 0;
    for b in barriers {
        for rows in 0..=max_rows {
            let side = side_prog(*b, rows);
            for k in KINDS {
                // LEFT: the outer program's own lineage holds the barrier
                let mut l = side.clone();
                l.steps.push(Step::Join(k, Box::new(other.clone())));
                cx.count(&format!("in-join:{b:?}:left"));
                check_prog_x(cx, &l, &modes, o);
                // RIGHT
                let mut r = other.clone();
                r.steps.push(Step::Join(k, Box::new(side.clone())));
                cx.count(&format!("in-join:{b:?}:right"));
                check_prog_x(cx, &r, &modes, o);
                n += 2;
            }
        }
    }
    cx.exhaustive_blocks.push(format!("in-join block: barrier kinds {barriers:?} inside the LEFT and inside the RIGHT join side x 4 join kinds x rows 0..={max_rows} x seq + par 1..4 ({n} programs)"));
}

/* ---------------------------------------------------------------- right side of another origin */

/// cross-pipeline joins, self-joins, shared-prefix sides, a sibling second join (C07; also run by C01)
pub fn joinx_block(cx: &mut Ctx, o: &XOpts) {
    let _t = crate::pipe_x::BlockTimer::new("joinx_block");
    let lefts: Vec<Vec<V>> = vec![vec![], vec![kv(0, 1)], vec![kv(0, 1), kv(1, 2), kv(0, 3)], vec![kv(2, 5), kv(0, 1), kv(2, 6), kv(1, 7)]];
    let rights: Vec<Vec<V>> = vec![vec![], vec![kv(0, 10), kv(3, 30)], vec![kv(1, 10), kv(0, 20), kv(1, 30)]];
    let modes = [XMode::Seq, XMode::Par(1), XMode::Par(2), XMode::Par(3)];
    let mut n = 0;
    for k in KINDS {
        for l in &lefts {
            for r in &rights {
                let right = Prog { shape: Shape::KV, src: r.clone(), steps: vec![Step::MapValues(Fn_::Add(100))] };
                // right side on ANOTHER pipeline (with a barrier in front of the join on the left)
                for pre in [vec![], vec![Step::CombineValues(Comb::Sum)]] {
                    let mut steps = pre.clone();
                    steps.push(Step::JoinX(k, RightRef::Other(Box::new(right.clone()))));
                    steps.push(Step::MapValues(Fn_::Ident));
                    check_prog_x(cx, &Prog { shape: Shape::KV, src: l.clone(), steps }, &modes, o);
                    n += 1;
                }
                // a SIBLING join of the same left collection is built before and after
                let sib = Prog { shape: Shape::KV, src: vec![kv(0, -1), kv(9, -9)], steps: vec![] };
                let p = Prog { shape: Shape::KV, src: l.clone(), steps: vec![Step::MapValues(Fn_::Mul(2)), Step::JoinX(k, RightRef::Sibling(Box::new(right.clone()), Box::new(sib)))] };
                check_prog_x(cx, &p, &modes, o);
                n += 1;
            }
            // SELF-join and SHARED-PREFIX sides (the branch point is after `pre`)
            for pre in [vec![], vec![Step::MapValues(Fn_::Add(1))], vec![Step::Gbk, Step::Gsum], vec![Step::CombineValues(Comb::Count)]] {
                let shared: Vec<(Vec<Step>, Vec<Step>)> = vec![
                    (vec![], vec![]),
                    (vec![Step::MapValues(Fn_::Neg)], vec![]),
                    (vec![], vec![Step::Filter(Pred::Even), Step::MapValues(Fn_::Mul(3))]),
                    (vec![Step::CombineValues(Comb::Sum)], vec![Step::Gbk, Step::Glen]),
                    (vec![Step::Swapkv, Step::MapValues(Fn_::Modn(2)), Step::Swapkv], vec![Step::Values, Step::CombineGlobally(Comb::Sum, Some(2)), Step::Map(Fn_::Modn(3)), Step::Topair]),
                ];
                for (ls, rs) in shared {
                    let mut steps = pre.clone();
                    steps.push(Step::JoinX(k, RightRef::Shared(ls, rs)));
                    steps.push(Step::CombineValues(Comb::Count));
                    check_prog_x(cx, &Prog { shape: Shape::KV, src: l.clone(), steps }, &modes, o);
                    n += 1;
                }
            }
        }
    }
    // a join of another origin fed by / feeding a join is still "nested": an error in both modes
    for k in KINDS {
        let right = Prog { shape: Shape::KV, src: vec![kv(0, 10)], steps: vec![] };
        let j = Step::Join(k, Box::new(right.clone()));
        let src = vec![kv(0, 1), kv(1, 2)];
        for steps in [
            vec![j.clone(), Step::JoinX(k, RightRef::Other(Box::new(right.clone())))],
            vec![j.clone(), Step::JoinX(k, RightRef::Shared(vec![], vec![]))],
            vec![Step::JoinX(k, RightRef::Shared(vec![j.clone()], vec![]))],
            vec![Step::JoinX(k, RightRef::Shared(vec![], vec![j.clone(), Step::MapValues(Fn_::Fst)]))],
            vec![Step::JoinX(k, RightRef::Other(Box::new(Prog { shape: Shape::KV, src: src.clone(), steps: vec![j.clone()] })))],
        ] {
            check_prog_x(cx, &Prog { shape: Shape::KV, src: src.clone(), steps }, &[XMode::Seq, XMode::Par(2)], o);
            n += 1;
        }
    }
    cx.exhaustive_blocks.push(format!("joins whose right side is not a fresh collection: another Pipeline / self-join / shared-prefix sides (5 side pairs x 4 branch points) / sibling second join, x 4 kinds x 4 left x 3 right inputs x seq + par 1..3; plus their nested forms ({n} programs)"));
}

/* ---------------------------------------------------------------- nested joins */

/// ~72 programs: a join in the left lineage / in the right side / in both of another join, with and without a
/// barrier in between — every one must be an `Err` (never rows), in both modes
pub fn nested_join_stream(cx: &mut Ctx, o: &XOpts) {
    let _t = crate::pipe_x::BlockTimer::new("nested_join_stream");
    let a = vec![kv(0, 1), kv(1, 2), kv(0, 3)];
    let b = vec![kv(0, 10), kv(2, 20)];
    let c = vec![kv(1, 100), kv(0, 200)];
    let between: [Vec<Step>; 3] = [vec![], vec![Step::MapValues(Fn_::Fst)], vec![Step::MapValues(Fn_::Fst), Step::CombineValues(Comb::Sum)]];
    let mut n = 0;
    for (i, outer) in KINDS.iter().enumerate() {
        for (j, inner) in KINDS.iter().enumerate() {
            if (i + j) % 2 == 1 && i != j { continue; } // 8 + … kind pairs
            for bt in &between {
                let inner_join = Step::Join(*inner, Box::new(Prog { shape: Shape::KV, src: b.clone(), steps: vec![] }));
                // join in the LEFT lineage
                let mut s = vec![inner_join.clone()];
                s.extend(bt.iter().cloned());
                s.push(Step::Join(*outer, Box::new(Prog { shape: Shape::KV, src: c.clone(), steps: vec![] })));
                let left = Prog { shape: Shape::KV, src: a.clone(), steps: s };
                // join in the RIGHT side
                let mut rs = vec![inner_join.clone()];
                rs.extend(bt.iter().cloned());
                let right = Prog { shape: Shape::KV, src: a.clone(), steps: vec![Step::Join(*outer, Box::new(Prog { shape: Shape::KV, src: c.clone(), steps: rs.clone() }))] };
                // in BOTH
                let mut bs = vec![inner_join.clone()];
                bs.extend(bt.iter().cloned());
                bs.push(Step::Join(*outer, Box::new(Prog { shape: Shape::KV, src: c.clone(), steps: rs })));
                let both = Prog { shape: Shape::KV, src: a.clone(), steps: bs };
                for (which, p) in [("left", left), ("right", right), ("both", both)] {
                    debug_assert!(matches!(reference(&p), RefOut::NestedJoin));
                    cx.count(&format!("nested-join:{which}"));
                    check_prog_x(cx, &p, &[XMode::Seq, XMode::Par(1), XMode::Par(3)], o);
                    n += 1;
                }
            }
        }
    }
    cx.exhaustive_blocks.push(format!("nested joins: a join in the left lineage / in the right side / in both x join-kind pairs x {{nothing, map_values, map_values + combine_values}} in between x seq + par 1,3 — all must be rejected ({n} programs)"));
}
