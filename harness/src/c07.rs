//! C07 — joins return exactly the relational join of their two inputs.
//!
//! Four join kinds; sides with their own transform prefixes (incl. grouping and combining); downstream
//! steps; nested joins (must be rejected with an error); both modes, all partition counts.
//! Oracle (independent of the model): the nested-loop relational join over the reference results of
//! the two sides (`pipe::reference`), compared as a multiset; a join fed by a join ⇒ `Err`.

use crate::ctx::Ctx;
use crate::pipe::*;

const KINDS: [JoinKind; 4] = [JoinKind::Inner, JoinKind::Left, JoinKind::Right, JoinKind::Full];

pub fn run(cx: &mut Ctx) {
    let o = CheckOpts { par_vs_seq: true, vs_reference: true };
    // a legal `Hash` far coarser than `Eq` on the join key type
    { let n = cx.budget(80, 800); crate::pipe::coarse_hash_cases(cx, n, &o); }
    // exhaustive: all left/right inputs of <= 3 (quick 2) rows over 2 keys x 4 kinds x seq + par 1..3
    let maxlen = size_for(cx, 2, 3);
    let mut inputs: Vec<Vec<V>> = vec![vec![]];
    let mut frontier: Vec<Vec<V>> = vec![vec![]];
    for _ in 0..maxlen {
        let mut next = vec![];
        for s in &frontier {
            for k in 0..2i64 {
                let mut t = s.clone();
                t.push(V::pair(V::I(k), V::I(t.len() as i64)));
                next.push(t);
            }
        }
        inputs.extend(next.iter().cloned());
        frontier = next;
    }
    let mut n_ex = 0;
    for l in &inputs {
        for r in &inputs {
            for k in KINDS {
                let right = Prog { shape: Shape::KV, src: r.iter().map(|x| match x { V::P(a, b) => V::pair((**a).clone(), V::I(b.to_int() + 10)), o => o.clone() }).collect(), steps: vec![] };
                let p = Prog { shape: Shape::KV, src: l.clone(), steps: vec![Step::Join(k, Box::new(right))] };
                check_prog(cx, &p, &[Mode::Seq, Mode::Par(1), Mode::Par(2), Mode::Par(3)], &o);
                n_ex += 1;
            }
        }
    }
    cx.exhaustive_blocks.push(format!("all pairs of keyed inputs of length <= {maxlen} over 2 keys x 4 join kinds x seq + par 1..3 ({n_ex} programs)"));

    // every barrier kind inside the LEFT and inside the RIGHT side (exhaustive small scope), joins whose right side is
    // not a fresh collection (another Pipeline, self-join, shared-prefix sides, a sibling second join), a dense
    // stream of nested joins, and joins whose sides are split into 65..256 partitions
    {
        let xo = crate::pipe_x::XOpts::of(&o);
        crate::pipe_injoin::injoin_block(cx, &crate::pipe_injoin::all_side_barriers(), 4, &xo);
        crate::pipe_injoin::joinx_block(cx, &xo);
        crate::pipe_injoin::nested_join_stream(cx, &xo);
        crate::pipe_wide::wide_block(cx, &[crate::pipe_wide::WideKind::JoinSides, crate::pipe_wide::WideKind::JoinGbkSides], cx.budget(12, 60), &xo);
    }

    // corpus: a side whose source is EMPTY but whose chain contains a global combine (one row even on empty
    // input), keyed afterwards — on either side, every kind
    for k in KINDS {
        let g = Prog { shape: Shape::T, src: vec![], steps: vec![Step::CombineGlobally(Comb::Sum, None), Step::Topair] };
        let other = Prog { shape: Shape::KV, src: vec![V::pair(V::I(0), V::I(7)), V::pair(V::I(1), V::I(8))], steps: vec![] };
        let mut a = g.clone();
        a.steps.push(Step::Join(k, Box::new(other.clone())));
        check_prog(cx, &a, &[Mode::Seq, Mode::Par(1), Mode::Par(3)], &o);
        let mut b = other.clone();
        b.steps.push(Step::Join(k, Box::new(g.clone())));
        check_prog(cx, &b, &[Mode::Seq, Mode::Par(1), Mode::Par(3)], &o);
    }

    // the LEFT side is a streamed file source (its lineage, incl. the file source, becomes the left sub-plan)
    for k in KINDS {
        for n in [0usize, 1, 4] {
            let left: Vec<V> = (0..n as i64).map(|i| V::pair(V::I(i % 2), V::I(i))).collect();
            let right = Prog { shape: Shape::KV, src: vec![V::pair(V::I(0), V::I(7)), V::pair(V::I(2), V::I(8))], steps: vec![] };
            let p = Prog { shape: Shape::KV, src: left, steps: vec![Step::MapValues(Fn_::Add(1)), Step::Join(k, Box::new(right))] };
            for per in [0usize, 1, 3] { check_prog_file(cx, &p, per, &[Mode::Seq, Mode::Par(2)], &o); }
        }
    }

    // random: transformed sides (incl. gbk / combine prefixes), downstream steps, occasional nested joins
    let rounds = cx.budget(300, 6000);
    let mut done = 0;
    while done < rounds {
        let nested = done % 12 == 0;
        let lopts = GenOpts { max_steps: 4, max_rows: cx.budget(16, 60), barriers: done % 2 == 0, joins: nested, globals: done % 4 == 1, nonlocal_batches: false };
        let mut p = gen_prog_to(&mut cx.rng, &lopts, Shape::KV, if nested { 0 } else { 2 });
        let ropts = GenOpts { max_steps: 4, max_rows: cx.budget(16, 60), barriers: done % 3 == 0, joins: nested && cx.rng.chance(1, 2), globals: done % 4 == 3, nonlocal_batches: false };
        let right = gen_prog_to(&mut cx.rng, &ropts, Shape::KV, if nested { 0 } else { 2 });
        let kind = *cx.rng.pick(&KINDS);
        p.steps.push(Step::Join(kind, Box::new(right)));
        // downstream
        let mut sh = Shape::KV;
        for _ in 0..cx.rng.below(4) {
            let dopts = GenOpts { max_steps: 1, max_rows: 0, barriers: true, joins: false, globals: false, nonlocal_batches: false };
            let s = gen_step(&mut cx.rng, sh, &dopts, true, 2, 3);
            sh = shape_after(sh, &s).unwrap();
            p.steps.push(s);
        }
        if !reorder_inert(&p) { continue; }
        let r = reference(&p);
        if matches!(r, RefOut::Panic) { continue; }
        cx.count(if matches!(r, RefOut::NestedJoin) { "program:nested-join" } else { "program:single-join" });
        let choices = partition_choices(p.src.len());
        let modes = vec![Mode::Seq, Mode::Par(*cx.rng.pick(&choices)), Mode::Par(*cx.rng.pick(&choices))];
        check_prog(cx, &p, &modes, &o);
        done += 1;
    }
}
