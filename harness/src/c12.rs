//! C12 — not implemented yet.
use crate::ctx::Ctx;

pub fn run(cx: &mut Ctx) {
    cx.notes.push("C12: harness not implemented".to_string());
}

pub fn child(_args: &[String]) -> i32 {
    2
}
