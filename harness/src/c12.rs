//! C12 — checkpoint store: faithful round trip, integrity, bounded retention, true latest.
//!
//! Requests (all byte strings / names travel as lower-case hex of their UTF-8 bytes; `-` = empty list):
//!   CKPT-ENC  <fields>                         => `OK <hex file bytes> | <load answer>`   (real save_checkpoint + load_checkpoint)
//!   CKPT-DEC  <hex file bytes>                 => `OK <fields>` | `ERR <class>` | `PANIC` | `ABORT` | `HANG`   (real load_checkpoint, child process)
//!   CKPT-SAVE max=<none|n> pid=<hex> ts=<n> dir=<names>   => `OK <names after>`          (real save_checkpoint in a real directory)
//!   CKPT-LATEST en=<T|F> pid=<hex> dir=<names> => `SOME <name>` | `NONE`
//!   CKPT-CLEAR pid=<hex> dir=<names>           => `OK <names after>`
//!   CKPT-POLICY en= pol=<barrier|every:n|time:s|hybrid:b:s> idx= barrier= last=<none|ago:s|future:s>  => `T` | `F`
//! <fields> = `pid=<hex> idx=<n> ts=<n> pc=<n> ck=<hex> em=<hex> tn=<n> lnt=<hex> pp=<n>`
//! <names>  = comma-separated hex names sorted bytewise.
//!
//! Oracles (never go through the model): round trip field-for-field; a loaded state has the protected
//! fields and checksum of the state the file was derived from (so any alteration of them was rejected);
//! never PANIC/ABORT/HANG; after a save at most `max` own files remain, they are the newest, nothing that is
//! not a well-formed own file is touched; latest = own well-formed file of greatest stamp.
//! "own well-formed file of pid" := `checkpoint_<pid>_<digits>.bin` whose digits parse as u64.

use crate::ctx::{Ctx, Rng, guarded, hex};
use ironbeam::checkpoint::{
    CheckpointConfig, CheckpointManager, CheckpointMetadata, CheckpointPolicy, CheckpointState, compute_checksum,
};
use std::io::{BufRead, BufReader, Write};
use std::path::Path;
use std::process::{Command, Stdio};
use std::sync::mpsc;
use std::time::Duration;

/// address-space limit of the decode child (KiB): a decoder that asks for a huge buffer dies => ABORT
const CHILD_AS_LIMIT_KIB: u64 = 512 * 1024;
const CHILD_WATCHDOG_S: u64 = 30;

#[derive(Clone, Debug, PartialEq, Eq)]
pub struct St {
    pid: String,
    idx: u64,
    ts: u64,
    pc: u64,
    ck: String,
    em: String,
    tn: u64,
    lnt: String,
    pp: u8,
}

impl St {
    fn meta_string(&self) -> String {
        format!("{}:{}:{}:{}", self.pid, self.idx, self.ts, self.pc)
    }
    fn with_valid_checksum(mut self) -> Self {
        self.ck = compute_checksum(self.meta_string().as_bytes());
        self
    }
    fn to_real(&self) -> CheckpointState {
        CheckpointState {
            pipeline_id: self.pid.clone(),
            completed_node_index: self.idx as usize,
            timestamp: self.ts,
            partition_count: self.pc as usize,
            checksum: self.ck.clone(),
            exec_mode: self.em.clone(),
            metadata: CheckpointMetadata {
                total_nodes: self.tn as usize,
                last_node_type: self.lnt.clone(),
                progress_percent: self.pp,
            },
        }
    }
    fn from_real(s: &CheckpointState) -> Self {
        St {
            pid: s.pipeline_id.clone(),
            idx: s.completed_node_index as u64,
            ts: s.timestamp,
            pc: s.partition_count as u64,
            ck: s.checksum.clone(),
            em: s.exec_mode.clone(),
            tn: s.metadata.total_nodes as u64,
            lnt: s.metadata.last_node_type.clone(),
            pp: s.metadata.progress_percent,
        }
    }
    fn fields(&self) -> String {
        format!(
            "pid={} idx={} ts={} pc={} ck={} em={} tn={} lnt={} pp={}",
            hex(self.pid.as_bytes()),
            self.idx,
            self.ts,
            self.pc,
            hex(self.ck.as_bytes()),
            hex(self.em.as_bytes()),
            self.tn,
            hex(self.lnt.as_bytes()),
            self.pp
        )
    }
    fn protected(&self) -> (String, u64, u64, u64) {
        (self.pid.clone(), self.idx, self.ts, self.pc)
    }
    /// generator-side encoder (bincode standard layout) used ONLY to build hostile inputs and to know
    /// field offsets; the real bytes always come from `save_checkpoint`.
    fn gen_encode(&self) -> (Vec<u8>, Vec<usize>) {
        let mut out = vec![];
        let mut str_offsets = vec![];
        let vi = |out: &mut Vec<u8>, v: u64| gen_varint(out, v);
        let st = |out: &mut Vec<u8>, offs: &mut Vec<usize>, s: &str| {
            offs.push(out.len());
            gen_varint(out, s.len() as u64);
            out.extend_from_slice(s.as_bytes());
        };
        st(&mut out, &mut str_offsets, &self.pid);
        vi(&mut out, self.idx);
        vi(&mut out, self.ts);
        vi(&mut out, self.pc);
        st(&mut out, &mut str_offsets, &self.ck);
        st(&mut out, &mut str_offsets, &self.em);
        vi(&mut out, self.tn);
        st(&mut out, &mut str_offsets, &self.lnt);
        out.push(self.pp);
        (out, str_offsets)
    }
}

fn gen_varint(out: &mut Vec<u8>, v: u64) {
    if v <= 250 {
        out.push(v as u8);
    } else if v <= 0xffff {
        out.push(251);
        out.extend_from_slice(&(v as u16).to_le_bytes());
    } else if v <= 0xffff_ffff {
        out.push(252);
        out.extend_from_slice(&(v as u32).to_le_bytes());
    } else {
        out.push(253);
        out.extend_from_slice(&v.to_le_bytes());
    }
}
fn varint_len(first: u8) -> usize {
    match first {
        251 => 3,
        252 => 5,
        253 => 9,
        _ => 1,
    }
}

fn unhex(s: &str) -> Option<Vec<u8>> {
    if s.len() % 2 != 0 {
        return None;
    }
    (0..s.len() / 2).map(|i| u8::from_str_radix(&s[2 * i..2 * i + 2], 16).ok()).collect()
}

fn parse_fields(toks: &[&str]) -> Option<St> {
    let get = |k: &str| -> Option<&str> {
        toks.iter().find_map(|t| t.strip_prefix(k).and_then(|r| r.strip_prefix('=')))
    };
    let s = |k: &str| -> Option<String> { String::from_utf8(unhex(get(k)?)?).ok() };
    let n = |k: &str| -> Option<u64> { get(k)?.parse().ok() };
    Some(St { pid: s("pid")?, idx: n("idx")?, ts: n("ts")?, pc: n("pc")?, ck: s("ck")?, em: s("em")?, tn: n("tn")?, lnt: s("lnt")?, pp: n("pp")? as u8 })
}

/// canonical class of a `load_checkpoint` error
fn classify_load_err(e: &anyhow::Error) -> String {
    let top = e.to_string();
    if top.contains("checksum mismatch") {
        return "ERR checksum".into();
    }
    // bincode's DecodeError displays as its Debug form; find it in the cause chain
    for cause in e.chain() {
        let c = cause.to_string();
        let class = if c.starts_with("UnexpectedEnd") {
            "eof"
        } else if c.starts_with("LimitExceeded") {
            "limit"
        } else if c.starts_with("InvalidIntegerType") {
            "int-type"
        } else if c.starts_with("Utf8") {
            "utf8"
        } else if c.starts_with("OutsideUsizeRange") {
            "usize-range"
        } else {
            continue;
        };
        return format!("ERR {class}");
    }
    if top.contains("Failed to open") || top.contains("Failed to read") {
        return "ERR io".into();
    }
    format!("ERR other:{}", e.root_cause().to_string().split_whitespace().next().unwrap_or("?"))
}

fn load_answer(r: Result<anyhow::Result<CheckpointState>, String>) -> String {
    match r {
        Err(_) => "PANIC".into(),
        Ok(Err(e)) => classify_load_err(&e),
        Ok(Ok(s)) => format!("OK {}", St::from_real(&s).fields()),
    }
}

/// scratch directory on tmpfs when available (save_checkpoint fsyncs every file)
fn tmpdir() -> tempfile::TempDir {
    let shm = Path::new("/dev/shm");
    if shm.is_dir() {
        if let Ok(t) = tempfile::tempdir_in(shm) {
            return t;
        }
    }
    tempfile::tempdir().expect("tempdir")
}

fn manager(dir: &Path, max: Option<usize>, enabled: bool) -> CheckpointManager {
    CheckpointManager::new(CheckpointConfig {
        enabled,
        directory: dir.to_path_buf(),
        policy: CheckpointPolicy::AfterEveryBarrier,
        auto_recover: true,
        max_checkpoints: max,
    })
    .expect("manager")
}

/// Translator route: constants of the running code printed as Lean definitions (`Generated/Tables.lean`).
pub fn tables(out: &mut String) {
    out.push_str("/-- `ironbeam::checkpoint::MAX_CHECKPOINT_DECODE_BYTES` of the running code (bincode `with_limit`) -/\n");
    out.push_str(&format!("def ckptDecodeLimit : Nat := {}\n\n", ironbeam::checkpoint::MAX_CHECKPOINT_DECODE_BYTES));
}

// ───────────────────────────── generators ─────────────────────────────

const NUM_EDGES: &[u64] = &[
    0, 1, 2, 249, 250, 251, 252, 253, 254, 255, 256, 65534, 65535, 65536, 65537, 0xffff_fffe, 0xffff_ffff,
    0x1_0000_0000, 0x1_0000_0001, 1 << 40, (1 << 63) - 1, 1 << 63, u64::MAX - 1, u64::MAX,
];
const CHAR_EDGES: &[char] = &[
    '\0', '\u{1}', '\t', '\n', ' ', '/', ':', '_', '.', '0', '9', 'a', 'Z', '~', '\u{7f}', '\u{80}', '\u{ff}', '\u{7ff}',
    '\u{800}', '\u{d7ff}', '\u{e000}', '\u{fffd}', '\u{ffff}', '\u{10000}', '\u{1f600}', '\u{10ffff}', 'é', 'π', '中',
];

fn rand_num(rng: &mut Rng) -> u64 {
    match rng.below(4) {
        0 => *rng.pick(NUM_EDGES),
        1 => rng.below(300) as u64,
        2 => rng.next_u64() >> rng.below(64),
        _ => rng.next_u64(),
    }
}
fn rand_char(rng: &mut Rng, safe_name: bool) -> char {
    loop {
        let c = match rng.below(5) {
            0 => *rng.pick(CHAR_EDGES),
            1 | 2 => (0x20 + rng.below(0x5f) as u8) as char,
            3 => char::from_u32(rng.below(0x800) as u32).unwrap_or('x'),
            _ => char::from_u32(rng.next_u64() as u32 % 0x11_0000).unwrap_or('\u{fffd}'),
        };
        if safe_name && (c == '/' || c == '\0') {
            continue;
        }
        return c;
    }
}
/// random string of at most `max_bytes` UTF-8 bytes
fn rand_string(rng: &mut Rng, max_bytes: usize, safe_name: bool, big: bool) -> String {
    let exact: &[usize] = if big { &[0, 1, 2, 250, 251, 252, 255, 256, 4095, 4096, 65535, 65536, 70001] } else { &[0, 1, 2, 250, 251, 252, 255, 256, 4095, 4096] };
    if rng.chance(1, 3) {
        // ASCII of an exact (boundary) length
        let n = (*rng.pick(exact)).min(max_bytes);
        return (0..n).map(|_| (0x21 + rng.below(0x5e) as u8) as char).filter(|c| !(safe_name && *c == '/')).collect();
    }
    let target = match rng.below(4) {
        0 => rng.below(4),
        1 => rng.below(20),
        2 => rng.below(300),
        _ => rng.below(max_bytes + 1),
    }
    .min(max_bytes);
    let mut s = String::new();
    while s.len() < target {
        let c = rand_char(rng, safe_name);
        if s.len() + c.len_utf8() > max_bytes {
            break;
        }
        s.push(c);
    }
    s
}
fn rand_state(rng: &mut Rng, max_str: usize, pid_safe: bool, big: bool) -> St {
    let pid_max = if pid_safe { max_str.min(180) } else { max_str };
    let st = St {
        pid: rand_string(rng, pid_max, pid_safe, false),
        idx: rand_num(rng),
        ts: rand_num(rng),
        pc: rand_num(rng),
        ck: String::new(),
        em: rand_string(rng, max_str, false, big),
        tn: rand_num(rng),
        lnt: rand_string(rng, max_str, false, big),
        pp: rng.next_u64() as u8,
    };
    st.with_valid_checksum()
}

// ───────────────────────────── CKPT-ENC ─────────────────────────────

fn one_enc(cx: &mut Ctx, st: &St, nontrivial: bool) {
    let tmp = tmpdir();
    let real = st.to_real();
    let r = guarded(|| -> anyhow::Result<(std::path::PathBuf, Vec<u8>)> {
        let mut m = manager(tmp.path(), None, true);
        let p = m.save_checkpoint(&real)?;
        let bytes = std::fs::read(&p)?;
        Ok((p, bytes))
    });
    let (answer, saved) = match r {
        Err(_) => ("PANIC".to_string(), None),
        Ok(Err(_)) => ("ERR save".to_string(), None),
        Ok(Ok((p, bytes))) => {
            let m = manager(tmp.path(), None, true);
            let lr = guarded(|| m.load_checkpoint(&p));
            let la = load_answer(lr);
            (format!("OK {} | {}", hex(&bytes), la), Some((p, la)))
        }
    };
    let i = cx.case(format!("CKPT-ENC {}", st.fields()), answer.clone(), nontrivial);
    cx.count(&format!("enc:{}", answer.split(' ').next().unwrap_or("?")));
    match saved {
        None => cx.oracle_fail(i, "save-fails-on-valid-state", answer),
        Some((p, la)) => {
            let want_name = format!("checkpoint_{}_{}.bin", st.pid, st.ts);
            if p.file_name().and_then(|n| n.to_str()) != Some(want_name.as_str()) {
                cx.oracle_fail(i, "save-file-name", format!("{:?} != {want_name}", p.file_name()));
            }
            let valid = st.ck == compute_checksum(st.meta_string().as_bytes());
            if valid {
                cx.count("enc:valid-checksum");
                if la != format!("OK {}", st.fields()) {
                    cx.oracle_fail(i, "round-trip-not-field-for-field", format!("saved {} loaded {}", st.fields(), la));
                }
            } else {
                cx.count("enc:wrong-checksum");
                if !la.starts_with("ERR") {
                    cx.oracle_fail(i, "wrong-checksum-accepted", la);
                }
            }
        }
    }
}

// ───────────────────────────── CKPT-DEC (child) ─────────────────────────────

struct DecCase {
    bytes: Vec<u8>,
    /// the valid state the bytes were derived from (None = synthetic bytes)
    base: Option<St>,
    /// bytes are exactly the encoding of `base`
    pristine: bool,
    tag: &'static str,
}

/// child: `ibh child c12 dec <infile>`: one hex line per case in, `<k> <answer>` per case out.
pub fn child(args: &[String]) -> i32 {
    match args.first().map(String::as_str) {
        Some("dec") => {
            let Some(infile) = args.get(1) else { return 2 };
            let start: usize = args.get(2).and_then(|s| s.parse().ok()).unwrap_or(0);
            let Ok(text) = std::fs::read_to_string(infile) else { return 2 };
            let tmp = tmpdir();
            let m = manager(tmp.path(), None, true);
            let path = tmp.path().join("case.bin");
            let out = std::io::stdout();
            for (k, line) in text.lines().enumerate().skip(start) {
                let Some(bytes) = unhex(line.trim()) else { return 2 };
                if std::fs::write(&path, &bytes).is_err() {
                    return 2;
                }
                let a = load_answer(guarded(|| m.load_checkpoint(&path)));
                let mut o = out.lock();
                let _ = writeln!(o, "{k} {a}");
                let _ = o.flush();
            }
            0
        }
        _ => 2,
    }
}

/// Run all decode cases in watchdog children with an address-space limit. A child that dies on case k
/// yields ABORT for k (HANG if the watchdog fired) and a fresh child continues at k+1.
fn run_dec_children(cases: &[DecCase], work: &Path) -> Vec<String> {
    let infile = work.join("dec_cases.hex");
    {
        let mut f = std::io::BufWriter::new(std::fs::File::create(&infile).expect("dec infile"));
        for c in cases {
            writeln!(f, "{}", hex(&c.bytes)).unwrap();
        }
        f.flush().unwrap();
    }
    let exe = std::env::current_exe().expect("current_exe");
    let mut answers: Vec<String> = Vec::with_capacity(cases.len());
    while answers.len() < cases.len() {
        let start = answers.len();
        let mut child = Command::new("sh")
            .arg("-c")
            .arg(format!("ulimit -v {CHILD_AS_LIMIT_KIB} && exec \"$0\" child c12 dec \"$1\" \"$2\""))
            .arg(&exe)
            .arg(&infile)
            .arg(start.to_string())
            .stdout(Stdio::piped())
            .stderr(Stdio::null())
            .spawn()
            .expect("spawn child");
        let stdout = child.stdout.take().unwrap();
        let (tx, rx) = mpsc::channel::<String>();
        let reader = std::thread::spawn(move || {
            for line in BufReader::new(stdout).lines().map_while(Result::ok) {
                if tx.send(line).is_err() {
                    break;
                }
            }
        });
        let mut hung = false;
        loop {
            match rx.recv_timeout(Duration::from_secs(CHILD_WATCHDOG_S)) {
                Ok(line) => {
                    let (k, a) = line.split_once(' ').unwrap_or((&line, ""));
                    if k.parse::<usize>().ok() == Some(answers.len()) {
                        answers.push(a.to_string());
                    }
                }
                Err(mpsc::RecvTimeoutError::Timeout) => {
                    hung = true;
                    let _ = child.kill();
                    break;
                }
                Err(mpsc::RecvTimeoutError::Disconnected) => break,
            }
        }
        let status = child.wait().ok();
        let _ = reader.join();
        if status.and_then(|s| s.code()) == Some(2) {
            panic!("ibh child c12 dec: set-up failure (exit 2) at case {}", answers.len());
        }
        if answers.len() < cases.len() {
            // the child stopped before finishing: the case it was working on killed it
            answers.push(if hung { "HANG".into() } else { "ABORT".into() });
        }
    }
    let _ = std::fs::remove_file(&infile);
    answers
}

fn dec_oracle(cx: &mut Ctx, i: usize, c: &DecCase, ans: &str) {
    if ans == "PANIC" || ans == "ABORT" || ans == "HANG" {
        let sig = match ans {
            "PANIC" => "load-panics-on-malformed-bytes",
            "ABORT" => "load-aborts-on-malformed-bytes(huge allocation)",
            _ => "load-hangs-on-malformed-bytes",
        };
        cx.oracle_fail(i, sig, format!("{} on {} bytes ({})", ans, c.bytes.len(), c.tag));
        return;
    }
    if let Some(rest) = ans.strip_prefix("OK ") {
        let toks: Vec<&str> = rest.split(' ').collect();
        let Some(got) = parse_fields(&toks) else {
            cx.oracle_fail(i, "unparsable-real-answer", ans.to_string());
            return;
        };
        // whatever is accepted carries a checksum that matches its own protected fields
        if got.ck != compute_checksum(got.meta_string().as_bytes()) {
            cx.oracle_fail(i, "accepted-state-with-wrong-checksum", ans.to_string());
        }
        if let Some(b) = &c.base {
            if got.protected() != b.protected() || got.ck != b.ck {
                cx.oracle_fail(i, "altered-protected-field-or-checksum-accepted", format!("base {} loaded {}", b.fields(), got.fields()));
            }
            if c.pristine && &got != b {
                cx.oracle_fail(i, "round-trip-not-field-for-field", format!("base {} loaded {}", b.fields(), got.fields()));
            }
        }
    } else if c.pristine {
        cx.oracle_fail(i, "pristine-file-rejected", ans.to_string());
    }
}

fn short_base_a() -> St {
    St { pid: "p".into(), idx: 3, ts: 7, pc: 2, ck: String::new(), em: "seq".into(), tn: 9, lnt: "S".into(), pp: 50 }.with_valid_checksum()
}
fn short_base_b() -> St {
    // multi-byte varints of every width and every UTF-8 sequence length
    St { pid: "é_中".into(), idx: 300, ts: 1 << 40, pc: 70000, ck: String::new(), em: "\u{1f600}\u{7f}".into(), tn: 251, lnt: "\u{7ff}\u{ffff}".into(), pp: 255 }
        .with_valid_checksum()
}

fn hostile_lengths() -> Vec<u64> {
    vec![
        1 << 63, u64::MAX, (1 << 63) - 1, 1 << 62, 1 << 48, 1 << 40, 1 << 34, 1 << 32, 3 << 30, 1 << 30, // far beyond the child's address-space limit
        (1 << 20) + 1, 1 << 20, (1 << 20) - 64, 70000, 65536, 300, 251,
    ]
}

fn gen_dec_cases(cx: &mut Ctx) -> Vec<DecCase> {
    let mut v: Vec<DecCase> = vec![];
    let base_a = short_base_a();
    let base_b = short_base_b();
    // (1) corpus / design witnesses
    {
        // DESIGN §8 #8: first length prefix = 2^63
        let mut b = vec![];
        gen_varint(&mut b, 1 << 63);
        v.push(DecCase { bytes: b, base: None, pristine: false, tag: "corpus:len=2^63" });
        let (enc, offs) = base_a.gen_encode();
        for (si, &off) in offs.iter().enumerate() {
            for &l in &hostile_lengths() {
                let mut b = enc[..off].to_vec();
                gen_varint(&mut b, l);
                b.extend_from_slice(&enc[off + varint_len(enc[off])..]);
                let _ = si;
                v.push(DecCase { bytes: b, base: Some(base_a.clone()), pristine: false, tag: "corpus:hostile-length" });
            }
        }
        v.push(DecCase { bytes: vec![], base: None, pristine: false, tag: "corpus:empty" });
        for m in 251..=255u8 {
            v.push(DecCase { bytes: vec![m], base: None, pristine: false, tag: "corpus:lonely-marker" });
            v.push(DecCase { bytes: vec![1, b'p', m], base: None, pristine: false, tag: "corpus:lonely-marker" });
            v.push(DecCase { bytes: vec![1, b'p', m, 0, 0, 0, 0, 0, 0, 0, 0, 0, 0, 0, 0, 0], base: None, pristine: false, tag: "corpus:marker-in-u64" });
        }
    }
    // (2) exhaustive single-fault block over two short states
    let mut n_exh = 0usize;
    for base in [&base_a, &base_b] {
        let (enc, _) = base.gen_encode();
        v.push(DecCase { bytes: enc.clone(), base: Some(base.clone()), pristine: true, tag: "exh:pristine" });
        for i in 0..enc.len() {
            for bit in 0..8 {
                let mut b = enc.clone();
                b[i] ^= 1 << bit;
                v.push(DecCase { bytes: b, base: Some(base.clone()), pristine: false, tag: "exh:bitflip" });
                n_exh += 1;
            }
            for val in [0u8, 1, 0x7f, 0x80, 0xbf, 0xc0, 0xc1, 0xc2, 0xe0, 0xed, 0xf0, 0xf4, 0xf5, 250, 251, 252, 253, 254, 255] {
                if enc[i] != val {
                    let mut b = enc.clone();
                    b[i] = val;
                    v.push(DecCase { bytes: b, base: Some(base.clone()), pristine: false, tag: "exh:overwrite" });
                    n_exh += 1;
                }
            }
            v.push(DecCase { bytes: enc[..i].to_vec(), base: Some(base.clone()), pristine: false, tag: "exh:truncate" });
            n_exh += 1;
        }
    }
    cx.exhaustive_blocks.push(format!(
        "CKPT-DEC: every single-bit flip, every truncation and 19 overwrite values at every byte of two short encoded states (all varint widths, 1-4 byte UTF-8) = {n_exh} files"
    ));
    // (3) random block
    let rounds = cx.budget(6000, 150000);
    for _ in 0..rounds {
        let big = cx.tier != crate::ctx::Tier::Quick && cx.rng.chance(1, 200);
        let max_str = match cx.rng.below(10) {
            0 => 4096,
            1 | 2 => 300,
            _ => 24,
        };
        let st = rand_state(&mut cx.rng, max_str, false, big);
        let (enc, offs) = st.gen_encode();
        let kind = cx.rng.below(13);
        let (bytes, pristine, tag): (Vec<u8>, bool, &'static str) = match kind {
            0 => (enc.clone(), true, "rnd:pristine"),
            1 | 2 => {
                let mut b = enc.clone();
                let flips = 1 + cx.rng.below(3);
                for _ in 0..flips {
                    let i = cx.rng.below(b.len());
                    b[i] ^= 1 << cx.rng.below(8);
                }
                (b, false, "rnd:bitflips")
            }
            3 => {
                let mut b = enc.clone();
                let i = cx.rng.below(b.len());
                b[i] = cx.rng.next_u64() as u8;
                (b, false, "rnd:overwrite")
            }
            4 => (enc[..cx.rng.below(enc.len() + 1)].to_vec(), false, "rnd:truncate"),
            5 => {
                let mut b = enc.clone();
                let i = cx.rng.below(b.len() + 1);
                b.insert(i, cx.rng.next_u64() as u8);
                (b, false, "rnd:insert")
            }
            6 => {
                let mut b = enc.clone();
                let i = cx.rng.below(b.len());
                b.remove(i);
                (b, false, "rnd:delete")
            }
            7 => {
                let mut b = enc.clone();
                let n = 1 + cx.rng.below(16);
                for _ in 0..n {
                    b.push(cx.rng.next_u64() as u8);
                }
                (b, false, "rnd:trailing-garbage")
            }
            8 => {
                // hostile / random length prefix at a string position
                let off = offs[cx.rng.below(offs.len())];
                let l = if cx.rng.chance(1, 2) { *cx.rng.pick(&hostile_lengths()) } else { rand_num(&mut cx.rng) };
                let mut b = enc[..off].to_vec();
                gen_varint(&mut b, l);
                b.extend_from_slice(&enc[off + varint_len(enc[off])..]);
                (b, false, "rnd:length-prefix")
            }
            9 => {
                // non-canonical (wider) varint for the same value: fields unchanged, must still load
                let off = offs[cx.rng.below(offs.len())];
                let l = match enc[off] {
                    x @ 0..=250 => x as u64,
                    _ => u64::MAX,
                };
                if l == u64::MAX {
                    (enc.clone(), true, "rnd:pristine")
                } else {
                    let mut b = enc[..off].to_vec();
                    match cx.rng.below(3) {
                        0 => {
                            b.push(251);
                            b.extend_from_slice(&(l as u16).to_le_bytes());
                        }
                        1 => {
                            b.push(252);
                            b.extend_from_slice(&(l as u32).to_le_bytes());
                        }
                        _ => {
                            b.push(253);
                            b.extend_from_slice(&l.to_le_bytes());
                        }
                    }
                    b.extend_from_slice(&enc[off + 1..]);
                    (b, true, "rnd:noncanonical-varint")
                }
            }
            10 => {
                // re-encode with one protected field changed but the old checksum kept
                let mut t = st.clone();
                match cx.rng.below(4) {
                    0 => t.pid.push('x'),
                    1 => t.idx = t.idx.wrapping_add(1 + cx.rng.below(3) as u64),
                    2 => t.ts = t.ts.wrapping_sub(1),
                    _ => t.pc ^= 1 << cx.rng.below(64),
                }
                (t.gen_encode().0, false, "rnd:protected-field-rewritten")
            }
            11 => {
                // re-encode with the checksum replaced (empty / truncated / upper-cased / of another state / one char changed)
                let mut t = st.clone();
                match cx.rng.below(5) {
                    0 => t.ck.clear(),
                    1 => {
                        t.ck.pop();
                    }
                    2 => t.ck = t.ck.to_uppercase(),
                    3 => t.ck = compute_checksum(format!("{}:{}:{}:{}", t.pid, t.idx, t.ts, t.pc.wrapping_add(1)).as_bytes()),
                    _ => {
                        let i = cx.rng.below(t.ck.len().max(1));
                        let mut b = t.ck.clone().into_bytes();
                        if !b.is_empty() {
                            b[i] = if b[i] == b'0' { b'1' } else { b'0' };
                        }
                        t.ck = String::from_utf8(b).unwrap_or_default();
                    }
                }
                (t.gen_encode().0, false, "rnd:checksum-rewritten")
            }
            _ => {
                let n = cx.rng.below(64);
                ((0..n).map(|_| cx.rng.next_u64() as u8).collect(), false, "rnd:random-bytes")
            }
        };
        let base = if tag == "rnd:random-bytes" { None } else { Some(st) };
        v.push(DecCase { bytes, base, pristine, tag });
    }
    v
}

fn run_dec(cx: &mut Ctx) {
    let cases = gen_dec_cases(cx);
    let work = std::env::temp_dir().join(format!("ibh-c12-{}-{}", std::process::id(), cx.seed));
    let _ = std::fs::create_dir_all(&work);
    let answers = run_dec_children(&cases, &work);
    let _ = std::fs::remove_dir_all(&work);
    for (c, a) in cases.iter().zip(answers.iter()) {
        let nt = !c.bytes.is_empty();
        let i = cx.case(format!("CKPT-DEC {}", if c.bytes.is_empty() { "-".to_string() } else { hex(&c.bytes) }), a.clone(), nt);
        cx.count(&format!("dec:in:{}", c.tag));
        let class: String = a.split(' ').take(if a.starts_with("ERR") { 2 } else { 1 }).collect::<Vec<_>>().join(" ");
        cx.count(&format!("dec:out:{class}"));
        dec_oracle(cx, i, c, a);
    }
}

// ───────────────────────────── histories ─────────────────────────────

fn listing(dir: &Path) -> Vec<String> {
    let mut v: Vec<String> = std::fs::read_dir(dir)
        .map(|rd| rd.filter_map(Result::ok).filter_map(|e| e.file_name().to_str().map(str::to_string)).collect())
        .unwrap_or_default();
    v.sort_by(|a, b| a.as_bytes().cmp(b.as_bytes()));
    v
}
fn enc_names(v: &[String]) -> String {
    if v.is_empty() { "-".into() } else { v.iter().map(|n| hex(n.as_bytes())).collect::<Vec<_>>().join(",") }
}
/// the oracle's definition of "a well-formed checkpoint file of pipeline `pid`" and its stamp
fn own_stamp(pid: &str, name: &str) -> Option<u64> {
    let rest = name.strip_prefix("checkpoint_")?.strip_prefix(pid)?.strip_prefix('_')?.strip_suffix(".bin")?;
    if rest.is_empty() || !rest.bytes().all(|b| b.is_ascii_digit()) {
        return None;
    }
    rest.parse::<u64>().ok()
}
fn own_files(pid: &str, names: &[String]) -> Vec<(u64, String)> {
    names.iter().filter_map(|n| own_stamp(pid, n).map(|t| (t, n.clone()))).collect()
}
fn has_tie(own: &[(u64, String)]) -> bool {
    let mut ts: Vec<u64> = own.iter().map(|x| x.0).collect();
    ts.sort_unstable();
    ts.windows(2).any(|w| w[0] == w[1])
}

const HIST_PIDS: &[&str] = &["p", "p_x", "p_7", "q", "", "p.bin", "a.b", "π", "p_x_y", "7"];
/// look-alike / foreign names relative to a pipeline id: none of them is a well-formed checkpoint of `pid`
/// (some are well-formed checkpoints of ANOTHER pipeline, e.g. `<pid>_x`)
fn foreign_for(pid: &str) -> Vec<String> {
    let mut v: Vec<String> = [
        "garbage", "5.BIN", "+5", "-1", "", "5.bin.tmp", "99999999999999999999", "18446744073709551616", "5_6", "x_50", "7_50",
        "5.Bin", "1e3", " 4", "4 ", "٣", "0x10", "5.bin", "+", "+0", "5.", ".5",
    ]
    .iter()
    .map(|m| {
        if m.ends_with(".BIN") || m.ends_with(".Bin") || m.ends_with(".tmp") {
            format!("checkpoint_{pid}_{m}")
        } else {
            format!("checkpoint_{pid}_{m}.bin")
        }
    })
    .collect();
    v.push(format!("checkpoint_{pid}_5"));
    v.push(format!("checkpoint_{pid}_5bin"));
    v.push(format!("checkpoint_{pid}"));
    v.push(format!("checkpoint_{pid}5.bin"));
    v.push(format!("xcheckpoint_{pid}_9.bin"));
    v.push(format!("Checkpoint_{pid}_9.bin"));
    v.push(format!("checkpoint_{pid}_9.bin "));
    v.push(format!("checkpoint_{pid}x_9.bin"));
    v.push("notes.txt".into());
    v.push(".bin".into());
    v.retain(|n| own_stamp(pid, n).is_none());
    v
}

fn hist_state(pid: &str, ts: u64) -> CheckpointState {
    St { pid: pid.into(), idx: 1, ts, pc: 1, ck: String::new(), em: "sequential".into(), tn: 3, lnt: "Stateless".into(), pp: 33 }
        .with_valid_checksum()
        .to_real()
}
fn max_str(m: Option<usize>) -> String {
    m.map_or("none".into(), |x| x.to_string())
}

fn op_save(cx: &mut Ctx, dir: &Path, pid: &str, ts: u64, max: Option<usize>) {
    let before = listing(dir);
    let new_name = format!("checkpoint_{pid}_{ts}.bin");
    let mut own_all = own_files(pid, &before);
    if !before.contains(&new_name) {
        own_all.push((ts, new_name.clone()));
    }
    if has_tie(&own_all) {
        cx.count("hist:skipped(tie between two spellings of one stamp)");
        return;
    }
    let state = hist_state(pid, ts);
    let r = guarded(|| {
        let mut m = manager(dir, max, true);
        m.save_checkpoint(&state).map(|_| ())
    });
    let after = listing(dir);
    let answer = match &r {
        Err(_) => "PANIC".to_string(),
        Ok(Err(_)) => "ERR save".to_string(),
        Ok(Ok(())) => format!("OK {}", enc_names(&after)),
    };
    let i = cx.case(
        format!("CKPT-SAVE max={} pid={} ts={} dir={}", max_str(max), hex(pid.as_bytes()), ts, enc_names(&before)),
        answer.clone(),
        before.len() >= 2,
    );
    cx.count(&format!("hist:save:max={}", max_str(max)));
    if !matches!(r, Ok(Ok(()))) {
        cx.oracle_fail(i, "save-fails-or-panics", answer);
        return;
    }
    // oracle: foreign / other pipelines' files untouched
    let foreign_before: Vec<&String> = before.iter().filter(|n| own_stamp(pid, n).is_none() && **n != new_name).collect();
    for n in &foreign_before {
        if !after.contains(n) {
            cx.oracle_fail(i, "save-deletes-file-of-other-pipeline-or-foreign-file", format!("saving pid {pid:?} ts {ts} max {max:?} removed {n:?}"));
        }
    }
    for n in &after {
        if !before.contains(n) && *n != new_name {
            cx.oracle_fail(i, "save-creates-unexpected-file", n.clone());
        }
    }
    // oracle: bounded retention, newest kept
    let kept = own_files(pid, &after);
    let dropped: Vec<&(u64, String)> = own_all.iter().filter(|x| !after.contains(&x.1)).collect();
    match max {
        None => {
            if !dropped.is_empty() {
                cx.oracle_fail(i, "unbounded-retention-deletes", format!("{dropped:?}"));
            }
        }
        Some(m) => {
            if kept.len() > m {
                cx.oracle_fail(i, "more-than-max-own-checkpoints-remain", format!("max {m}, own files left {kept:?}"));
            }
            if kept.len() < m.min(own_all.len()) {
                cx.oracle_fail(i, "fewer-than-max-own-checkpoints-remain", format!("max {m}, own before+new {own_all:?}, left {kept:?}"));
            }
            if let (Some(dmax), Some(kmin)) = (dropped.iter().map(|x| x.0).max(), kept.iter().map(|x| x.0).min()) {
                if dmax > kmin {
                    cx.oracle_fail(i, "kept-checkpoints-are-not-the-newest", format!("dropped stamp {dmax} > kept stamp {kmin}"));
                }
            }
        }
    }
    if !dropped.is_empty() {
        cx.count("hist:save:deleted-some");
    }
}

fn op_latest(cx: &mut Ctx, dir: &Path, pid: &str, enabled: bool) {
    let names = listing(dir);
    let own = own_files(pid, &names);
    if has_tie(&own) {
        cx.count("hist:skipped(tie between two spellings of one stamp)");
        return;
    }
    let r = guarded(|| manager(dir, Some(3), enabled).find_latest_checkpoint(pid));
    let got: Option<Option<String>> = match &r {
        Ok(Ok(p)) => Some(p.as_ref().and_then(|p| p.file_name()).and_then(|n| n.to_str()).map(str::to_string)),
        _ => None,
    };
    let answer = match (&r, &got) {
        (Err(_), _) => "PANIC".to_string(),
        (Ok(Err(_)), _) => "ERR latest".to_string(),
        (_, Some(Some(n))) => format!("SOME {}", hex(n.as_bytes())),
        _ => "NONE".to_string(),
    };
    let i = cx.case(
        format!("CKPT-LATEST en={} pid={} dir={}", if enabled { "T" } else { "F" }, hex(pid.as_bytes()), enc_names(&names)),
        answer.clone(),
        names.len() >= 2,
    );
    cx.count(&format!("hist:latest:{}", answer.split(' ').next().unwrap_or("?")));
    let want: Option<String> = if enabled { own.iter().max_by_key(|x| x.0).map(|x| x.1.clone()) } else { None };
    match got {
        None => cx.oracle_fail(i, "latest-fails-or-panics", answer),
        Some(g) => {
            if g != want {
                let sig = match (&g, &want) {
                    (Some(n), _) if own_stamp(pid, n).is_none() => "latest-returns-foreign-or-other-pipelines-file",
                    (Some(_), Some(_)) => "latest-is-not-greatest-timestamp",
                    (None, Some(_)) => "latest-misses-existing-checkpoint",
                    _ => "latest-wrong",
                };
                cx.oracle_fail(i, sig, format!("latest({pid:?}) = {g:?}, expected {want:?} in {names:?}"));
            }
        }
    }
}

fn op_clear(cx: &mut Ctx, dir: &Path, pid: &str) {
    let before = listing(dir);
    let r = guarded(|| manager(dir, Some(3), true).clear_checkpoints(pid));
    let after = listing(dir);
    let answer = match &r {
        Err(_) => "PANIC".to_string(),
        Ok(Err(_)) => "ERR clear".to_string(),
        Ok(Ok(())) => format!("OK {}", enc_names(&after)),
    };
    let i = cx.case(format!("CKPT-CLEAR pid={} dir={}", hex(pid.as_bytes()), enc_names(&before)), answer.clone(), before.len() >= 2);
    cx.count("hist:clear");
    if !matches!(r, Ok(Ok(()))) {
        cx.oracle_fail(i, "clear-fails-or-panics", answer);
        return;
    }
    for n in &before {
        let own = own_stamp(pid, n).is_some();
        if own && after.contains(n) {
            cx.oracle_fail(i, "clear-leaves-own-checkpoint", n.clone());
        }
        if !own && !after.contains(n) {
            cx.oracle_fail(i, "clear-deletes-file-of-other-pipeline-or-foreign-file", format!("clear({pid:?}) removed {n:?}"));
        }
    }
}

fn place(dir: &Path, name: &str) {
    let _ = std::fs::write(dir.join(name), b"foreign");
}

fn rand_ts(rng: &mut Rng) -> u64 {
    match rng.below(8) {
        0 => *rng.pick(&[0u64, 1, 9, 10, 99, 100, u64::MAX, u64::MAX - 1, 1 << 63]),
        1 => rng.next_u64(),
        _ => rng.below(40) as u64,
    }
}

fn run_hist(cx: &mut Ctx) {
    // (1) design witnesses (DESIGN §8 #9)
    {
        let tmp = tmpdir();
        place(tmp.path(), "checkpoint_p_x_50.bin");
        for ts in [60u64, 70, 80] {
            op_save(cx, tmp.path(), "p", ts, Some(2));
        }
        let tmp2 = tmpdir();
        place(tmp2.path(), "checkpoint_q_garbage.bin");
        op_latest(cx, tmp2.path(), "q", true);
        op_save(cx, tmp2.path(), "q", 5, Some(1));
        op_latest(cx, tmp2.path(), "q", true);
        op_clear(cx, tmp2.path(), "q");
        // out-of-order stamps, one pipeline
        let tmp3 = tmpdir();
        for ts in [50u64, 10, 40, 20, 30, 9, 100] {
            op_save(cx, tmp3.path(), "p", ts, Some(3));
            op_latest(cx, tmp3.path(), "p", true);
        }
        op_latest(cx, tmp3.path(), "p", false);
    }
    // (1b) every look-alike name, alone and all together, for several pipeline ids
    let mut n_look = 0usize;
    for pid in ["p", "p_x", "", "a.b", "7"] {
        let look = foreign_for(pid);
        for f in &look {
            let tmp = tmpdir();
            place(tmp.path(), f);
            op_latest(cx, tmp.path(), pid, true);
            op_save(cx, tmp.path(), pid, 1, Some(0));
            op_save(cx, tmp.path(), pid, 7, Some(1));
            op_latest(cx, tmp.path(), pid, true);
            op_clear(cx, tmp.path(), pid);
            n_look += 1;
        }
        let tmp = tmpdir();
        for f in &look {
            place(tmp.path(), f);
        }
        for (ts, max) in [(5u64, Some(2usize)), (3, Some(2)), (9, Some(2)), (4, Some(1)), (2, Some(0)), (6, None)] {
            op_save(cx, tmp.path(), pid, ts, max);
            op_latest(cx, tmp.path(), pid, true);
        }
        op_clear(cx, tmp.path(), pid);
    }
    cx.exhaustive_blocks.push(format!(
        "CKPT-HIST: each of the look-alike file names (non-numeric / signed / overflowing / upper-case / nested stamps, other pipelines extending the id, ...) alone in a directory x 5 pipeline ids: latest, save max=0, save max=1, latest, clear ({n_look} directories), plus all of them together under a 6-save history"
    ));
    // (2) exhaustive small scope: all save histories of length <= L over 2 pids x 3 stamps, every max in {None,0,1,2}
    let len = if cx.tier == crate::ctx::Tier::Quick { 4 } else { 5 };
    let alphabet: Vec<(&str, u64)> = vec![("p", 1), ("p", 2), ("p", 10), ("p_x", 1), ("p_x", 2), ("p_x", 10)];
    let mut count = 0usize;
    for max in [None, Some(0usize), Some(1), Some(2)] {
        let mut idx = vec![0usize; len];
        'outer: loop {
            for l in 1..=len {
                // histories are prefixes; run only full-length ones plus shorter ones once (when tail is all zero)
                if l < len && idx[l..].iter().any(|&x| x != 0) {
                    continue;
                }
                let tmp = tmpdir();
                place(tmp.path(), "checkpoint_p_zz.bin");
                for &k in &idx[..l] {
                    let (pid, ts) = alphabet[k];
                    op_save(cx, tmp.path(), pid, ts, max);
                }
                op_latest(cx, tmp.path(), "p", true);
                op_latest(cx, tmp.path(), "p_x", true);
                count += 1;
            }
            let mut j = 0;
            loop {
                if j == len {
                    break 'outer;
                }
                idx[j] += 1;
                if idx[j] < alphabet.len() {
                    break;
                }
                idx[j] = 0;
                j += 1;
            }
        }
    }
    cx.exhaustive_blocks.push(format!(
        "CKPT-HIST: all save histories of length <= {len} over pipelines {{p, p_x}} x stamps {{1,2,10}} with a foreign file present, max in {{None,0,1,2}}, latest of both pipelines after each ({count} histories)"
    ));
    // (3) random histories
    let rounds = cx.budget(1000, 20000);
    for _ in 0..rounds {
        let tmp = tmpdir();
        let dir = tmp.path();
        let npids = 1 + cx.rng.below(3);
        let pids: Vec<&str> = (0..npids).map(|_| *cx.rng.pick(HIST_PIDS)).collect();
        let mut max = *cx.rng.pick(&[None, Some(0usize), Some(1), Some(2), Some(3), Some(5)]);
        for _ in 0..cx.rng.below(4) {
            let look = foreign_for(*cx.rng.pick(&pids));
            let f: String = cx.rng.pick(&look[..]).clone();
            place(dir, &f);
            cx.count("hist:place-foreign");
        }
        let ops = 1 + cx.rng.below(12);
        for _ in 0..ops {
            let pid = *cx.rng.pick(&pids);
            match cx.rng.below(12) {
                0..=5 => {
                    let ts = rand_ts(&mut cx.rng);
                    op_save(cx, dir, pid, ts, max);
                }
                6 | 7 => {
                    let en = !cx.rng.chance(1, 8);
                    op_latest(cx, dir, pid, en);
                }
                8 => op_clear(cx, dir, pid),
                9 => {
                    let look = foreign_for(pid);
                    let f: String = cx.rng.pick(&look[..]).clone();
            place(dir, &f);
                    cx.count("hist:place-foreign");
                }
                10 => {
                    // a well-formed file of a (possibly different) pipeline placed by hand, sometimes with leading zeros
                    let other = *cx.rng.pick(HIST_PIDS);
                    let ts = rand_ts(&mut cx.rng);
                    let name = if cx.rng.chance(1, 4) { format!("checkpoint_{other}_0{ts}.bin") } else { format!("checkpoint_{other}_{ts}.bin") };
                    place(dir, &name);
                    cx.count("hist:place-wellformed");
                }
                _ => {
                    max = *cx.rng.pick(&[None, Some(0usize), Some(1), Some(2), Some(3), Some(5)]);
                    cx.count("hist:change-max");
                }
            }
        }
    }
}

// ───────────────────────────── should_checkpoint (clock-free policies) ─────────────────────────────

fn run_policy(cx: &mut Ctx) {
    use std::time::{Duration, SystemTime};
    let ns: Vec<usize> = vec![0, 1, 2, 3, 5];
    let mut pols: Vec<(String, CheckpointPolicy)> = vec![("barrier".into(), CheckpointPolicy::AfterEveryBarrier)];
    for &n in &ns {
        pols.push((format!("every:{n}"), CheckpointPolicy::EveryNNodes(n)));
    }
    for secs in [0u64, 5, 10, 100] {
        pols.push((format!("time:{secs}"), CheckpointPolicy::TimeInterval(secs)));
        pols.push((format!("hybrid:T:{secs}"), CheckpointPolicy::Hybrid { barriers: true, interval_secs: secs }));
        pols.push((format!("hybrid:F:{secs}"), CheckpointPolicy::Hybrid { barriers: false, interval_secs: secs }));
    }
    // the last checkpoint time relative to "now": never / 10 s ago / 100 s in the future (clock went backwards).
    // Margins are seconds wide, the call takes microseconds, so the answers do not depend on timing.
    let lasts: Vec<&str> = vec!["none", "ago:10", "future:100"];
    for enabled in [true, false] {
        for barrier in [true, false] {
            for idx in 0..8usize {
                for (name, pol) in &pols {
                    let clocked = name.starts_with("time") || name.starts_with("hybrid");
                    for last in &lasts {
                        if !clocked && *last != "none" {
                            continue;
                        }
                        if clocked && idx > 1 {
                            continue;
                        }
                        let r = guarded(|| {
                            let mut m = CheckpointManager::new(CheckpointConfig {
                                enabled,
                                directory: std::env::temp_dir(),
                                policy: *pol,
                                auto_recover: false,
                                max_checkpoints: None,
                            })
                            .expect("manager");
                            m.last_checkpoint_time = match *last {
                                "ago:10" => Some(SystemTime::now() - Duration::from_secs(10)),
                                "future:100" => Some(SystemTime::now() + Duration::from_secs(100)),
                                _ => None,
                            };
                            m.should_checkpoint(idx, barrier, 10)
                        });
                        let a = match r {
                            Ok(true) => "T",
                            Ok(false) => "F",
                            Err(_) => "PANIC",
                        };
                        let i = cx.case(
                            format!(
                                "CKPT-POLICY en={} pol={} idx={} barrier={} last={}",
                                if enabled { "T" } else { "F" },
                                name,
                                idx,
                                if barrier { "T" } else { "F" },
                                last
                            ),
                            a.into(),
                            false,
                        );
                        cx.count("policy");
                        if a == "PANIC" {
                            cx.oracle_fail(i, "should-checkpoint-panics", name.clone());
                        }
                    }
                }
            }
        }
    }
}

pub fn run(cx: &mut Ctx) {
    // CKPT-ENC: corpus, then random states
    one_enc(cx, &short_base_a(), true);
    one_enc(cx, &short_base_b(), true);
    {
        let mut wrong = short_base_a();
        wrong.ck = "00".repeat(32);
        one_enc(cx, &wrong, true);
        for &n in NUM_EDGES {
            let s = St { idx: n, ts: n, pc: n, tn: n, ..short_base_a() }.with_valid_checksum();
            one_enc(cx, &s, true);
        }
    }
    let rounds = cx.budget(600, 8000);
    for k in 0..rounds {
        let big = cx.tier != crate::ctx::Tier::Quick && k % 100 == 0;
        let max_str = if cx.rng.chance(1, 6) { 4096 } else { 64 };
        let mut st = rand_state(&mut cx.rng, max_str, true, big);
        if cx.rng.chance(1, 10) {
            st.ck = rand_string(&mut cx.rng, 80, false, false);
        }
        one_enc(cx, &st, true);
    }
    run_dec(cx);
    run_hist(cx);
    run_policy(cx);
}
