//! C12 — checkpoint store: faithful round trip, integrity, bounded retention, true latest.
//!
//! Requests (all byte strings / names travel as lower-case hex of their UTF-8 bytes; `-` = empty list):
//!   CKPT-ENC  nmax=<n> <fields>                => `OK <hex file bytes> | <load answer>` | `ERR save`   (real save_checkpoint + load_checkpoint)
//!   CKPT-DEC  <hex file bytes>                 => `OK <fields>` | `ERR <class>` | `PANIC` | `ABORT` | `HANG`   (real load_checkpoint, child process)
//!   CKPT-DECBIG head=<hex|-> fill=<byte> total=<n> => the same for a (sparse) file of `total` bytes: `head`, then the fill byte
//!   CKPT-SAVE max=<none|n> c=<T|F> en=<T|F> nmax=<n> dir=<entries|!missing|!notdir> <fields>   => `OK <entries after>` | `ERR save`
//!             (real save_checkpoint in a real directory; entries = `<name>` or, with c=T, `<name>:<hex content>`: the model's
//!             file system then holds the real bytes and the bytes of every file left after the clean-up are compared;
//!             `en` = the manager's `enabled` flag, `nmax` = NAME_MAX of the scratch file system as measured at start-up;
//!             `!missing` / `!notdir`: the configured directory does not exist / is a regular file)
//!   CKPT-SAVE-TIE max= nmax= pid=<hex> ts=<n> dir=<names>    => `OK own=<#own files left> other=<names of the rest>`
//!             (two spellings of one stamp, `7`/`07`, present: the survivor depends on read_dir order, so the save is
//!             executed and judged by the oracle and the model is compared on the order-independent facts)
//!   CKPT-SLL  max=<none|n> nmax= dir=<entries with content> <fields> => `OK latest=none` | `OK latest=<name> | <load answer>`
//!             (real save_checkpoint ; find_latest_checkpoint ; load_checkpoint of the returned path)
//!   CKPT-LATEST en=<T|F> pid=<hex> dir=<names|!missing|!notdir> => `SOME <name>` | `NONE` | `ERR latest`
//!   CKPT-LATEST-TIE en= pid= dir=<names>       => `STAMP <t>` | `NONE`
//!   CKPT-CLEAR pid=<hex> dir=<names|!missing|!notdir>  => `OK <names after>` | `ERR clear`
//!   CKPT-POLICY en= pol=<barrier|every:n|time:s|hybrid:b:s> idx= barrier= last=<none|ago:s|future:s>  => `T` | `F`
//! <fields> = `pid=<hex> idx=<n> ts=<n> pc=<n> ck=<hex> em=<hex> tn=<n> lnt=<hex> pp=<n>`
//! <names>  = comma-separated hex names sorted bytewise: the REGULAR FILES of the directory after following symlinks
//!            (plain files and symlinks to regular files). Everything else — sub-directories, symlinks to directories,
//!            dangling symlinks, sockets — is tracked by the oracle (every operation must leave it alone, none of it
//!            is ever a checkpoint) and hidden from the model.
//!
//! Oracles (never go through the model): round trip field-for-field; a loaded state has the protected
//! fields and checksum of the state the file was derived from (so any alteration of them was rejected);
//! never PANIC/ABORT/HANG (child with a 64 MiB address space), also on files of several hundred MiB; after a save at most
//! `max` own files remain, they are the newest, nothing that is not a well-formed own file is touched (names AND bytes),
//! the new file holds the encoding; latest = own well-formed file of greatest stamp; save;latest;load returns the saved
//! state when it is the newest, otherwise the state that was saved under the returned name; a save whose file name the
//! file system cannot hold (`/`, NUL, longer than NAME_MAX) fails and changes nothing.
//! "own well-formed file of pid" := regular file, or symlink to one, named `checkpoint_<pid>_<digits>.bin` whose digits
//! parse as u64.
//!
//! Run-quality rules (no verdict may depend on load, timing or free space): a child that does not answer within the
//! watchdog is re-executed alone with a longer one (HANG only if every attempt hangs); `ERR io` / set-up failures of the
//! children are re-executed; a save that fails with ENOSPC/EDQUOT is dropped with a note; the clock-dependent policy
//! cases are re-executed when the call took long or the wall clock jumped. Assumes a case-sensitive, non-normalising
//! POSIX file system (Linux); a case-insensitive scratch file system is detected and noted.

use crate::ctx::{Ctx, Rng, guarded, hex};
use ironbeam::checkpoint::{
    CheckpointConfig, CheckpointManager, CheckpointMetadata, CheckpointPolicy, CheckpointState, compute_checksum,
};
use std::io::{BufRead, BufReader, Write};
use std::path::{Path, PathBuf};
use std::process::{Command, Stdio};
use std::sync::mpsc;
use std::time::Duration;

/// address-space limit of the decode child (KiB): a decoder that asks for a huge buffer dies => ABORT.
/// 64 MiB: the child needs about 30 MiB of address space to start (checked by a preflight run), so any single
/// request of more than about 32 MiB kills it. (Requests between the 1 MiB decode limit and that are not seen by
/// the oracle, but the model answers `ERR limit` for them, so they surface as a model/implementation disagreement.)
const CHILD_AS_LIMIT_KIB: u64 = 64 * 1024;
/// per answer line; a child that stays silent longer is killed and the case it was working on is RE-EXECUTED alone
/// (`CHILD_RETRY_WATCHDOG_S`, twice) before it may be called a HANG: a stalled machine is not a verdict
const CHILD_WATCHDOG_S: u64 = 120;
const CHILD_RETRY_WATCHDOG_S: u64 = 600;

#[derive(Clone, Debug, PartialEq, Eq)]
pub struct St {
    pid: String,
    idx: u64,
    ts: u64,
    pc: u64,
    ck: String,
    em: String,
    tn: u64,
    lnt: String,
    pp: u8,
}

impl St {
    fn meta_string(&self) -> String {
        format!("{}:{}:{}:{}", self.pid, self.idx, self.ts, self.pc)
    }
    fn with_valid_checksum(mut self) -> Self {
        self.ck = compute_checksum(self.meta_string().as_bytes());
        self
    }
    fn to_real(&self) -> CheckpointState {
        CheckpointState {
            pipeline_id: self.pid.clone(),
            completed_node_index: self.idx as usize,
            timestamp: self.ts,
            partition_count: self.pc as usize,
            checksum: self.ck.clone(),
            exec_mode: self.em.clone(),
            metadata: CheckpointMetadata {
                total_nodes: self.tn as usize,
                last_node_type: self.lnt.clone(),
                progress_percent: self.pp,
            },
        }
    }
    fn from_real(s: &CheckpointState) -> Self {
        St {
            pid: s.pipeline_id.clone(),
            idx: s.completed_node_index as u64,
            ts: s.timestamp,
            pc: s.partition_count as u64,
            ck: s.checksum.clone(),
            em: s.exec_mode.clone(),
            tn: s.metadata.total_nodes as u64,
            lnt: s.metadata.last_node_type.clone(),
            pp: s.metadata.progress_percent,
        }
    }
    fn fields(&self) -> String {
        format!(
            "pid={} idx={} ts={} pc={} ck={} em={} tn={} lnt={} pp={}",
            hex(self.pid.as_bytes()),
            self.idx,
            self.ts,
            self.pc,
            hex(self.ck.as_bytes()),
            hex(self.em.as_bytes()),
            self.tn,
            hex(self.lnt.as_bytes()),
            self.pp
        )
    }
    fn protected(&self) -> (String, u64, u64, u64) {
        (self.pid.clone(), self.idx, self.ts, self.pc)
    }
    /// generator-side encoder (bincode standard layout) used ONLY to build hostile inputs and to know
    /// field offsets; the real bytes always come from `save_checkpoint`.
    fn gen_encode(&self) -> (Vec<u8>, Vec<usize>) {
        let l = self.gen_layout();
        (l.bytes, l.str_offsets)
    }
    /// the encoding with the offsets of its parts: `str_offsets` = the four string length prefixes,
    /// `var_offsets` = all eight varints (four length prefixes + idx, ts, pc, tn) in wire order,
    /// `bodies` = (start, len) of the four string bodies
    fn gen_layout(&self) -> Layout {
        let mut out = vec![];
        let mut str_offsets = vec![];
        let mut var_offsets = vec![];
        let mut bodies = vec![];
        fn vi(out: &mut Vec<u8>, vo: &mut Vec<usize>, v: u64) {
            vo.push(out.len());
            gen_varint(out, v);
        }
        fn st(out: &mut Vec<u8>, so: &mut Vec<usize>, vo: &mut Vec<usize>, bo: &mut Vec<(usize, usize)>, s: &str) {
            so.push(out.len());
            vo.push(out.len());
            gen_varint(out, s.len() as u64);
            bo.push((out.len(), s.len()));
            out.extend_from_slice(s.as_bytes());
        }
        st(&mut out, &mut str_offsets, &mut var_offsets, &mut bodies, &self.pid);
        vi(&mut out, &mut var_offsets, self.idx);
        vi(&mut out, &mut var_offsets, self.ts);
        vi(&mut out, &mut var_offsets, self.pc);
        st(&mut out, &mut str_offsets, &mut var_offsets, &mut bodies, &self.ck);
        st(&mut out, &mut str_offsets, &mut var_offsets, &mut bodies, &self.em);
        vi(&mut out, &mut var_offsets, self.tn);
        st(&mut out, &mut str_offsets, &mut var_offsets, &mut bodies, &self.lnt);
        out.push(self.pp);
        Layout { bytes: out, str_offsets, var_offsets, bodies }
    }
}

struct Layout {
    bytes: Vec<u8>,
    str_offsets: Vec<usize>,
    var_offsets: Vec<usize>,
    bodies: Vec<(usize, usize)>,
}

fn gen_varint(out: &mut Vec<u8>, v: u64) {
    if v <= 250 {
        out.push(v as u8);
    } else if v <= 0xffff {
        out.push(251);
        out.extend_from_slice(&(v as u16).to_le_bytes());
    } else if v <= 0xffff_ffff {
        out.push(252);
        out.extend_from_slice(&(v as u32).to_le_bytes());
    } else {
        out.push(253);
        out.extend_from_slice(&v.to_le_bytes());
    }
}
fn varint_len(first: u8) -> usize {
    match first {
        251 => 3,
        252 => 5,
        253 => 9,
        _ => 1,
    }
}

fn unhex(s: &str) -> Option<Vec<u8>> {
    if s.len() % 2 != 0 {
        return None;
    }
    (0..s.len() / 2).map(|i| u8::from_str_radix(&s[2 * i..2 * i + 2], 16).ok()).collect()
}

fn parse_fields(toks: &[&str]) -> Option<St> {
    let get = |k: &str| -> Option<&str> {
        toks.iter().find_map(|t| t.strip_prefix(k).and_then(|r| r.strip_prefix('=')))
    };
    let s = |k: &str| -> Option<String> { String::from_utf8(unhex(get(k)?)?).ok() };
    let n = |k: &str| -> Option<u64> { get(k)?.parse().ok() };
    Some(St { pid: s("pid")?, idx: n("idx")?, ts: n("ts")?, pc: n("pc")?, ck: s("ck")?, em: s("em")?, tn: n("tn")?, lnt: s("lnt")?, pp: n("pp")? as u8 })
}

/// canonical class of a `load_checkpoint` error
fn classify_load_err(e: &anyhow::Error) -> String {
    let top = e.to_string();
    if top.contains("checksum mismatch") {
        return "ERR checksum".into();
    }
    // bincode's DecodeError displays as its Debug form; find it in the cause chain
    for cause in e.chain() {
        let c = cause.to_string();
        let class = if c.starts_with("UnexpectedEnd") {
            "eof"
        } else if c.starts_with("LimitExceeded") {
            "limit"
        } else if c.starts_with("InvalidIntegerType") {
            "int-type"
        } else if c.starts_with("Utf8") {
            "utf8"
        } else if c.starts_with("OutsideUsizeRange") {
            "usize-range"
        } else {
            continue;
        };
        return format!("ERR {class}");
    }
    if top.contains("Failed to open") || top.contains("Failed to read") {
        return "ERR io".into();
    }
    format!("ERR other:{}", e.root_cause().to_string().split_whitespace().next().unwrap_or("?"))
}

fn load_answer(r: Result<anyhow::Result<CheckpointState>, String>) -> String {
    match r {
        Err(_) => "PANIC".into(),
        Ok(Err(e)) => classify_load_err(&e),
        Ok(Ok(s)) => format!("OK {}", St::from_real(&s).fields()),
    }
}

/// scratch directory on tmpfs when available (save_checkpoint fsyncs every file) and writable (a full /dev/shm
/// falls back to the default temporary directory)
fn tmpdir() -> tempfile::TempDir {
    let shm = Path::new("/dev/shm");
    if shm.is_dir() {
        if let Ok(t) = tempfile::tempdir_in(shm) {
            let probe = t.path().join(".probe");
            if std::fs::write(&probe, [0u8; 4096]).is_ok() {
                let _ = std::fs::remove_file(&probe);
                return t;
            }
        }
    }
    tempfile::tempdir().expect("tempdir")
}

/// ENOSPC / EDQUOT somewhere in the cause chain: the scratch file system is full — an environment failure, not a verdict
fn is_nospace(e: &anyhow::Error) -> bool {
    e.chain().any(|c| c.downcast_ref::<std::io::Error>().is_some_and(|io| matches!(io.raw_os_error(), Some(28) | Some(122))))
}

/// facts about the scratch file system measured once per run, and the place symlink targets live (outside every
/// checkpoint directory)
pub struct Hx {
    /// NAME_MAX: the longest entry name the scratch file system accepts (255 on Linux file systems)
    nmax: usize,
    case_insensitive: bool,
    targets: tempfile::TempDir,
    n_targets: usize,
    /// keep one manager across consecutive saves of a history (the real usage) instead of a fresh one per operation
    reuse: bool,
    cached: Option<(PathBuf, Option<usize>, bool, CheckpointManager)>,
}
impl Hx {
    fn probe(cx: &mut Ctx) -> Hx {
        let t = tmpdir();
        let fits = |n: usize| -> bool {
            let p = t.path().join("n".repeat(n));
            let ok = std::fs::write(&p, b"").is_ok();
            let _ = std::fs::remove_file(&p);
            ok
        };
        let (mut lo, mut hi) = (1usize, 4096usize); // fits(lo), !fits(hi)
        if !fits(lo) {
            cx.notes.push("scratch file system refuses even 1-byte names; NAME_MAX assumed 255".into());
            lo = 255;
        } else {
            while hi - lo > 1 {
                let mid = (lo + hi) / 2;
                if fits(mid) { lo = mid } else { hi = mid }
            }
        }
        let _ = std::fs::write(t.path().join("Aa"), b"");
        let ci = t.path().join("aA").exists();
        FOLD_CASE.store(ci, std::sync::atomic::Ordering::Relaxed);
        if ci {
            cx.notes.push("scratch file system is case-insensitive: case-variant look-alike names are not planted".into());
        }
        if !cfg!(target_os = "linux") {
            cx.notes.push("not Linux: the check assumes a case-sensitive, non-normalising POSIX file system".into());
        }
        cx.count(&format!("env:NAME_MAX={lo}"));
        Hx { nmax: lo, case_insensitive: ci, targets: tmpdir(), n_targets: 0, reuse: false, cached: None }
    }
    /// can the scratch file system hold an entry of this name in the checkpoint directory?
    fn name_ok(&self, name: &str) -> bool {
        !name.contains('/') && !name.contains('\0') && name.len() <= self.nmax
    }
    /// the manager for the next operation: a fresh one, or (reuse) the one of the previous operation when directory,
    /// `max_checkpoints` and `enabled` are the same
    fn mgr(&mut self, dir: &Path, max: Option<usize>, enabled: bool) -> &mut CheckpointManager {
        let hit = self.reuse && self.cached.as_ref().is_some_and(|c| c.0 == dir && c.1 == max && c.2 == enabled);
        if !hit {
            self.cached = Some((dir.to_path_buf(), max, enabled, manager(dir, max, enabled)));
        }
        &mut self.cached.as_mut().unwrap().3
    }
}

fn manager(dir: &Path, max: Option<usize>, enabled: bool) -> CheckpointManager {
    CheckpointManager::new(CheckpointConfig {
        enabled,
        directory: dir.to_path_buf(),
        policy: CheckpointPolicy::AfterEveryBarrier,
        auto_recover: true,
        max_checkpoints: max,
    })
    .expect("manager")
}

/// Translator route: constants of the running code printed as Lean definitions (`Generated/Tables.lean`).
pub fn tables(out: &mut String) {
    out.push_str("/-- `ironbeam::checkpoint::MAX_CHECKPOINT_DECODE_BYTES` of the running code (bincode `with_limit`) -/\n");
    out.push_str(&format!("def ckptDecodeLimit : Nat := {}\n\n", ironbeam::checkpoint::MAX_CHECKPOINT_DECODE_BYTES));
    out.push_str("/-- `ironbeam::checkpoint::MAX_CHECKPOINT_FILE_BYTES` of the running code (`File::take` in `load_checkpoint`) -/\n");
    out.push_str(&format!("def ckptReadCap : Nat := {}\n\n", ironbeam::checkpoint::MAX_CHECKPOINT_FILE_BYTES));
}

// ───────────────────────────── generators ─────────────────────────────

const NUM_EDGES: &[u64] = &[
    0, 1, 2, 249, 250, 251, 252, 253, 254, 255, 256, 65534, 65535, 65536, 65537, 0xffff_fffe, 0xffff_ffff,
    0x1_0000_0000, 0x1_0000_0001, 1 << 40, (1 << 63) - 1, 1 << 63, u64::MAX - 1, u64::MAX,
];
const CHAR_EDGES: &[char] = &[
    '\0', '\u{1}', '\t', '\n', ' ', '/', ':', '_', '.', '0', '9', 'a', 'Z', '~', '\u{7f}', '\u{80}', '\u{ff}', '\u{7ff}',
    '\u{800}', '\u{d7ff}', '\u{e000}', '\u{fffd}', '\u{ffff}', '\u{10000}', '\u{1f600}', '\u{10ffff}', 'é', 'π', '中',
];

fn rand_num(rng: &mut Rng) -> u64 {
    match rng.below(4) {
        0 => *rng.pick(NUM_EDGES),
        1 => rng.below(300) as u64,
        2 => rng.next_u64() >> rng.below(64),
        _ => rng.next_u64(),
    }
}
fn rand_char(rng: &mut Rng, safe_name: bool) -> char {
    loop {
        let c = match rng.below(5) {
            0 => *rng.pick(CHAR_EDGES),
            1 | 2 => (0x20 + rng.below(0x5f) as u8) as char,
            3 => char::from_u32(rng.below(0x800) as u32).unwrap_or('x'),
            _ => char::from_u32(rng.next_u64() as u32 % 0x11_0000).unwrap_or('\u{fffd}'),
        };
        if safe_name && (c == '/' || c == '\0') {
            continue;
        }
        return c;
    }
}
/// random string of at most `max_bytes` UTF-8 bytes
fn rand_string(rng: &mut Rng, max_bytes: usize, safe_name: bool, big: bool) -> String {
    let exact: &[usize] = if big { &[0, 1, 2, 250, 251, 252, 255, 256, 4095, 4096, 65535, 65536, 70001] } else { &[0, 1, 2, 250, 251, 252, 255, 256, 4095, 4096] };
    if rng.chance(1, 3) {
        // ASCII of an exact (boundary) length
        let n = (*rng.pick(exact)).min(max_bytes);
        return (0..n).map(|_| (0x21 + rng.below(0x5e) as u8) as char).filter(|c| !(safe_name && *c == '/')).collect();
    }
    let target = match rng.below(4) {
        0 => rng.below(4),
        1 => rng.below(20),
        2 => rng.below(300),
        _ => rng.below(max_bytes + 1),
    }
    .min(max_bytes);
    let mut s = String::new();
    while s.len() < target {
        let c = rand_char(rng, safe_name);
        if s.len() + c.len_utf8() > max_bytes {
            break;
        }
        s.push(c);
    }
    s
}
fn rand_state(rng: &mut Rng, max_str: usize, pid_safe: bool, big: bool) -> St {
    let pid_max = if pid_safe { max_str.min(180) } else { max_str };
    let st = St {
        pid: rand_string(rng, pid_max, pid_safe, false),
        idx: rand_num(rng),
        ts: rand_num(rng),
        pc: rand_num(rng),
        ck: String::new(),
        em: rand_string(rng, max_str, false, big),
        tn: rand_num(rng),
        lnt: rand_string(rng, max_str, false, big),
        pp: rng.next_u64() as u8,
    };
    st.with_valid_checksum()
}

// ───────────────────────────── CKPT-ENC ─────────────────────────────

fn one_enc(cx: &mut Ctx, hx: &Hx, st: &St, nontrivial: bool) {
    let tmp = tmpdir();
    let real = st.to_real();
    let r = guarded(|| -> anyhow::Result<(std::path::PathBuf, Vec<u8>)> {
        let mut m = manager(tmp.path(), None, true);
        let p = m.save_checkpoint(&real)?;
        let bytes = std::fs::read(&p)?;
        Ok((p, bytes))
    });
    if let Ok(Err(e)) = &r {
        if is_nospace(e) {
            cx.count("env:save-dropped(no space left on the scratch file system)");
            return;
        }
    }
    let want_name = format!("checkpoint_{}_{}.bin", st.pid, st.ts);
    if !hx.name_ok(&want_name) {
        // the file system cannot hold this name: the save must fail and leave the directory empty
        let answer = match &r {
            Err(_) => "PANIC".to_string(),
            Ok(Err(_)) => "ERR save".to_string(),
            Ok(Ok(_)) => "OK (a file was written)".to_string(),
        };
        let i = cx.case(format!("CKPT-ENC nmax={} {}", hx.nmax, st.fields()), answer.clone(), nontrivial);
        cx.count("enc:unusable-file-name");
        let left = scan(tmp.path());
        if answer != "ERR save" || !left.is_empty() {
            cx.oracle_fail(i, "save-with-unusable-file-name-does-not-fail-cleanly", format!("{want_name:?}: {answer}, {} entries left", left.len()));
        }
        return;
    }
    let (answer, saved) = match r {
        Err(_) => ("PANIC".to_string(), None),
        Ok(Err(_)) => ("ERR save".to_string(), None),
        Ok(Ok((p, bytes))) => {
            let m = manager(tmp.path(), None, true);
            let lr = guarded(|| m.load_checkpoint(&p));
            let la = load_answer(lr);
            (format!("OK {} | {}", hex(&bytes), la), Some((p, la)))
        }
    };
    let i = cx.case(format!("CKPT-ENC nmax={} {}", hx.nmax, st.fields()), answer.clone(), nontrivial);
    cx.count(&format!("enc:{}", answer.split(' ').next().unwrap_or("?")));
    match saved {
        None => cx.oracle_fail(i, "save-fails-on-valid-state", answer),
        Some((p, la)) => {
            if p.file_name().and_then(|n| n.to_str()) != Some(want_name.as_str()) {
                cx.oracle_fail(i, "save-file-name", format!("{:?} != {want_name}", p.file_name()));
            }
            let valid = st.ck == compute_checksum(st.meta_string().as_bytes());
            if valid {
                cx.count("enc:valid-checksum");
                if la != format!("OK {}", st.fields()) {
                    cx.oracle_fail(i, "round-trip-not-field-for-field", format!("saved {} loaded {}", st.fields(), la));
                }
            } else {
                cx.count("enc:wrong-checksum");
                if !la.starts_with("ERR") {
                    cx.oracle_fail(i, "wrong-checksum-accepted", la);
                }
            }
        }
    }
}

// ───────────────────────────── CKPT-DEC (child) ─────────────────────────────

struct DecCase {
    bytes: Vec<u8>,
    /// the valid state the bytes were derived from (None = synthetic bytes)
    base: Option<St>,
    /// bytes are exactly the encoding of `base`
    pristine: bool,
    tag: &'static str,
}

/// child: `ibh child c12 dec <infile> [start [count]]`: one hex line per case in, `<k> <answer>` per case out.
/// `ibh child c12 decfile <path>`: load one file that already exists (huge / sparse files that cannot travel as hex).
/// Exit code 3 = the scratch file could not be written (environment), 2 = bad usage.
pub fn child(args: &[String]) -> i32 {
    match args.first().map(String::as_str) {
        Some("dec") => {
            let Some(infile) = args.get(1) else { return 2 };
            let start: usize = args.get(2).and_then(|s| s.parse().ok()).unwrap_or(0);
            let count: usize = args.get(3).and_then(|s| s.parse().ok()).unwrap_or(usize::MAX);
            // streamed: the child's address space is capped far below the size of the case file
            let Ok(file) = std::fs::File::open(infile) else { return 3 };
            let tmp = tmpdir();
            let m = manager(tmp.path(), None, true);
            let path = tmp.path().join("case.bin");
            let out = std::io::stdout();
            for (k, line) in BufReader::new(file).lines().enumerate().skip(start).take(count) {
                let Ok(line) = line else { return 3 };
                let Some(bytes) = unhex(line.trim()) else { return 2 };
                if std::fs::write(&path, &bytes).is_err() {
                    return 3;
                }
                let a = load_answer(guarded(|| m.load_checkpoint(&path)));
                let mut o = out.lock();
                let _ = writeln!(o, "{k} {a}");
                let _ = o.flush();
            }
            0
        }
        Some("decfile") => {
            let Some(path) = args.get(1) else { return 2 };
            let tmp = tmpdir();
            let m = manager(tmp.path(), None, true);
            let a = load_answer(guarded(|| m.load_checkpoint(Path::new(path))));
            println!("0 {a}");
            0
        }
        _ => 2,
    }
}

/// `ibh child c12 <args>` under an address-space limit (`sh -c 'ulimit -v ..'`), or unlimited
fn child_cmd(limit_kib: Option<u64>, args: &[String]) -> Command {
    let exe = std::env::current_exe().expect("current_exe");
    match limit_kib {
        Some(kib) => {
            let mut c = Command::new("sh");
            c.arg("-c").arg(format!("ulimit -v {kib} && exec \"$0\" child c12 \"$@\"")).arg(&exe);
            c.args(args);
            c
        }
        None => {
            let mut c = Command::new(&exe);
            c.arg("child").arg("c12");
            c.args(args);
            c
        }
    }
}

enum ChildEnd {
    /// the process ended (exit code if it exited by itself)
    Exited(Option<i32>),
    /// no answer line within the watchdog: killed
    Silent,
    /// it could not be started at all
    NotStarted,
}

/// run one child, collecting its `<k> <answer>` lines in order starting at `first`
fn run_child(limit_kib: Option<u64>, args: &[String], first: usize, watchdog_s: u64) -> (Vec<String>, ChildEnd) {
    let mut answers = vec![];
    let Ok(mut child) = child_cmd(limit_kib, args).stdout(Stdio::piped()).stderr(Stdio::null()).spawn() else {
        return (answers, ChildEnd::NotStarted);
    };
    let stdout = child.stdout.take().unwrap();
    let (tx, rx) = mpsc::channel::<String>();
    let reader = std::thread::spawn(move || {
        for line in BufReader::new(stdout).lines().map_while(Result::ok) {
            if tx.send(line).is_err() {
                break;
            }
        }
    });
    let mut silent = false;
    loop {
        match rx.recv_timeout(Duration::from_secs(watchdog_s)) {
            Ok(line) => {
                let (k, a) = line.split_once(' ').unwrap_or((&line, ""));
                if k.parse::<usize>().ok() == Some(first + answers.len()) {
                    answers.push(a.to_string());
                }
            }
            Err(mpsc::RecvTimeoutError::Timeout) => {
                silent = true;
                let _ = child.kill();
                break;
            }
            Err(mpsc::RecvTimeoutError::Disconnected) => break,
        }
    }
    let status = child.wait().ok();
    let _ = reader.join();
    (answers, if silent { ChildEnd::Silent } else { ChildEnd::Exited(status.and_then(|s| s.code())) })
}

/// the address-space limit the children run under: the smallest of 64 / 128 / 256 / 512 MiB under which a child can
/// start and load a pristine file (64 MiB on the reference machine); `None` + a note when no limited child starts
/// (no `sh`, no `ulimit -v`, a very different allocator): the cases are then run unlimited — hostile length prefixes
/// still fail at the decode limit, only the "a request between 1 MiB and the address space" visibility is lost.
fn child_limit(cx: &mut Ctx, work: &Path) -> Option<u64> {
    let pre = work.join("dec_preflight.hex");
    if std::fs::write(&pre, format!("{}\n", hex(&short_base_a().gen_encode().0))).is_err() {
        cx.notes.push("decode children: preflight file could not be written; children run without an address-space limit".into());
        return None;
    }
    let args = vec!["dec".to_string(), pre.to_string_lossy().into_owned(), "0".to_string()];
    let mut chosen = None;
    for mult in [1u64, 2, 4, 8] {
        let kib = CHILD_AS_LIMIT_KIB * mult;
        let (a, _) = run_child(Some(kib), &args, 0, CHILD_RETRY_WATCHDOG_S);
        if a.first().is_some_and(|x| x.starts_with("OK ")) {
            chosen = Some(kib);
            break;
        }
    }
    let _ = std::fs::remove_file(&pre);
    match chosen {
        Some(kib) => {
            if kib != CHILD_AS_LIMIT_KIB {
                cx.notes.push(format!("decode children need more than {} KiB of address space to start; limit raised to {kib} KiB", CHILD_AS_LIMIT_KIB));
            }
            cx.count(&format!("env:child-address-space-limit-KiB={kib}"));
        }
        None => cx.notes.push("decode children do not start under any address-space limit (sh / ulimit -v unavailable?); run unlimited".into()),
    }
    chosen
}

/// Run all decode cases in watchdog children with an address-space limit. A child that dies on case k yields ABORT
/// for k and a fresh child continues at k+1. A child that falls silent is killed and case k is RE-EXECUTED alone with a
/// long watchdog, twice: HANG only if it never answers. Environment failures (scratch file not writable, child not
/// startable) are retried; if they persist the remaining cases are dropped with a note (`None`) — never a verdict.
fn run_dec_children(cx: &mut Ctx, cases: &[DecCase], work: &Path, limit: Option<u64>) -> Vec<Option<String>> {
    let infile = work.join("dec_cases.hex");
    let written = (|| -> std::io::Result<()> {
        let mut f = std::io::BufWriter::new(std::fs::File::create(&infile)?);
        for c in cases {
            writeln!(f, "{}", hex(&c.bytes))?;
        }
        f.flush()
    })();
    if written.is_err() {
        cx.notes.push(format!("decode cases: the case file could not be written ({} cases dropped)", cases.len()));
        return vec![None; cases.len()];
    }
    let inpath = infile.to_string_lossy().into_owned();
    let mut answers: Vec<Option<String>> = Vec::with_capacity(cases.len());
    let mut env_failures = 0usize;
    while answers.len() < cases.len() {
        let start = answers.len();
        let (got, end) = run_child(limit, &["dec".into(), inpath.clone(), start.to_string()], start, CHILD_WATCHDOG_S);
        answers.extend(got.into_iter().map(Some));
        if answers.len() >= cases.len() {
            break;
        }
        let k = answers.len();
        match end {
            ChildEnd::Exited(Some(3)) | ChildEnd::Exited(Some(2)) | ChildEnd::NotStarted => {
                env_failures += 1;
                if env_failures > 5 {
                    cx.notes.push(format!("decode children: repeated set-up failure at case {k}; {} cases dropped", cases.len() - k));
                    answers.resize(cases.len(), None);
                    break;
                }
                std::thread::sleep(Duration::from_millis(200 * env_failures as u64));
            }
            ChildEnd::Exited(_) => {
                // the child died while working on case k: re-execute k alone to confirm
                let (again, end2) = run_child(limit, &["dec".into(), inpath.clone(), k.to_string(), "1".into()], k, CHILD_RETRY_WATCHDOG_S);
                match (again.into_iter().next(), end2) {
                    (Some(a), _) => {
                        cx.count("dec:child-death-not-reproduced(answer of the re-execution taken)");
                        answers.push(Some(a));
                    }
                    (None, ChildEnd::Exited(Some(3))) | (None, ChildEnd::Exited(Some(2))) | (None, ChildEnd::NotStarted) => env_failures += 1,
                    (None, ChildEnd::Silent) => answers.push(Some("HANG".into())),
                    (None, ChildEnd::Exited(_)) => answers.push(Some("ABORT".into())),
                }
            }
            ChildEnd::Silent => {
                let mut verdict: Option<String> = None;
                for _ in 0..2 {
                    let (again, end2) = run_child(limit, &["dec".into(), inpath.clone(), k.to_string(), "1".into()], k, CHILD_RETRY_WATCHDOG_S);
                    match (again.into_iter().next(), end2) {
                        (Some(a), _) => {
                            verdict = Some(a);
                            break;
                        }
                        (None, ChildEnd::Silent) => continue,
                        (None, ChildEnd::Exited(Some(3))) | (None, ChildEnd::Exited(Some(2))) | (None, ChildEnd::NotStarted) => continue,
                        (None, ChildEnd::Exited(_)) => {
                            verdict = Some("ABORT".into());
                            break;
                        }
                    }
                }
                match verdict {
                    Some(a) => {
                        cx.notes.push(format!("decode child silent for {CHILD_WATCHDOG_S} s at case {k} (machine stall); the case answered when re-executed alone"));
                        answers.push(Some(a));
                    }
                    None => answers.push(Some("HANG".into())),
                }
            }
        }
    }
    let _ = std::fs::remove_file(&infile);
    answers
}

fn dec_oracle(cx: &mut Ctx, i: usize, c: &DecCase, ans: &str) {
    if ans == "PANIC" || ans == "ABORT" || ans == "HANG" {
        let sig = match ans {
            "PANIC" => "load-panics-on-malformed-bytes",
            "ABORT" => "load-aborts-on-malformed-bytes(huge allocation)",
            _ => "load-hangs-on-malformed-bytes",
        };
        cx.oracle_fail(i, sig, format!("{} on {} bytes ({})", ans, c.bytes.len(), c.tag));
        return;
    }
    if let Some(rest) = ans.strip_prefix("OK ") {
        let toks: Vec<&str> = rest.split(' ').collect();
        let Some(got) = parse_fields(&toks) else {
            cx.oracle_fail(i, "unparsable-real-answer", ans.to_string());
            return;
        };
        // whatever is accepted carries a checksum that matches its own protected fields
        if got.ck != compute_checksum(got.meta_string().as_bytes()) {
            cx.oracle_fail(i, "accepted-state-with-wrong-checksum", ans.to_string());
        }
        if let Some(b) = &c.base {
            if got.protected() != b.protected() || got.ck != b.ck {
                cx.oracle_fail(i, "altered-protected-field-or-checksum-accepted", format!("base {} loaded {}", b.fields(), got.fields()));
            }
            if c.pristine && &got != b {
                cx.oracle_fail(i, "round-trip-not-field-for-field", format!("base {} loaded {}", b.fields(), got.fields()));
            }
        }
    } else if c.pristine {
        cx.oracle_fail(i, "pristine-file-rejected", ans.to_string());
    }
}

fn short_base_a() -> St {
    St { pid: "p".into(), idx: 3, ts: 7, pc: 2, ck: String::new(), em: "seq".into(), tn: 9, lnt: "S".into(), pp: 50 }.with_valid_checksum()
}
fn short_base_b() -> St {
    // multi-byte varints of every width and every UTF-8 sequence length
    St { pid: "é_中".into(), idx: 300, ts: 1 << 40, pc: 70000, ck: String::new(), em: "\u{1f600}\u{7f}".into(), tn: 251, lnt: "\u{7ff}\u{ffff}".into(), pp: 255 }
        .with_valid_checksum()
}

/// the remaining exhaustive-fault bases: different lengths and shapes
fn base_c_empty() -> St {
    // every string empty, every number 0: the shortest file a save can write (73 bytes)
    St { pid: String::new(), idx: 0, ts: 0, pc: 0, ck: String::new(), em: String::new(), tn: 0, lnt: String::new(), pp: 0 }.with_valid_checksum()
}
fn base_d_extremes() -> St {
    // numbers at the extremes (9-byte varints), a pipeline id containing ':' '_' and digits
    St { pid: "a:1_2:".into(), idx: u64::MAX, ts: 1 << 63, pc: 0x1_0000_0000, ck: String::new(), em: ":".into(), tn: 65535, lnt: "0".into(), pp: 251 }
        .with_valid_checksum()
}
fn base_e_medium() -> St {
    // 251-byte pipeline id (3-byte length prefix), 300 bytes of mixed-width unicode, 70 bytes
    let pid: String = (0..251).map(|i| (b'a' + (i % 26) as u8) as char).collect();
    let mut em = String::new();
    for c in ['x', 'é', '中', '\u{1f600}', '\u{7ff}', '\u{800}', '\u{10ffff}', '~'].iter().cycle() {
        if em.len() + c.len_utf8() > 300 {
            break;
        }
        em.push(*c);
    }
    let lnt: String = (0..70).map(|i| (b'0' + (i % 10) as u8) as char).collect();
    St { pid, idx: 251, ts: 1_700_000_000_000, pc: 16, ck: String::new(), em, tn: 1000, lnt, pp: 99 }.with_valid_checksum()
}
fn base_f_long() -> St {
    // the property's maximum: a 4096-byte string (and a 1000-byte one)
    let lnt: String = (0..4096).map(|i| (0x21 + (i * 7 % 0x5e) as u8) as char).collect();
    let mut em = String::new();
    for c in ['π', 'a', '\u{ffff}', '\u{10000}'].iter().cycle() {
        if em.len() + c.len_utf8() > 1000 {
            break;
        }
        em.push(*c);
    }
    St { pid: "long".into(), idx: 70000, ts: u64::MAX, pc: 250, ck: String::new(), em, tn: 251, lnt, pp: 100 }.with_valid_checksum()
}

fn hostile_lengths() -> Vec<u64> {
    vec![
        1 << 63, u64::MAX, (1 << 63) - 1, 1 << 62, 1 << 48, 1 << 40, 1 << 34, 1 << 32, 3 << 30, 1 << 30, // far beyond the child's address-space limit
        1 << 28, 100 << 20, 1 << 26, // at or beyond the child's address-space limit, far below 2^30
        16 << 20, 2 << 20, // above the decode limit, below the child's address-space limit
        (1 << 20) + 1, 1 << 20, (1 << 20) - 64, 70000, 65536, 300, 251,
    ]
}

const OVERWRITE_VALUES: [u8; 19] = [0u8, 1, 0x7f, 0x80, 0xbf, 0xc0, 0xc1, 0xc2, 0xe0, 0xed, 0xf0, 0xf4, 0xf5, 250, 251, 252, 253, 254, 255];

/// byte positions of `l` that get the exhaustive fault treatment: everything for files up to 1 KiB; for longer
/// files every byte outside the long string bodies plus the first/last 8 bytes and every 97th byte of each body
fn fault_positions(l: &Layout) -> Vec<usize> {
    let n = l.bytes.len();
    if n <= 1024 {
        return (0..n).collect();
    }
    let mut keep = vec![true; n];
    for &(start, len) in &l.bodies {
        if len > 64 {
            for k in 0..len {
                keep[start + k] = k < 8 || k + 8 >= len || k % 97 == 0;
            }
        }
    }
    (0..n).filter(|&i| keep[i]).collect()
}

fn gen_dec_cases(cx: &mut Ctx) -> Vec<DecCase> {
    let mut v: Vec<DecCase> = vec![];
    let bases: Vec<(St, &'static str, bool)> = vec![
        (short_base_a(), "a:78B", true),
        (short_base_b(), "b:all-varint-widths+1-4-byte-utf8", true),
        (base_c_empty(), "c:all-empty", true),
        (base_d_extremes(), "d:extreme-numbers", true),
        (base_e_medium(), "e:251B-id+300B-unicode", false),
        (base_f_long(), "f:4096B-string", false),
    ];
    // (1) corpus / design witnesses
    {
        // DESIGN §8 #8: first length prefix = 2^63
        let mut b = vec![];
        gen_varint(&mut b, 1 << 63);
        v.push(DecCase { bytes: b, base: None, pristine: false, tag: "corpus:len=2^63" });
        // a hostile value at EVERY varint position (4 string length prefixes and the 4 numbers) of every base
        let mut n_host = 0usize;
        for (base, _, _) in &bases {
            let l = base.gen_layout();
            for &off in &l.var_offsets {
                let is_len = l.str_offsets.contains(&off);
                for &h in &hostile_lengths() {
                    let mut b = l.bytes[..off].to_vec();
                    gen_varint(&mut b, h);
                    b.extend_from_slice(&l.bytes[off + varint_len(l.bytes[off])..]);
                    if b == l.bytes {
                        continue;
                    }
                    v.push(DecCase {
                        bytes: b,
                        base: Some(base.clone()),
                        pristine: false,
                        tag: if is_len { "corpus:hostile-length" } else { "corpus:hostile-number" },
                    });
                    n_host += 1;
                }
            }
        }
        cx.exhaustive_blocks.push(format!(
            "CKPT-DEC: {} hostile values (2^63, 2^64-1, 2^62 .. 2^20+1, 2^20, 70000, 65536, 300, 251) planted at EVERY varint position (4 length prefixes + 4 numbers) of {} encoded states = {n_host} files",
            hostile_lengths().len(),
            bases.len()
        ));
        // the genuine checksum with something appended / prepended / doubled: "checksum altered" must be rejected
        // (a comparison after trim(), a starts_with / contains test would accept these)
        let mut n_ck = 0usize;
        for (base, _, _) in &bases {
            let mut alts: Vec<String> = vec![];
            for extra in [" ", "\n", "\t", "\0", "0", "f", "\u{a0}"] {
                alts.push(format!("{}{extra}", base.ck));
                alts.push(format!("{extra}{}", base.ck));
            }
            alts.push(format!("{}{}", base.ck, base.ck));
            alts.push(format!(" {} ", base.ck));
            alts.push(base.ck[..63].to_string());
            alts.push(base.ck[1..].to_string());
            for ck in alts {
                let t = St { ck, ..base.clone() };
                v.push(DecCase { bytes: t.gen_encode().0, base: Some(base.clone()), pristine: false, tag: "corpus:checksum-padded" });
                n_ck += 1;
            }
        }
        cx.exhaustive_blocks.push(format!(
            "CKPT-DEC: the genuine checksum with one of 7 characters (space, newline, tab, NUL, '0', 'f', U+00A0) appended / prepended, doubled, wrapped in spaces, first / last character dropped, re-encoded into each of {} states = {n_ck} files",
            bases.len()
        ));
        // valid files whose strings need the 5-byte length prefix (marker 252) and the 3-byte one at its maximum
        for (n_em, n_lnt) in [(70001usize, 65535usize), (65536, 300)] {
            let t = St { em: "e".repeat(n_em), lnt: "\u{e9}".repeat(n_lnt / 2), ..short_base_a() }.with_valid_checksum();
            v.push(DecCase { bytes: t.gen_encode().0, base: Some(t), pristine: true, tag: "corpus:valid-with-64KiB+-strings" });
        }
        v.push(DecCase { bytes: vec![], base: None, pristine: false, tag: "corpus:empty" });
        for m in 251..=255u8 {
            v.push(DecCase { bytes: vec![m], base: None, pristine: false, tag: "corpus:lonely-marker" });
            v.push(DecCase { bytes: vec![1, b'p', m], base: None, pristine: false, tag: "corpus:lonely-marker" });
            v.push(DecCase { bytes: vec![1, b'p', m, 0, 0, 0, 0, 0, 0, 0, 0, 0, 0, 0, 0, 0], base: None, pristine: false, tag: "corpus:marker-in-u64" });
        }
    }
    // (2) exhaustive single-fault block over six states of different lengths
    let mut n_exh = 0usize;
    let mut desc: Vec<String> = vec![];
    for (base, name, overwrites) in &bases {
        let l = base.gen_layout();
        let enc = &l.bytes;
        let pos = fault_positions(&l);
        let before = n_exh;
        v.push(DecCase { bytes: enc.clone(), base: Some(base.clone()), pristine: true, tag: "exh:pristine" });
        for &i in &pos {
            for bit in 0..8 {
                let mut b = enc.clone();
                b[i] ^= 1 << bit;
                v.push(DecCase { bytes: b, base: Some(base.clone()), pristine: false, tag: "exh:bitflip" });
                n_exh += 1;
            }
            if *overwrites {
                for val in OVERWRITE_VALUES {
                    if enc[i] != val {
                        let mut b = enc.clone();
                        b[i] = val;
                        v.push(DecCase { bytes: b, base: Some(base.clone()), pristine: false, tag: "exh:overwrite" });
                        n_exh += 1;
                    }
                }
            }
            v.push(DecCase { bytes: enc[..i].to_vec(), base: Some(base.clone()), pristine: false, tag: "exh:truncate" });
            n_exh += 1;
        }
        desc.push(format!(
            "{name} ({} bytes, {} positions{}: {} files)",
            enc.len(),
            pos.len(),
            if *overwrites { ", + 19 overwrite values" } else { "" },
            n_exh - before
        ));
    }
    cx.exhaustive_blocks.push(format!(
        "CKPT-DEC: every single-bit flip and every truncation at every byte position of six encoded states of different lengths (for the > 1 KiB file: every byte outside the long string bodies, the first/last 8 and every 97th byte of each body), plus 19 overwrite values per byte on the four short ones = {n_exh} files: {}",
        desc.join("; ")
    ));
    // (3) random block
    let rounds = cx.budget(6000, 150000);
    for _ in 0..rounds {
        let big = cx.tier != crate::ctx::Tier::Quick && cx.rng.chance(1, 200);
        let max_str = match cx.rng.below(10) {
            0 => 4096,
            1 | 2 => 300,
            _ => 24,
        };
        let st = rand_state(&mut cx.rng, max_str, false, big);
        let lay = st.gen_layout();
        let (enc, offs) = (lay.bytes.clone(), lay.var_offsets.clone());
        let kind = cx.rng.below(13);
        let (bytes, pristine, tag): (Vec<u8>, bool, &'static str) = match kind {
            0 => (enc.clone(), true, "rnd:pristine"),
            1 | 2 => {
                let mut b = enc.clone();
                let flips = 1 + cx.rng.below(3);
                for _ in 0..flips {
                    let i = cx.rng.below(b.len());
                    b[i] ^= 1 << cx.rng.below(8);
                }
                (b, false, "rnd:bitflips")
            }
            3 => {
                let mut b = enc.clone();
                let i = cx.rng.below(b.len());
                b[i] = cx.rng.next_u64() as u8;
                (b, false, "rnd:overwrite")
            }
            4 => (enc[..cx.rng.below(enc.len() + 1)].to_vec(), false, "rnd:truncate"),
            5 => {
                let mut b = enc.clone();
                let i = cx.rng.below(b.len() + 1);
                b.insert(i, cx.rng.next_u64() as u8);
                (b, false, "rnd:insert")
            }
            6 => {
                let mut b = enc.clone();
                let i = cx.rng.below(b.len());
                b.remove(i);
                (b, false, "rnd:delete")
            }
            7 => {
                let mut b = enc.clone();
                let n = 1 + cx.rng.below(16);
                for _ in 0..n {
                    b.push(cx.rng.next_u64() as u8);
                }
                (b, false, "rnd:trailing-garbage")
            }
            8 => {
                // hostile / random value at ANY varint position (length prefixes and numbers)
                let off = offs[cx.rng.below(offs.len())];
                let l = if cx.rng.chance(1, 2) { *cx.rng.pick(&hostile_lengths()) } else { rand_num(&mut cx.rng) };
                let mut b = enc[..off].to_vec();
                gen_varint(&mut b, l);
                b.extend_from_slice(&enc[off + varint_len(enc[off])..]);
                if b == enc { (b, true, "rnd:pristine") } else { (b, false, "rnd:varint-replaced") }
            }
            9 => {
                // non-canonical (wider) varint for the same value: fields unchanged, must still load
                let off = offs[cx.rng.below(offs.len())];
                let l = match enc[off] {
                    x @ 0..=250 => x as u64,
                    _ => u64::MAX,
                };
                if l == u64::MAX {
                    (enc.clone(), true, "rnd:pristine")
                } else {
                    let mut b = enc[..off].to_vec();
                    match cx.rng.below(3) {
                        0 => {
                            b.push(251);
                            b.extend_from_slice(&(l as u16).to_le_bytes());
                        }
                        1 => {
                            b.push(252);
                            b.extend_from_slice(&(l as u32).to_le_bytes());
                        }
                        _ => {
                            b.push(253);
                            b.extend_from_slice(&l.to_le_bytes());
                        }
                    }
                    b.extend_from_slice(&enc[off + 1..]);
                    (b, true, "rnd:noncanonical-varint")
                }
            }
            10 => {
                // re-encode with one protected field changed but the old checksum kept
                let mut t = st.clone();
                match cx.rng.below(4) {
                    0 => t.pid.push('x'),
                    1 => t.idx = t.idx.wrapping_add(1 + cx.rng.below(3) as u64),
                    2 => t.ts = t.ts.wrapping_sub(1),
                    _ => t.pc ^= 1 << cx.rng.below(64),
                }
                (t.gen_encode().0, false, "rnd:protected-field-rewritten")
            }
            11 => {
                // re-encode with the checksum replaced (empty / truncated / upper-cased / of another state / one char changed)
                let mut t = st.clone();
                match cx.rng.below(10) {
                    5 => {
                        // the genuine checksum followed by one more character (white space, hex digit, anything)
                        let extra = *cx.rng.pick(&[' ', '\n', '\t', '\0', '0', 'f', 'x', '\u{a0}', '\u{2028}']);
                        t.ck.push(extra);
                    }
                    6 => {
                        let extra = *cx.rng.pick(&[' ', '\n', '0', 'a', '\u{feff}']);
                        t.ck.insert(0, extra);
                    }
                    7 => t.ck = format!("{}{}", t.ck, t.ck),
                    8 => {
                        let c = rand_char(&mut cx.rng, false);
                        t.ck.push(c);
                    }
                    9 => t.ck = format!(" {} ", t.ck),
                    0 => t.ck.clear(),
                    1 => {
                        t.ck.pop();
                    }
                    2 => t.ck = t.ck.to_uppercase(),
                    3 => t.ck = compute_checksum(format!("{}:{}:{}:{}", t.pid, t.idx, t.ts, t.pc.wrapping_add(1)).as_bytes()),
                    _ => {
                        let i = cx.rng.below(t.ck.len().max(1));
                        let mut b = t.ck.clone().into_bytes();
                        if !b.is_empty() {
                            b[i] = if b[i] == b'0' { b'1' } else { b'0' };
                        }
                        t.ck = String::from_utf8(b).unwrap_or_default();
                    }
                }
                (t.gen_encode().0, false, "rnd:checksum-rewritten")
            }
            _ => {
                let n = cx.rng.below(64);
                ((0..n).map(|_| cx.rng.next_u64() as u8).collect(), false, "rnd:random-bytes")
            }
        };
        let base = if tag == "rnd:random-bytes" { None } else { Some(st) };
        v.push(DecCase { bytes, base, pristine, tag });
    }
    v
}

fn run_dec(cx: &mut Ctx) {
    let cases = gen_dec_cases(cx);
    let work = std::env::temp_dir().join(format!("ibh-c12-{}-{}", std::process::id(), cx.seed));
    let _ = std::fs::create_dir_all(&work);
    let limit = child_limit(cx, &work);
    let answers = run_dec_children(cx, &cases, &work, limit);
    for (c, a) in cases.iter().zip(answers.iter()) {
        let Some(a) = a else {
            cx.count("dec:dropped(environment)");
            continue;
        };
        let nt = !c.bytes.is_empty();
        let i = cx.case(format!("CKPT-DEC {}", if c.bytes.is_empty() { "-".to_string() } else { hex(&c.bytes) }), a.clone(), nt);
        cx.count(&format!("dec:in:{}", c.tag));
        let class: String = a.split(' ').take(if a.starts_with("ERR") { 2 } else { 1 }).collect::<Vec<_>>().join(" ");
        cx.count(&format!("dec:out:{class}"));
        dec_oracle(cx, i, c, a);
    }
    run_decbig(cx, &work, limit);
    let _ = std::fs::remove_dir_all(&work);
}

/// the longest file a record that passes the decode limit can occupy: every integer and length prefix as a 9-byte
/// varint (non-canonical for the lengths), strings filling the limit exactly: limit + 8 bytes, claims = limit
fn maximal_record(extra: usize) -> (St, Vec<u8>) {
    let limit = ironbeam::checkpoint::MAX_CHECKPOINT_DECODE_BYTES;
    let mut st = St { pid: String::new(), idx: u64::MAX, ts: u64::MAX - 1, pc: 1 << 40, ck: String::new(), em: String::new(), tn: 1 << 33, lnt: String::new(), pp: 7 }
        .with_valid_checksum();
    st.lnt = "a".repeat(limit - 65 - st.ck.len() + extra);
    let mut out = vec![];
    let wide = |out: &mut Vec<u8>, v: u64| {
        out.push(253);
        out.extend_from_slice(&v.to_le_bytes());
    };
    wide(&mut out, 0);
    wide(&mut out, st.idx);
    wide(&mut out, st.ts);
    wide(&mut out, st.pc);
    wide(&mut out, st.ck.len() as u64);
    out.extend_from_slice(st.ck.as_bytes());
    wide(&mut out, 0);
    wide(&mut out, st.tn);
    wide(&mut out, st.lnt.len() as u64);
    out.extend_from_slice(st.lnt.as_bytes());
    out.push(st.pp);
    (st, out)
}

/// CKPT-DECBIG: files around the read cap and sparse files of several hundred MiB, loaded BY PATH in the
/// address-space-limited child. Before the read-cap `fix:` `load_checkpoint` read the whole file into memory first.
fn run_decbig(cx: &mut Ctx, work: &Path, limit: Option<u64>) {
    let cap = ironbeam::checkpoint::MAX_CHECKPOINT_FILE_BYTES as usize;
    let dlimit = ironbeam::checkpoint::MAX_CHECKPOINT_DECODE_BYTES;
    let a = short_base_a();
    let b = short_base_b();
    let (mx, mx_bytes) = maximal_record(0);
    let (_, over_bytes) = maximal_record(1);
    let mib = 1usize << 20;
    // (head, base state if the file must load as it, fill, total, tag)
    let mut files: Vec<(Vec<u8>, Option<St>, u8, usize, &'static str)> = vec![
        (a.gen_encode().0, Some(a.clone()), 0, 256 * mib, "sparse-256MiB-behind-a-valid-record"),
        (vec![], None, 0, 300 * mib, "sparse-300MiB-of-zeros"),
        (b.gen_encode().0, Some(b.clone()), 0xff, 64 * mib + 1, "64MiB+1-of-0xff-behind-a-valid-record"),
        (a.gen_encode().0[..40].to_vec(), None, 0, 128 * mib, "sparse-128MiB-behind-a-truncated-record"),
        (mx_bytes.clone(), Some(mx.clone()), 0, mx_bytes.len(), "maximal-record(limit+8 bytes, claims = limit)"),
        (mx_bytes.clone(), Some(mx.clone()), 0, 200 * mib, "maximal-record-then-200MiB"),
        (over_bytes.clone(), None, 0, over_bytes.len(), "record-one-byte-over-the-decode-limit"),
    ];
    for total in [dlimit + 7, dlimit + 8, dlimit + 9, cap - 1, cap, cap + 1] {
        files.push((a.gen_encode().0, Some(a.clone()), 0, total, "valid-record-padded-to-the-cap-boundary"));
        files.push((mx_bytes[..mx_bytes.len().min(total)].to_vec(), if total >= mx_bytes.len() { Some(mx.clone()) } else { None }, 0, total.max(mx_bytes.len().min(total)), "maximal-record-cut-or-padded-at-the-cap-boundary"));
    }
    if cx.tier != crate::ctx::Tier::Quick {
        files.push((a.gen_encode().0, Some(a.clone()), 0, 2048 * mib, "sparse-2GiB-behind-a-valid-record"));
        files.push((b"   ".to_vec(), None, 0, 1024 * mib + 3, "sparse-1GiB+3-behind-three-spaces"));
    }
    cx.exhaustive_blocks.push(format!(
        "CKPT-DECBIG: {} files loaded by path in the {}: sparse files of 64 MiB .. {} behind a valid / truncated / empty record, the longest record that passes the decode limit ({} bytes = limit + 8) alone and followed by 200 MiB, one byte over it, and valid / maximal records cut or padded to limit+7, +8, +9, cap-1, cap, cap+1 bytes (cap = {cap})",
        files.len(),
        limit.map_or("unlimited child".to_string(), |k| format!("{} MiB address space", k / 1024)),
        if cx.tier == crate::ctx::Tier::Quick { "300 MiB" } else { "2 GiB" },
        mx_bytes.len()
    ));
    let path = work.join("big.bin");
    for (head, base, fill, total, tag) in files {
        let made = (|| -> std::io::Result<()> {
            let _ = std::fs::remove_file(&path);
            let mut f = std::fs::File::create(&path)?;
            f.write_all(&head)?;
            let rest = total - head.len();
            if fill == 0 {
                f.set_len(total as u64)?; // sparse
            } else {
                let chunk = vec![fill; mib.min(rest.max(1))];
                let mut left = rest;
                while left > 0 {
                    let n = left.min(chunk.len());
                    f.write_all(&chunk[..n])?;
                    left -= n;
                }
            }
            f.flush()
        })();
        if made.is_err() {
            let _ = std::fs::remove_file(&path);
            cx.count("decbig:dropped(file could not be created: no space?)");
            continue;
        }
        let args = vec!["decfile".to_string(), path.to_string_lossy().into_owned()];
        let run = |wd: u64| -> String {
            let (a, end) = run_child(limit, &args, 0, wd);
            match (a.into_iter().next(), end) {
                (Some(x), _) => x,
                (None, ChildEnd::Silent) => "HANG".into(),
                (None, ChildEnd::NotStarted) => "ERR io".into(),
                (None, ChildEnd::Exited(_)) => "ABORT".into(),
            }
        };
        let bad = |x: &str| x == "HANG" || x == "ABORT" || x == "PANIC" || x == "ERR io";
        let mut ans = run(CHILD_WATCHDOG_S);
        if bad(&ans) {
            // confirm by re-execution: a stalled machine or a transient I/O error is not a verdict
            let again = run(CHILD_RETRY_WATCHDOG_S);
            if again != ans {
                cx.notes.push(format!("CKPT-DECBIG {tag}: first execution answered {ans}, the re-execution {again} (taken)"));
                ans = again;
            }
        }
        let _ = std::fs::remove_file(&path);
        let i = cx.case(
            format!("CKPT-DECBIG head={} fill={} total={}", if head.is_empty() { "-".to_string() } else { hex(&head) }, fill, total),
            ans.clone(),
            true,
        );
        cx.count(&format!("decbig:{tag}"));
        if bad(&ans) {
            cx.oracle_fail(i, "load-of-large-file-crashes-or-exhausts-memory(read buffer of the file's size)", format!("{ans} on a {total}-byte file ({tag})"));
            continue;
        }
        let c = DecCase { bytes: vec![], base: base.clone(), pristine: base.is_some(), tag };
        dec_oracle(cx, i, &c, &ans);
    }
}

// ───────────────────────────── histories ─────────────────────────────

/// what an entry of the checkpoint directory is (symlinks followed once for the `LinkTo*` kinds)
#[derive(Clone, Copy, PartialEq, Eq, Debug, PartialOrd, Ord)]
enum Kind {
    File,
    LinkToFile,
    Dir,
    LinkToDir,
    Dangling,
    Special,
}
#[derive(Clone, Debug, PartialEq, Eq)]
struct Entry {
    name: String,
    kind: Kind,
    /// bytes of a regular file (through the symlink for `LinkToFile`)
    content: Vec<u8>,
    /// names inside a sub-directory (a save must never write there)
    inner: Vec<String>,
}

/// the whole directory, sorted bytewise by name
fn scan(dir: &Path) -> Vec<Entry> {
    let mut v: Vec<Entry> = std::fs::read_dir(dir)
        .map(|rd| {
            rd.filter_map(Result::ok)
                .filter_map(|e| {
                    let name = e.file_name().to_str()?.to_string();
                    let p = e.path();
                    let lm = std::fs::symlink_metadata(&p).ok()?;
                    let kind = if lm.file_type().is_symlink() {
                        match std::fs::metadata(&p) {
                            Ok(m) if m.is_file() => Kind::LinkToFile,
                            Ok(m) if m.is_dir() => Kind::LinkToDir,
                            Ok(_) => Kind::Special,
                            Err(_) => Kind::Dangling,
                        }
                    } else if lm.is_file() {
                        Kind::File
                    } else if lm.is_dir() {
                        Kind::Dir
                    } else {
                        Kind::Special
                    };
                    let content = if matches!(kind, Kind::File | Kind::LinkToFile) { std::fs::read(&p).unwrap_or_default() } else { vec![] };
                    let mut inner: Vec<String> = if kind == Kind::Dir {
                        std::fs::read_dir(&p).map(|rd| rd.filter_map(Result::ok).filter_map(|x| x.file_name().to_str().map(str::to_string)).collect()).unwrap_or_default()
                    } else {
                        vec![]
                    };
                    inner.sort();
                    Some(Entry { name, kind, content, inner })
                })
                .collect()
        })
        .unwrap_or_default();
    v.sort_by(|a, b| a.name.as_bytes().cmp(b.name.as_bytes()));
    v
}
/// the regular files (symlinks to regular files included) with their bytes: what the model's file system holds
fn files_of(es: &[Entry]) -> Vec<(String, Vec<u8>)> {
    es.iter().filter(|e| matches!(e.kind, Kind::File | Kind::LinkToFile)).map(|e| (e.name.clone(), e.content.clone())).collect()
}
/// everything else: sub-directories (with what is inside), symlinks to directories, dangling symlinks, sockets.
/// None of it is ever a checkpoint, whatever its name, and every operation must leave it alone.
fn others_of(es: &[Entry]) -> Vec<Entry> {
    es.iter().filter(|e| !matches!(e.kind, Kind::File | Kind::LinkToFile)).cloned().collect()
}
fn listing_c(dir: &Path) -> Vec<(String, Vec<u8>)> {
    files_of(&scan(dir))
}
fn others_oracle(cx: &mut Ctx, i: usize, before: &[Entry], after: &[Entry]) {
    if before != after {
        let show = |v: &[Entry]| v.iter().map(|e| format!("{:?}:{:?}{:?}", e.name, e.kind, e.inner)).collect::<Vec<_>>().join(" ");
        cx.oracle_fail(i, "operation-removes-creates-or-fills-a-directory-or-special-entry", format!("before [{}] after [{}]", show(before), show(after)));
    }
}
fn names_of(v: &[(String, Vec<u8>)]) -> Vec<String> {
    v.iter().map(|x| x.0.clone()).collect()
}
fn enc_names(v: &[String]) -> String {
    if v.is_empty() { "-".into() } else { v.iter().map(|n| hex(n.as_bytes())).collect::<Vec<_>>().join(",") }
}
/// `<hex name>` or `<hex name>:<hex content>` per file
fn enc_dir(v: &[(String, Vec<u8>)], with_content: bool) -> String {
    if v.is_empty() {
        return "-".into();
    }
    v.iter()
        .map(|(n, c)| if with_content { format!("{}:{}", hex(n.as_bytes()), hex(c)) } else { hex(n.as_bytes()) })
        .collect::<Vec<_>>()
        .join(",")
}
/// the oracle's definition of "a well-formed checkpoint file NAME of pipeline `pid`" and its stamp; a checkpoint is a
/// regular file (or a symlink to one: `Path::is_file` follows symlinks) with such a name
fn own_stamp(pid: &str, name: &str) -> Option<u64> {
    let rest = name.strip_prefix("checkpoint_")?.strip_prefix(pid)?.strip_prefix('_')?.strip_suffix(".bin")?;
    if rest.is_empty() || !rest.bytes().all(|b| b.is_ascii_digit()) {
        return None;
    }
    rest.parse::<u64>().ok()
}
fn own_files(pid: &str, names: &[String]) -> Vec<(u64, String)> {
    names.iter().filter_map(|n| own_stamp(pid, n).map(|t| (t, n.clone()))).collect()
}
fn has_tie(own: &[(u64, String)]) -> bool {
    let mut ts: Vec<u64> = own.iter().map(|x| x.0).collect();
    ts.sort_unstable();
    ts.windows(2).any(|w| w[0] == w[1])
}

const HIST_PIDS: &[&str] = &["p", "p_x", "p_7", "q", "", "p.bin", "a.b", "π", "p_x_y", "7"];

/// a pipeline id no normalisation leaves alone: mixed case, white space, long, non-ASCII, containing the literal
/// parts of the file name; always usable as part of a file name (no `/`, no NUL, at most 190 bytes)
fn rand_pid(rng: &mut Rng) -> String {
    let hexs = |rng: &mut Rng, n: usize| -> String { (0..n).map(|_| char::from_digit(rng.below(16) as u32, 16).unwrap()).collect() };
    match rng.below(9) {
        0 => rand_string(rng, 180, true, false),
        1 => rand_string(rng, 24, true, false),
        2 => (0..1 + rng.below(8)).map(|_| *rng.pick(&['a', 'B', 'c', 'D', 'P', 'p', 'Q', 'x', 'Z', 'é', 'É', 'ß', 'İ'])).collect(),
        3 => hexs(rng, 16), // the shape of `generate_pipeline_id`
        4 => {
            let n = 17 + rng.below(48);
            hexs(rng, n)
        }
        5 => {
            let a = *rng.pick(&["", " ", "\t", "\n", "  "]);
            let n = 1 + rng.below(6);
            let b = hexs(rng, n);
            let c = *rng.pick(&[" ", "\t", "\n", "  ", "\u{a0}"]);
            format!("{a}{b}{c}")
        }
        6 => {
            let a = *rng.pick(&["checkpoint_", "checkpoint", "x_checkpoint_", ""]);
            let n = rng.below(5);
            let b = hexs(rng, n);
            let c = *rng.pick(&["_checkpoint_", ".bin", "_7.bin", "_"]);
            format!("{a}{b}{c}")
        }
        7 => "L".repeat(150 + rng.below(41)),
        _ => format!("{}{}", *rng.pick(&["Pipe", "PIPE", "pipe", "Job-", "job-"]), rng.below(3)),
    }
}
/// set by `Hx::probe` when the scratch file system folds case: ids are then lower-cased, so that two ids never differ
/// by case only (their files would be one file)
static FOLD_CASE: std::sync::atomic::AtomicBool = std::sync::atomic::AtomicBool::new(false);
fn fold(s: String) -> String {
    if FOLD_CASE.load(std::sync::atomic::Ordering::Relaxed) { s.to_lowercase() } else { s }
}
fn hist_pid(rng: &mut Rng) -> String {
    fold(if rng.chance(1, 2) { (*rng.pick(HIST_PIDS)).to_string() } else { rand_pid(rng) })
}
/// ids that differ from `base` only by something a normalisation would remove or add: case, surrounding white space, a
/// suffix that makes one id extend the other, a common 16-byte prefix (the length of a generated pipeline id)
fn neighbours(base: &str) -> Vec<String> {
    let mut v = vec![
        base.to_uppercase(),
        base.to_lowercase(),
        format!(" {base}"),
        format!("{base} "),
        format!("{base}\n"),
        base.trim().to_string(),
        format!("{base}_x"),
        format!("{base}_7"),
        format!("checkpoint_{base}"),
        format!("{base}_"),
    ];
    let mut p16: String = base.chars().take_while({
        let mut n = 0usize;
        move |c| {
            n += c.len_utf8();
            n <= 16
        }
    }).collect();
    while p16.len() < 16 {
        p16.push('f');
    }
    v.push(p16.clone());
    v.push(format!("{p16}A"));
    v.push(format!("{p16}B"));
    let mut v: Vec<String> = v.into_iter().map(fold).collect();
    v.retain(|x| x != base && x.len() <= 200 && !x.contains('/') && !x.contains('\0'));
    v.sort();
    v.dedup();
    v
}
/// the pipelines of one history: a base id and up to two of its neighbours, or independent ids
fn pid_family(rng: &mut Rng) -> Vec<String> {
    let base = hist_pid(rng);
    let mut v = vec![base.clone()];
    let nb = neighbours(&base);
    for _ in 0..rng.below(3) {
        if rng.chance(2, 3) && !nb.is_empty() {
            v.push(rng.pick(&nb[..]).clone());
        } else {
            v.push(hist_pid(rng));
        }
    }
    v
}

/// look-alike / foreign names relative to a pipeline id: none of them is a well-formed checkpoint of `pid`
/// (some are well-formed checkpoints of ANOTHER pipeline, e.g. `<pid>_x`)
fn foreign_for(hx: &Hx, pid: &str) -> Vec<String> {
    let mut v: Vec<String> = [
        "garbage", "5.BIN", "+5", "-1", "", "5.bin.tmp", "99999999999999999999", "18446744073709551616", "5_6", "x_50", "7_50",
        "5.Bin", "1e3", " 4", "4 ", "٣", "0x10", "5.bin", "+", "+0", "5.", ".5",
    ]
    .iter()
    .map(|m| {
        if m.ends_with(".BIN") || m.ends_with(".Bin") || m.ends_with(".tmp") {
            format!("checkpoint_{pid}_{m}")
        } else {
            format!("checkpoint_{pid}_{m}.bin")
        }
    })
    .collect();
    v.push(format!("checkpoint_{pid}_5"));
    v.push(format!("checkpoint_{pid}_5bin"));
    v.push(format!("checkpoint_{pid}"));
    v.push(format!("checkpoint_{pid}5.bin"));
    v.push(format!("xcheckpoint_{pid}_9.bin"));
    if !hx.case_insensitive {
        v.push(format!("Checkpoint_{pid}_9.bin"));
        if pid.to_uppercase() != pid {
            v.push(format!("checkpoint_{}_9.bin", pid.to_uppercase()));
        }
        if pid.to_lowercase() != pid {
            v.push(format!("checkpoint_{}_9.bin", pid.to_lowercase()));
        }
    }
    v.push(format!("checkpoint_{pid}_9.bin "));
    v.push(format!("checkpoint_{pid}x_9.bin"));
    v.push(format!("checkpoint_ {pid}_9.bin"));
    v.push(format!("checkpoint_{pid} _9.bin"));
    if pid.trim() != pid {
        v.push(format!("checkpoint_{}_9.bin", pid.trim()));
    }
    v.push("notes.txt".into());
    v.push(".bin".into());
    v.retain(|n| own_stamp(pid, n).is_none() && hx.name_ok(n));
    v
}

fn hist_st(pid: &str, ts: u64) -> St {
    St { pid: pid.into(), idx: 1, ts, pc: 1, ck: String::new(), em: "sequential".into(), tn: 3, lnt: "Stateless".into(), pp: 33 }
        .with_valid_checksum()
}
fn max_str(m: Option<usize>) -> String {
    m.map_or("none".into(), |x| x.to_string())
}
fn tf(b: bool) -> &'static str {
    if b { "T" } else { "F" }
}

/// oracle shared by CKPT-SAVE / CKPT-SLL: what a save of `st` (file `new_name`) may do to a directory
#[allow(clippy::too_many_arguments)]
fn save_oracle(
    cx: &mut Ctx,
    i: usize,
    st: &St,
    max: Option<usize>,
    before: &[(String, Vec<u8>)],
    after: &[(String, Vec<u8>)],
    own_all: &[(u64, String)],
) {
    let pid = st.pid.as_str();
    let ts = st.ts;
    let new_name = format!("checkpoint_{pid}_{ts}.bin");
    let after_names = names_of(after);
    let before_names = names_of(before);
    // foreign / other pipelines' files untouched (name and content)
    for (n, c) in before {
        if *n == new_name {
            continue;
        }
        match after.iter().find(|x| x.0 == *n) {
            None => {
                if own_stamp(pid, n).is_none() {
                    cx.oracle_fail(i, "save-deletes-file-of-other-pipeline-or-foreign-file", format!("saving pid {pid:?} ts {ts} max {max:?} removed {n:?}"));
                }
            }
            Some((_, c2)) => {
                if c2 != c {
                    cx.oracle_fail(i, "save-changes-content-of-another-file", format!("saving pid {pid:?} ts {ts} changed the bytes of {n:?}"));
                }
            }
        }
    }
    for n in &after_names {
        if !before_names.contains(n) && *n != new_name {
            cx.oracle_fail(i, "save-creates-unexpected-file", n.clone());
        }
    }
    // the file just written holds the encoding of the state (generator-side bincode layout, itself compared with
    // the real bytes by every CKPT-ENC case)
    if let Some((_, c)) = after.iter().find(|x| x.0 == new_name) {
        if *c != st.gen_encode().0 {
            cx.oracle_fail(i, "saved-file-content-is-not-the-encoding", format!("{new_name}: {} bytes", c.len()));
        }
    }
    // bounded retention, newest kept (ties between two spellings of one stamp allowed: `>` is strict)
    let kept = own_files(pid, &after_names);
    let dropped: Vec<&(u64, String)> = own_all.iter().filter(|x| !after_names.contains(&x.1)).collect();
    match max {
        None => {
            if !dropped.is_empty() {
                cx.oracle_fail(i, "unbounded-retention-deletes", format!("{dropped:?}"));
            }
        }
        Some(m) => {
            if kept.len() > m {
                cx.oracle_fail(i, "more-than-max-own-checkpoints-remain", format!("max {m}, own files left {kept:?}"));
            }
            if kept.len() < m.min(own_all.len()) {
                cx.oracle_fail(i, "fewer-than-max-own-checkpoints-remain", format!("max {m}, own before+new {own_all:?}, left {kept:?}"));
            }
            if let (Some(dmax), Some(kmin)) = (dropped.iter().map(|x| x.0).max(), kept.iter().map(|x| x.0).min()) {
                if dmax > kmin {
                    cx.oracle_fail(i, "kept-checkpoints-are-not-the-newest", format!("dropped stamp {dmax} > kept stamp {kmin}"));
                }
            }
        }
    }
    if !dropped.is_empty() {
        cx.count("hist:save:deleted-some");
    }
}

/// One real `save_checkpoint` of `st` in `dir`. `with_content`: the request carries every file's bytes and the answer
/// the bytes of every file that is left (the model's file system then holds real contents), else names only.
/// When two spellings of one stamp (`7` / `07`) are present the survivor depends on `read_dir` order; the save is
/// still executed and judged, and compared with the model on order-independent facts (`CKPT-SAVE-TIE`).
/// A state whose file name the file system cannot hold must be refused with the directory unchanged.
fn op_save(cx: &mut Ctx, hx: &mut Hx, dir: &Path, st: &St, max: Option<usize>, with_content: bool, enabled: bool) {
    let pid = st.pid.as_str();
    let ts = st.ts;
    let before_e = scan(dir);
    let others_before = others_of(&before_e);
    let before = files_of(&before_e);
    let before_names = names_of(&before);
    let new_name = format!("checkpoint_{pid}_{ts}.bin");
    if before_e.iter().any(|e| e.name == new_name && e.kind != Kind::File) {
        // the file system refuses to create a file where a directory is, and writes THROUGH a symlink: not a
        // situation the property speaks about
        cx.count("hist:skipped(a directory / symlink / special entry has the name of the file to be saved)");
        return;
    }
    let name_ok = hx.name_ok(&new_name);
    let mut own_all = own_files(pid, &before_names);
    if !before_names.contains(&new_name) {
        own_all.push((ts, new_name.clone()));
    }
    let tie = name_ok && has_tie(&own_all);
    let state = st.to_real();
    let r = guarded(|| hx.mgr(dir, max, enabled).save_checkpoint(&state).map(|_| ()));
    match &r {
        Err(_) => hx.cached = None,
        Ok(Err(e)) if is_nospace(e) => {
            cx.count("env:save-dropped(no space left on the scratch file system)");
            return;
        }
        _ => {}
    }
    let after_e = scan(dir);
    let after = files_of(&after_e);
    let after_names = names_of(&after);
    let ok = matches!(r, Ok(Ok(())));
    let i = if tie {
        let other: Vec<String> = after_names.iter().filter(|n| own_stamp(pid, n).is_none()).cloned().collect();
        let answer = match &r {
            Err(_) => "PANIC".to_string(),
            Ok(Err(_)) => "ERR save".to_string(),
            Ok(Ok(())) => format!("OK own={} other={}", own_files(pid, &after_names).len(), enc_names(&other)),
        };
        cx.count("hist:save:tie(two spellings of one stamp)");
        cx.case(
            format!("CKPT-SAVE-TIE max={} nmax={} pid={} ts={} dir={}", max_str(max), hx.nmax, hex(pid.as_bytes()), ts, enc_names(&before_names)),
            answer,
            true,
        )
    } else {
        let answer = match &r {
            Err(_) => "PANIC".to_string(),
            Ok(Err(_)) => "ERR save".to_string(),
            Ok(Ok(())) => format!("OK {}", enc_dir(&after, with_content)),
        };
        cx.count(if with_content { "hist:save:with-file-contents" } else { "hist:save:names-only" });
        cx.case(
            format!(
                "CKPT-SAVE max={} c={} en={} nmax={} dir={} {}",
                max_str(max),
                tf(with_content),
                tf(enabled),
                hx.nmax,
                enc_dir(&before, with_content),
                st.fields()
            ),
            answer,
            before.len() >= 2,
        )
    };
    cx.count(&format!("hist:save:max={}", max_str(max)));
    if !enabled {
        cx.count("hist:save:by-a-disabled-manager");
    }
    if !name_ok {
        cx.count("hist:save:unusable-file-name");
        if !matches!(r, Ok(Err(_))) || after_e != before_e {
            cx.oracle_fail(
                i,
                "save-with-unusable-file-name-does-not-fail-cleanly",
                format!("pid {pid:?} ts {ts}: {}, directory {}", if ok { "Ok" } else { "panic" }, if after_e == before_e { "unchanged" } else { "CHANGED" }),
            );
        }
        return;
    }
    if !ok {
        if !enabled && matches!(r, Ok(Err(_))) {
            // the property does not say a DISABLED manager must save (today it does, and the model says so: a
            // refusal shows up as a model/implementation disagreement, not as an oracle failure)
            cx.count("hist:save:refused-by-a-disabled-manager");
            return;
        }
        cx.oracle_fail(i, "save-fails-or-panics", format!("pid {pid:?} ts {ts}"));
        return;
    }
    if hx.reuse {
        cx.count("hist:save:by-a-manager-that-saved-before");
    }
    save_oracle(cx, i, st, max, &before, &after, &own_all);
    others_oracle(cx, i, &others_before, &others_of(&after_e));
}

/// save ; find_latest ; load on the REAL code, in a directory with arbitrary other files
fn op_sll(cx: &mut Ctx, hx: &mut Hx, dir: &Path, st: &St, max: Option<usize>) {
    let pid = st.pid.as_str();
    let before_e = scan(dir);
    let others_before = others_of(&before_e);
    let before = files_of(&before_e);
    let before_names = names_of(&before);
    let new_name = format!("checkpoint_{pid}_{}.bin", st.ts);
    if before_e.iter().any(|e| e.name == new_name && e.kind != Kind::File) {
        cx.count("hist:skipped(a directory / symlink / special entry has the name of the file to be saved)");
        return;
    }
    if !hx.name_ok(&new_name) {
        return op_save(cx, hx, dir, st, max, true, true);
    }
    let mut own_all = own_files(pid, &before_names);
    if !before_names.contains(&new_name) {
        own_all.push((st.ts, new_name.clone()));
    }
    if has_tie(&own_all) {
        cx.count("sll:skipped(tie between two spellings of one stamp)");
        return;
    }
    let state = st.to_real();
    let r = guarded(|| -> anyhow::Result<Option<std::path::PathBuf>> {
        let m = hx.mgr(dir, max, true);
        m.save_checkpoint(&state)?;
        m.find_latest_checkpoint(pid)
    });
    match &r {
        Err(_) => hx.cached = None,
        Ok(Err(e)) if is_nospace(e) => {
            cx.count("env:save-dropped(no space left on the scratch file system)");
            return;
        }
        _ => {}
    }
    let after_e = scan(dir);
    let after = files_of(&after_e);
    let (answer, latest, la): (String, Option<Option<String>>, Option<String>) = match &r {
        Err(_) => ("PANIC".into(), None, None),
        Ok(Err(_)) => ("ERR save-or-latest".into(), None, None),
        Ok(Ok(None)) => ("OK latest=none".into(), Some(None), None),
        Ok(Ok(Some(p))) => {
            let name = p.file_name().and_then(|n| n.to_str()).unwrap_or("?").to_string();
            let m = manager(dir, max, true);
            let la = load_answer(guarded(|| m.load_checkpoint(p)));
            (format!("OK latest={} | {}", hex(name.as_bytes()), la), Some(Some(name)), Some(la))
        }
    };
    let i = cx.case(format!("CKPT-SLL max={} nmax={} dir={} {}", max_str(max), hx.nmax, enc_dir(&before, true), st.fields()), answer.clone(), true);
    cx.count(&format!("sll:max={}", max_str(max)));
    let Some(latest) = latest else {
        cx.oracle_fail(i, "save-or-latest-fails-or-panics", answer);
        return;
    };
    save_oracle(cx, i, st, max, &before, &after, &own_all);
    others_oracle(cx, i, &others_before, &others_of(&after_e));
    if let Some(n) = &latest {
        if let Some(e) = others_before.iter().find(|e| e.name == *n) {
            cx.oracle_fail(i, if e.kind == Kind::Dir { "latest-returns-a-directory" } else { "latest-returns-a-non-file-entry" }, format!("{n:?} ({:?})", e.kind));
            return;
        }
    }
    let want: Option<(u64, String)> = if max == Some(0) { None } else { own_all.iter().max_by_key(|x| x.0).cloned() };
    if latest != want.as_ref().map(|x| x.1.clone()) {
        cx.oracle_fail(i, "latest-after-save-is-not-greatest-timestamp", format!("latest({pid:?}) = {latest:?}, expected {want:?}"));
        return;
    }
    let (Some((wts, wname)), Some(la)) = (want, la) else {
        cx.count("sll:latest=none");
        return;
    };
    if wname == new_name {
        cx.count("sll:latest-is-the-new-file");
        let valid = st.ck == compute_checksum(st.meta_string().as_bytes());
        if valid && la != format!("OK {}", st.fields()) {
            cx.oracle_fail(i, "save-latest-load-not-field-for-field", format!("saved {} loaded {}", st.fields(), la));
        }
        if !valid && !la.starts_with("ERR") {
            cx.oracle_fail(i, "wrong-checksum-accepted", la);
        }
    } else {
        cx.count("sll:latest-is-an-older-file");
        if let Some(rest) = la.strip_prefix("OK ") {
            let toks: Vec<&str> = rest.split(' ').collect();
            match parse_fields(&toks) {
                Some(got) => {
                    if got.ck != compute_checksum(got.meta_string().as_bytes()) {
                        cx.oracle_fail(i, "accepted-state-with-wrong-checksum", la.clone());
                    }
                    // every loadable checkpoint file in these directories was written by a real save under its own
                    // name (hand-placed ones hold "foreign" / nothing / a symlink target's text)
                    if got.pid != pid || got.ts != wts {
                        cx.oracle_fail(i, "latest-file-holds-another-checkpoint", format!("{wname}: {}", got.fields()));
                    }
                }
                None => cx.oracle_fail(i, "unparsable-real-answer", la.clone()),
            }
        } else if la == "PANIC" {
            cx.oracle_fail(i, "load-panics-on-malformed-bytes", wname);
        }
    }
}

fn op_latest(cx: &mut Ctx, hx: &mut Hx, dir: &Path, pid: &str, enabled: bool) {
    let es = scan(dir);
    let names = names_of(&files_of(&es));
    let own = own_files(pid, &names);
    let tie = has_tie(&own);
    let r = guarded(|| hx.mgr(dir, Some(3), enabled).find_latest_checkpoint(pid));
    if r.is_err() {
        hx.cached = None;
    }
    let got: Option<Option<String>> = match &r {
        Ok(Ok(p)) => Some(p.as_ref().and_then(|p| p.file_name()).and_then(|n| n.to_str()).map(str::to_string)),
        _ => None,
    };
    let i = if tie {
        // which of two spellings of the greatest stamp is returned depends on `read_dir` order: compare the stamp
        let answer = match (&r, &got) {
            (Err(_), _) => "PANIC".to_string(),
            (Ok(Err(_)), _) => "ERR latest".to_string(),
            (_, Some(Some(n))) => own_stamp(pid, n).map_or(format!("FOREIGN {}", hex(n.as_bytes())), |t| format!("STAMP {t}")),
            _ => "NONE".to_string(),
        };
        cx.count("hist:latest:tie(two spellings of one stamp)");
        cx.case(format!("CKPT-LATEST-TIE en={} pid={} dir={}", tf(enabled), hex(pid.as_bytes()), enc_names(&names)), answer, true)
    } else {
        let answer = match (&r, &got) {
            (Err(_), _) => "PANIC".to_string(),
            (Ok(Err(_)), _) => "ERR latest".to_string(),
            (_, Some(Some(n))) => format!("SOME {}", hex(n.as_bytes())),
            _ => "NONE".to_string(),
        };
        cx.count(&format!("hist:latest:{}", answer.split(' ').next().unwrap_or("?")));
        cx.case(format!("CKPT-LATEST en={} pid={} dir={}", tf(enabled), hex(pid.as_bytes()), enc_names(&names)), answer, names.len() >= 2)
    };
    let want: Option<(u64, String)> = if enabled { own.iter().max_by_key(|x| x.0).cloned() } else { None };
    match got {
        None => cx.oracle_fail(i, "latest-fails-or-panics", format!("{pid:?}")),
        Some(g) => {
            let same = if tie {
                g.as_ref().and_then(|n| own_stamp(pid, n)) == want.as_ref().map(|x| x.0) && g.is_some() == want.is_some()
            } else {
                g == want.as_ref().map(|x| x.1.clone())
            };
            if !same {
                let others = others_of(&es);
                let sig = match (&g, &want) {
                    (Some(n), _) if others.iter().any(|e| e.name == *n && e.kind == Kind::Dir) => "latest-returns-a-directory",
                    (Some(n), _) if others.iter().any(|e| e.name == *n) => "latest-returns-a-non-file-entry",
                    (Some(n), _) if own_stamp(pid, n).is_none() => "latest-returns-foreign-or-other-pipelines-file",
                    (Some(_), Some(_)) => "latest-is-not-greatest-timestamp",
                    (None, Some(_)) => "latest-misses-existing-checkpoint",
                    _ => "latest-wrong",
                };
                cx.oracle_fail(i, sig, format!("latest({pid:?}) = {g:?}, expected {want:?} in {names:?}"));
            }
        }
    }
}

fn op_clear(cx: &mut Ctx, hx: &mut Hx, dir: &Path, pid: &str) {
    let before_e = scan(dir);
    let before_c = files_of(&before_e);
    let before = names_of(&before_c);
    let r = guarded(|| hx.mgr(dir, Some(3), true).clear_checkpoints(pid));
    if r.is_err() {
        hx.cached = None;
    }
    let after_e = scan(dir);
    let after_c = files_of(&after_e);
    let after = names_of(&after_c);
    let answer = match &r {
        Err(_) => "PANIC".to_string(),
        Ok(Err(_)) => "ERR clear".to_string(),
        Ok(Ok(())) => format!("OK {}", enc_names(&after)),
    };
    let i = cx.case(format!("CKPT-CLEAR pid={} dir={}", hex(pid.as_bytes()), enc_names(&before)), answer.clone(), before.len() >= 2);
    cx.count("hist:clear");
    if !matches!(r, Ok(Ok(()))) {
        cx.oracle_fail(i, "clear-fails-or-panics", answer);
        return;
    }
    for (n, c) in &before_c {
        let own = own_stamp(pid, n).is_some();
        let left = after_c.iter().find(|x| x.0 == *n);
        if own && left.is_some() {
            cx.oracle_fail(i, "clear-leaves-own-checkpoint", n.clone());
        }
        if !own && left.is_none() {
            cx.oracle_fail(i, "clear-deletes-file-of-other-pipeline-or-foreign-file", format!("clear({pid:?}) removed {n:?}"));
        }
        if let Some((_, c2)) = left {
            if c2 != c {
                cx.oracle_fail(i, "clear-changes-content-of-another-file", n.clone());
            }
        }
    }
    for n in &after {
        if !before.contains(n) {
            cx.oracle_fail(i, "clear-creates-a-file", n.clone());
        }
    }
    others_oracle(cx, i, &others_of(&before_e), &others_of(&after_e));
}

/// the operations on a configured directory that does not exist (`!missing`) or is a regular file (`!notdir`).
/// The manager is created while the directory is there (`new` creates it when enabled), then the directory goes.
fn op_dirstate(cx: &mut Ctx, hx: &Hx, notdir: bool, enabled: bool, what: &str, pid: &str) {
    let tmp = tmpdir();
    let p = tmp.path().join("ck");
    let _ = std::fs::create_dir_all(&p);
    let mut m = manager(&p, Some(2), enabled);
    let _ = std::fs::remove_dir(&p);
    if notdir && std::fs::write(&p, b"not a directory").is_err() {
        return;
    }
    let tok = if notdir { "!notdir" } else { "!missing" };
    let st = hist_st(pid, 5);
    let (req, answer): (String, String) = match what {
        "latest" => {
            let r = guarded(|| m.find_latest_checkpoint(pid));
            let a = match r {
                Err(_) => "PANIC".to_string(),
                Ok(Err(_)) => "ERR latest".into(),
                Ok(Ok(None)) => "NONE".into(),
                Ok(Ok(Some(x))) => format!("SOME {}", hex(x.file_name().and_then(|n| n.to_str()).unwrap_or("?").as_bytes())),
            };
            (format!("CKPT-LATEST en={} pid={} dir={tok}", tf(enabled), hex(pid.as_bytes())), a)
        }
        "clear" => {
            let r = guarded(|| m.clear_checkpoints(pid));
            let a = match r {
                Err(_) => "PANIC".to_string(),
                Ok(Err(_)) => "ERR clear".into(),
                Ok(Ok(())) => "OK -".into(),
            };
            (format!("CKPT-CLEAR pid={} dir={tok}", hex(pid.as_bytes())), a)
        }
        _ => {
            let real = st.to_real();
            let r = guarded(|| m.save_checkpoint(&real).map(|_| ()));
            let a = match r {
                Err(_) => "PANIC".to_string(),
                Ok(Err(_)) => "ERR save".into(),
                Ok(Ok(())) => "OK (saved)".into(),
            };
            (format!("CKPT-SAVE max=2 c=F en={} nmax={} dir={tok} {}", tf(enabled), hx.nmax, st.fields()), a)
        }
    };
    let i = cx.case(req, answer.clone(), true);
    cx.count(&format!("dirstate:{what}:{tok}"));
    // the path is what it was: nothing was created in its place
    let same = if notdir { std::fs::read(&p).ok().as_deref() == Some(&b"not a directory"[..]) } else { !p.exists() };
    if answer == "PANIC" {
        cx.oracle_fail(i, "operation-on-unusable-directory-panics", format!("{what} on {tok}"));
    } else if !same {
        cx.oracle_fail(i, "operation-on-unusable-directory-changes-the-path", format!("{what} on {tok}"));
    } else if what == "latest" && !notdir && answer != "NONE" {
        // no directory, hence no checkpoint: the lookup's answer is "none", not a failure
        cx.oracle_fail(i, "latest-on-missing-directory-is-not-none", answer);
    } else if what == "latest" && !enabled && answer != "NONE" {
        cx.oracle_fail(i, "latest-of-disabled-manager-is-not-none", answer);
    } else if what == "save" && answer != "ERR save" {
        cx.oracle_fail(i, "save-into-unusable-directory-does-not-fail", answer);
    }
}

fn place_dir(dir: &Path, name: &str) -> bool {
    std::fs::create_dir(dir.join(name)).is_ok()
}
fn place_bytes(dir: &Path, name: &str, content: &[u8]) -> bool {
    std::fs::write(dir.join(name), content).is_ok()
}
fn place(dir: &Path, name: &str) -> bool {
    place_bytes(dir, name, b"foreign")
}
/// a symlink whose target lives OUTSIDE the checkpoint directory: to a regular file, to a directory, to nothing
fn place_link(hx: &mut Hx, dir: &Path, name: &str, to: Kind) -> bool {
    hx.n_targets += 1;
    let target = hx.targets.path().join(format!("t{}", hx.n_targets));
    let made = match to {
        Kind::LinkToFile => std::fs::write(&target, format!("target {}", hx.n_targets)).is_ok(),
        Kind::LinkToDir => std::fs::create_dir(&target).is_ok(),
        _ => true,
    };
    made && std::os::unix::fs::symlink(&target, dir.join(name)).is_ok()
}
/// a socket file (a special file that needs no libc call); fails for paths longer than `sun_path`
fn place_socket(dir: &Path, name: &str) -> bool {
    std::os::unix::net::UnixListener::bind(dir.join(name)).is_ok()
}
/// plant `name` as one of: 7 bytes "foreign" (most), zero-length file, symlink to a file / a directory / nothing,
/// socket, directory
fn place_some_kind(cx: &mut Ctx, hx: &mut Hx, dir: &Path, name: &str) {
    if dir.join(name).symlink_metadata().is_ok() || !hx.name_ok(name) {
        return;
    }
    let (tag, ok) = match cx.rng.below(20) {
        0 | 1 => ("zero-length-file", place_bytes(dir, name, b"")),
        2 | 3 => ("symlink-to-file", place_link(hx, dir, name, Kind::LinkToFile)),
        4 => ("symlink-to-directory", place_link(hx, dir, name, Kind::LinkToDir)),
        5 => ("dangling-symlink", place_link(hx, dir, name, Kind::Dangling)),
        6 => ("socket", place_socket(dir, name)),
        7 => ("directory", place_dir(dir, name)),
        _ => ("file", place(dir, name)),
    };
    cx.count(&if ok { format!("hist:place:{tag}") } else { format!("hist:place-failed:{tag}") });
}

fn rand_ts(rng: &mut Rng) -> u64 {
    match rng.below(8) {
        0 => *rng.pick(&[0u64, 1, 9, 10, 99, 100, u64::MAX, u64::MAX - 1, 1 << 63]),
        1 => rng.next_u64(),
        _ => rng.below(40) as u64,
    }
}
const MAXES: &[Option<usize>] = &[None, Some(0), Some(1), Some(2), Some(3), Some(5), Some(10)];

/// a state for the save ; latest ; load composition: pipeline id given (it decides which files interact),
/// everything else random (unicode strings, numbers at the extremes)
fn sll_state(rng: &mut Rng, pid: &str, ts: u64) -> St {
    let max_str = if rng.chance(1, 8) { 4096 } else { 40 };
    let mut st = rand_state(rng, max_str, true, false);
    st.pid = pid.to_string();
    st.ts = ts;
    st.with_valid_checksum()
}

fn run_hist(cx: &mut Ctx, hx: &mut Hx) {
    // (1) design witnesses (DESIGN §8 #9)
    {
        let tmp = tmpdir();
        place(tmp.path(), "checkpoint_p_x_50.bin");
        for ts in [60u64, 70, 80] {
            op_save(cx, hx, tmp.path(), &hist_st("p", ts), Some(2), true, true);
        }
        let tmp2 = tmpdir();
        place(tmp2.path(), "checkpoint_q_garbage.bin");
        op_latest(cx, hx, tmp2.path(), "q", true);
        op_save(cx, hx, tmp2.path(), &hist_st("q", 5), Some(1), true, true);
        op_latest(cx, hx, tmp2.path(), "q", true);
        op_clear(cx, hx, tmp2.path(), "q");
        // out-of-order stamps, one pipeline
        let tmp3 = tmpdir();
        for ts in [50u64, 10, 40, 20, 30, 9, 100] {
            op_save(cx, hx, tmp3.path(), &hist_st("p", ts), Some(3), true, true);
            op_latest(cx, hx, tmp3.path(), "p", true);
        }
        op_latest(cx, hx, tmp3.path(), "p", false);
        // save ; latest ; load: newer than everything, older than everything, in between, re-save of an existing
        // stamp, retention 0 / 1 / none, another pipeline's and foreign files present
        place(tmp3.path(), "checkpoint_p_x_500.bin");
        place(tmp3.path(), "checkpoint_p_garbage.bin");
        for (ts, max) in [(200u64, Some(3usize)), (1, Some(3)), (150, Some(2)), (150, Some(2)), (u64::MAX, Some(1)), (7, Some(0)), (8, None), (0, Some(1))] {
            let mut st = short_base_b();
            st.pid = "p".into();
            st.ts = ts;
            op_sll(cx, hx, tmp3.path(), &st.with_valid_checksum(), max);
        }
        // a DIRECTORY that carries a well-formed checkpoint name is not a checkpoint: it is neither counted nor
        // returned (before the `fix:` a save with max=1 deleted the file it had just written and latest was the directory)
        let tmp5 = tmpdir();
        place_dir(tmp5.path(), "checkpoint_p_9.bin");
        op_latest(cx, hx, tmp5.path(), "p", true);
        op_save(cx, hx, tmp5.path(), &hist_st("p", 5), Some(1), true, true);
        op_latest(cx, hx, tmp5.path(), "p", true);
        op_sll(cx, hx, tmp5.path(), &hist_st("p", 6), Some(1));
        op_save(cx, hx, tmp5.path(), &hist_st("p", 7), Some(0), true, true);
        place_dir(tmp5.path(), "checkpoint_p_1.bin");
        op_sll(cx, hx, tmp5.path(), &hist_st("p", 3), Some(2));
        op_clear(cx, hx, tmp5.path(), "p");
        // two spellings of one stamp: the save is executed and judged, the model compared on order-independent facts
        let tmp4 = tmpdir();
        place(tmp4.path(), "checkpoint_p_07.bin");
        op_save(cx, hx, tmp4.path(), &hist_st("p", 7), Some(1), true, true);
        op_latest(cx, hx, tmp4.path(), "p", true);
        place(tmp4.path(), "checkpoint_p_007.bin");
        op_save(cx, hx, tmp4.path(), &hist_st("p", 3), Some(2), true, true);
        op_latest(cx, hx, tmp4.path(), "p", true);
        op_save(cx, hx, tmp4.path(), &hist_st("p", 9), Some(0), true, true);
    }
    // (1a) what counts as a checkpoint FILE: a well-formed name planted as each kind of entry, with the greatest stamp
    // (99) and with the smallest (0). Regular files — also empty ones — and symlinks to regular files are checkpoints
    // (`Path::is_file` follows symlinks); directories, symlinks to directories, dangling symlinks and sockets are not.
    {
        let mut n = 0usize;
        for kind in 0..7 {
            for stamp in [99u64, 0] {
                let tmp = tmpdir();
                let dir = tmp.path();
                let name = format!("checkpoint_p_{stamp}.bin");
                let ok = match kind {
                    0 => place_bytes(dir, &name, b""),
                    1 => place_link(hx, dir, &name, Kind::LinkToFile),
                    2 => place_link(hx, dir, &name, Kind::LinkToDir),
                    3 => place_link(hx, dir, &name, Kind::Dangling),
                    4 => place_socket(dir, &name),
                    5 => place_dir(dir, &name),
                    _ => place(dir, &name),
                };
                if !ok {
                    cx.count("hist:place-failed:kind-witness");
                    continue;
                }
                place(dir, "checkpoint_p_x_7.bin");
                op_latest(cx, hx, dir, "p", true);
                op_save(cx, hx, dir, &hist_st("p", 5), Some(1), true, true);
                op_latest(cx, hx, dir, "p", true);
                op_sll(cx, hx, dir, &hist_st("p", 6), Some(2));
                op_save(cx, hx, dir, &hist_st("p", 4), Some(0), true, true);
                op_sll(cx, hx, dir, &hist_st("p", 3), None);
                op_clear(cx, hx, dir, "p");
                n += 1;
            }
        }
        cx.exhaustive_blocks.push(format!(
            "CKPT-HIST: a well-formed checkpoint name (greatest stamp 99 / smallest stamp 0) planted as each of 7 kinds of directory entry (empty file, symlink to a file, symlink to a directory, dangling symlink, socket, directory, 7-byte file) next to another pipeline's file: latest, save max=1, latest, save;latest;load max=2, save max=0, save;latest;load max=None, clear ({n} directories)"
        ));
    }
    // (1c) pipeline ids the file system cannot hold in one entry name: `/` (with and without a matching
    // sub-directory — before the `fix:` the save then went INTO the sub-directory and escaped retention and lookup),
    // NUL, names longer than NAME_MAX (boundary: exactly NAME_MAX is fine). Expected: `Err`, directory unchanged.
    {
        let long_ok = "n".repeat(hx.nmax - "checkpoint__5.bin".len());
        let long_bad = format!("{long_ok}n");
        let ids: Vec<String> = vec![
            "a/b".into(), "a/".into(), "/b".into(), "/".into(), "../x".into(), "a/b/c".into(), "..".into(), ".".into(),
            "a\0b".into(), "\0".into(), "x".repeat(300), "é".repeat(150), long_ok, long_bad, "a\\b".into(),
        ];
        let mut n = 0usize;
        for pid in &ids {
            for with_sub in [false, true] {
                let tmp = tmpdir();
                let dir = tmp.path();
                place(dir, "checkpoint_a_3.bin");
                place(dir, "notes.txt");
                if with_sub {
                    // every directory the OS would walk through for this id
                    let name = format!("checkpoint_{pid}_5.bin");
                    if let Some((parent, _)) = name.rsplit_once('/') {
                        if !parent.contains('\0') {
                            let _ = std::fs::create_dir_all(dir.join(parent.trim_start_matches('/')));
                        }
                    } else {
                        continue;
                    }
                }
                for (ts, max) in [(5u64, Some(1usize)), (6, Some(1)), (7, None)] {
                    op_save(cx, hx, dir, &hist_st(pid, ts), max, true, ts != 6);
                }
                op_latest(cx, hx, dir, pid, true);
                op_clear(cx, hx, dir, pid);
                n += 1;
            }
            one_enc(cx, hx, &hist_st(pid, 9), true);
        }
        cx.exhaustive_blocks.push(format!(
            "CKPT-HIST: {} pipeline ids at / beyond what one entry name can hold (`/` in 8 positions incl. `..`, NUL, 300 bytes, name length exactly NAME_MAX = {} and NAME_MAX+1, backslash), each alone and with the sub-directories the OS would resolve the `/` into: three saves (max 1, 1, None; one by a disabled manager), latest, clear, and a CKPT-ENC ({n} directories)",
            ids.len(),
            hx.nmax
        ));
    }
    // (1d) the configured directory is missing / is a regular file
    for notdir in [false, true] {
        for enabled in [true, false] {
            for what in ["latest", "clear", "save"] {
                op_dirstate(cx, hx, notdir, enabled, what, "p");
            }
        }
    }
    // (1e) the default retention (`CheckpointConfig::default().max_checkpoints`, 10) under ONE manager that performs
    // the whole history (the real usage), ascending then out-of-order stamps
    {
        let dmax = CheckpointConfig::default().max_checkpoints;
        hx.reuse = true;
        let tmp = tmpdir();
        for ts in (1..=13u64).chain([3, 40, 2, 39, 41, 0]) {
            op_save(cx, hx, tmp.path(), &hist_st("deadbeefdeadbeef", ts), dmax, ts % 4 == 0, true);
        }
        op_latest(cx, hx, tmp.path(), "deadbeefdeadbeef", true);
        op_sll(cx, hx, tmp.path(), &hist_st("deadbeefdeadbeef", 38), dmax);
        hx.reuse = false;
        hx.cached = None;
    }
    // (1b) every look-alike name, alone and all together, for several pipeline ids
    let mut n_look = 0usize;
    let look_pids = ["p", "p_x", "", "a.b", "7", "Pq", " p ", "0123456789abcdef0"];
    for pid in look_pids {
        let look = foreign_for(hx, pid);
        for f in &look {
            let tmp = tmpdir();
            if !place(tmp.path(), f) {
                cx.count("hist:place-failed:look-alike");
                continue;
            }
            op_latest(cx, hx, tmp.path(), pid, true);
            op_save(cx, hx, tmp.path(), &hist_st(pid, 1), Some(0), true, true);
            op_save(cx, hx, tmp.path(), &hist_st(pid, 7), Some(1), true, true);
            op_latest(cx, hx, tmp.path(), pid, true);
            let st = sll_state(&mut cx.rng, pid, 8);
            op_sll(cx, hx, tmp.path(), &st, Some(1));
            op_clear(cx, hx, tmp.path(), pid);
            n_look += 1;
        }
        let tmp = tmpdir();
        for f in &look {
            place(tmp.path(), f);
        }
        for (ts, max) in [(5u64, Some(2usize)), (3, Some(2)), (9, Some(2)), (4, Some(1)), (2, Some(0)), (6, None)] {
            op_save(cx, hx, tmp.path(), &hist_st(pid, ts), max, true, true);
            op_latest(cx, hx, tmp.path(), pid, true);
        }
        let st = sll_state(&mut cx.rng, pid, 7);
        op_sll(cx, hx, tmp.path(), &st, Some(2));
        op_clear(cx, hx, tmp.path(), pid);
    }
    cx.exhaustive_blocks.push(format!(
        "CKPT-HIST: each of the look-alike file names (non-numeric / signed / overflowing / upper-case / nested stamps, other pipelines extending the id, case / white-space variants of the id, ...) alone in a directory x {} pipeline ids (incl. mixed case, surrounding spaces, 17 bytes): latest, save max=0, save max=1, latest, save;latest;load, clear ({n_look} directories, file contents carried), plus all of them together under a 6-save history",
        look_pids.len()
    ));
    // (2) exhaustive small scope: all save histories of length <= L over 2 pids x 3 stamps, every max in {None,0,1,2}
    let len = if cx.tier == crate::ctx::Tier::Quick { 4 } else { 5 };
    let alphabet: Vec<(&str, u64)> = vec![("p", 1), ("p", 2), ("p", 10), ("p_x", 1), ("p_x", 2), ("p_x", 10)];
    let mut count = 0usize;
    let mut n_sll = 0usize;
    for max in [None, Some(0usize), Some(1), Some(2)] {
        let mut idx = vec![0usize; len];
        'outer: loop {
            for l in 1..=len {
                // histories are prefixes; run only full-length ones plus shorter ones once (when tail is all zero)
                if l < len && idx[l..].iter().any(|&x| x != 0) {
                    continue;
                }
                let tmp = tmpdir();
                place(tmp.path(), "checkpoint_p_zz.bin");
                // every other history is performed by ONE manager
                hx.reuse = count % 2 == 1;
                for &k in &idx[..l] {
                    let (pid, ts) = alphabet[k];
                    // file contents travel with the short histories (the long ones are the bulk: names only)
                    op_save(cx, hx, tmp.path(), &hist_st(pid, ts), max, l <= 3, true);
                }
                op_latest(cx, hx, tmp.path(), "p", true);
                op_latest(cx, hx, tmp.path(), "p_x", true);
                if l <= 3 {
                    // then save ; latest ; load of a state that is newer (5) / older (0) than some of what is there
                    let (pid, ts) = if count % 2 == 0 { ("p", 5) } else { ("p_x", 0) };
                    op_sll(cx, hx, tmp.path(), &hist_st(pid, ts), max);
                    n_sll += 1;
                }
                hx.reuse = false;
                hx.cached = None;
                count += 1;
            }
            let mut j = 0;
            loop {
                if j == len {
                    break 'outer;
                }
                idx[j] += 1;
                if idx[j] < alphabet.len() {
                    break;
                }
                idx[j] = 0;
                j += 1;
            }
        }
    }
    cx.exhaustive_blocks.push(format!(
        "CKPT-HIST: all save histories of length <= {len} over pipelines {{p, p_x}} x stamps {{1,2,10}} with a foreign file present, max in {{None,0,1,2}}, latest of both pipelines after each ({count} histories, every other one performed by a single manager; those of length <= 3 with file contents and followed by a real save;latest;load: {n_sll})"
    ));
    // (2b) save ; latest ; load of random states (unicode, extremes) into small random directories; pipeline ids:
    // half from the fixed list, half random (mixed case, white space, long, unicode) with their neighbours around
    let rounds = cx.budget(300, 6000);
    for _ in 0..rounds {
        let tmp = tmpdir();
        let dir = tmp.path();
        let fam = pid_family(&mut cx.rng);
        let pid = fam[0].clone();
        let max = *cx.rng.pick(MAXES);
        for _ in 0..cx.rng.below(3) {
            let look = foreign_for(hx, &pid);
            let f: String = cx.rng.pick(&look[..]).clone();
            place(dir, &f);
        }
        for _ in 0..cx.rng.below(4) {
            let other = if cx.rng.chance(1, 2) { pid.clone() } else { cx.rng.pick(&fam[..]).clone() };
            let ts = rand_ts(&mut cx.rng);
            op_save(cx, hx, dir, &hist_st(&other, ts), max, true, true);
        }
        for _ in 0..1 + cx.rng.below(3) {
            let ts = rand_ts(&mut cx.rng);
            let mut st = sll_state(&mut cx.rng, &pid, ts);
            if cx.rng.chance(1, 12) {
                st.ck = rand_string(&mut cx.rng, 70, false, false);
            }
            op_sll(cx, hx, dir, &st, max);
        }
    }
    // (2c) two spellings of one stamp (`7`, `07`, `007`): the saves and look-ups are executed and judged by the
    // oracle (bound, newest kept up to ties, foreign files untouched, latest has the greatest stamp); the model is
    // compared on the order-independent facts
    let rounds = cx.budget(150, 3000);
    for _ in 0..rounds {
        let tmp = tmpdir();
        let dir = tmp.path();
        let pid = hist_pid(&mut cx.rng);
        let mut max = *cx.rng.pick(MAXES);
        for _ in 0..1 + cx.rng.below(3) {
            let zeros = "0".repeat(1 + cx.rng.below(2));
            let t = cx.rng.below(5);
            place(dir, &format!("checkpoint_{pid}_{zeros}{t}.bin"));
        }
        if cx.rng.chance(1, 2) {
            let look = foreign_for(hx, &pid);
            let f: String = cx.rng.pick(&look[..]).clone();
            place(dir, &f);
        }
        for _ in 0..2 + cx.rng.below(4) {
            match cx.rng.below(4) {
                0 => op_latest(cx, hx, dir, &pid, true),
                1 => max = *cx.rng.pick(MAXES),
                _ => {
                    let ts = cx.rng.below(5) as u64;
                    op_save(cx, hx, dir, &hist_st(&pid, ts), max, false, true);
                }
            }
        }
        op_latest(cx, hx, dir, &pid, true);
    }
    // (3) random histories over a family of pipeline ids (a base id and ids a normalisation would confuse with it)
    let rounds = cx.budget(1000, 20000);
    for _ in 0..rounds {
        let tmp = tmpdir();
        let dir = tmp.path();
        let pids = pid_family(&mut cx.rng);
        let mut max = *cx.rng.pick(MAXES);
        // one history in three carries the file contents through the model; one in two is performed by one manager
        let with_content = cx.rng.chance(1, 3);
        hx.reuse = cx.rng.chance(1, 2);
        if pids.iter().any(|p| !HIST_PIDS.contains(&p.as_str())) {
            cx.count("hist:history-with-random-pipeline-ids");
        }
        for _ in 0..cx.rng.below(4) {
            let look = foreign_for(hx, cx.rng.pick(&pids[..]).as_str());
            let f: String = cx.rng.pick(&look[..]).clone();
            place(dir, &f);
            cx.count("hist:place-foreign");
        }
        if cx.rng.chance(1, 6) {
            let ts = rand_ts(&mut cx.rng);
            let p = cx.rng.pick(&pids[..]).clone();
            place_dir(dir, &format!("checkpoint_{p}_{ts}.bin"));
            cx.count("hist:place-directory-with-checkpoint-name");
        }
        let ops = 1 + cx.rng.below(12);
        for _ in 0..ops {
            let pid = cx.rng.pick(&pids[..]).clone();
            match cx.rng.below(13) {
                0..=5 => {
                    let ts = rand_ts(&mut cx.rng);
                    let en = !cx.rng.chance(1, 10);
                    op_save(cx, hx, dir, &hist_st(&pid, ts), max, with_content, en);
                }
                6 | 7 => {
                    let en = !cx.rng.chance(1, 8);
                    op_latest(cx, hx, dir, &pid, en);
                }
                8 => op_clear(cx, hx, dir, &pid),
                9 => {
                    let look = foreign_for(hx, &pid);
                    let f: String = cx.rng.pick(&look[..]).clone();
                    place(dir, &f);
                    cx.count("hist:place-foreign");
                }
                10 => {
                    // a well-formed name of a (possibly different) pipeline planted by hand — as a 7-byte file, an empty
                    // file, a symlink, a socket or a directory —, sometimes with leading zeros
                    let other = if cx.rng.chance(1, 2) { pid.clone() } else { hist_pid(&mut cx.rng) };
                    let zero = cx.rng.chance(1, 3);
                    // a second spelling of a small stamp of one of the history's own pipelines => ties do occur
                    let ts = if zero && cx.rng.chance(2, 3) { cx.rng.below(6) as u64 } else { rand_ts(&mut cx.rng) };
                    let name = if zero { format!("checkpoint_{other}_0{ts}.bin") } else { format!("checkpoint_{other}_{ts}.bin") };
                    place_some_kind(cx, hx, dir, &name);
                    cx.count("hist:place-wellformed");
                }
                11 => {
                    let ts = rand_ts(&mut cx.rng);
                    let st = sll_state(&mut cx.rng, &pid, ts);
                    op_sll(cx, hx, dir, &st, max);
                }
                _ => {
                    max = *cx.rng.pick(MAXES);
                    cx.count("hist:change-max");
                }
            }
        }
        hx.reuse = false;
        hx.cached = None;
    }
}

// ───────────────────────────── should_checkpoint (clock-free policies) ─────────────────────────────

fn run_policy(cx: &mut Ctx) {
    use std::time::{Duration, Instant, SystemTime};
    let ns: Vec<usize> = vec![0, 1, 2, 3, 5];
    let mut pols: Vec<(String, CheckpointPolicy)> = vec![("barrier".into(), CheckpointPolicy::AfterEveryBarrier)];
    for &n in &ns {
        pols.push((format!("every:{n}"), CheckpointPolicy::EveryNNodes(n)));
    }
    for secs in [0u64, 5, 10, 100] {
        pols.push((format!("time:{secs}"), CheckpointPolicy::TimeInterval(secs)));
        pols.push((format!("hybrid:T:{secs}"), CheckpointPolicy::Hybrid { barriers: true, interval_secs: secs }));
        pols.push((format!("hybrid:F:{secs}"), CheckpointPolicy::Hybrid { barriers: false, interval_secs: secs }));
    }
    // the last checkpoint time relative to "now": never / 10 s ago / 100 s in the future (clock went backwards).
    // Margins are seconds wide and the call takes microseconds; an execution during which the process was stalled
    // for more than a second, or the wall clock jumped by more than a second, is repeated (up to 20 times).
    let lasts: Vec<&str> = vec!["none", "ago:10", "future:100"];
    let mut repeated = 0usize;
    for enabled in [true, false] {
        for barrier in [true, false] {
            for idx in 0..8usize {
                for (name, pol) in &pols {
                    let clocked = name.starts_with("time") || name.starts_with("hybrid");
                    for last in &lasts {
                        if !clocked && *last != "none" {
                            continue;
                        }
                        if clocked && idx > 1 {
                            continue;
                        }
                        let mut a = "PANIC";
                        for attempt in 0..20 {
                            let (i0, w0) = (Instant::now(), SystemTime::now());
                            let r = guarded(|| {
                                let mut m = CheckpointManager::new(CheckpointConfig {
                                    enabled,
                                    directory: std::env::temp_dir(),
                                    policy: *pol,
                                    auto_recover: false,
                                    max_checkpoints: None,
                                })
                                .expect("manager");
                                m.last_checkpoint_time = match *last {
                                    "ago:10" => Some(SystemTime::now() - Duration::from_secs(10)),
                                    "future:100" => Some(SystemTime::now() + Duration::from_secs(100)),
                                    _ => None,
                                };
                                m.should_checkpoint(idx, barrier, 10)
                            });
                            a = match r {
                                Ok(true) => "T",
                                Ok(false) => "F",
                                Err(_) => "PANIC",
                            };
                            let mono = i0.elapsed();
                            let wall = SystemTime::now().duration_since(w0).unwrap_or(Duration::from_secs(u64::MAX / 4));
                            let jump = if wall > mono { wall - mono } else { mono - wall };
                            if !clocked || (mono < Duration::from_secs(1) && jump < Duration::from_secs(1)) {
                                break;
                            }
                            if attempt + 1 < 20 {
                                repeated += 1;
                            }
                        }
                        let i = cx.case(
                            format!("CKPT-POLICY en={} pol={} idx={} barrier={} last={}", tf(enabled), name, idx, tf(barrier), last),
                            a.into(),
                            false,
                        );
                        cx.count("policy");
                        if a == "PANIC" {
                            cx.oracle_fail(i, "should-checkpoint-panics", name.clone());
                        }
                    }
                }
            }
        }
    }
    if repeated > 0 {
        cx.notes.push(format!("{repeated} clock-dependent policy executions were repeated (the call took > 1 s or the wall clock jumped)"));
    }
}

pub fn run(cx: &mut Ctx) {
    let mut hx = Hx::probe(cx);
    // CKPT-ENC: corpus, then random states
    one_enc(cx, &hx, &short_base_a(), true);
    one_enc(cx, &hx, &short_base_b(), true);
    {
        let mut wrong = short_base_a();
        wrong.ck = "00".repeat(32);
        one_enc(cx, &hx, &wrong, true);
        for &n in NUM_EDGES {
            let s = St { idx: n, ts: n, pc: n, tn: n, ..short_base_a() }.with_valid_checksum();
            one_enc(cx, &hx, &s, true);
        }
        // the genuine checksum padded: must not load
        for ck in [format!("{} ", short_base_a().ck), format!(" {}", short_base_a().ck), format!("{0}{0}", short_base_a().ck)] {
            one_enc(cx, &hx, &St { ck, ..short_base_a() }, true);
        }
        // strings beyond 64 KiB (5-byte length prefix): valid files in every tier
        for (n_em, n_lnt) in [(70001usize, 65535usize), (65536, 65536)] {
            let s = St { em: "e".repeat(n_em), lnt: "\u{e9}".repeat(n_lnt / 2), ..short_base_a() }.with_valid_checksum();
            one_enc(cx, &hx, &s, true);
        }
    }
    let rounds = cx.budget(600, 8000);
    for k in 0..rounds {
        let big = cx.tier != crate::ctx::Tier::Quick && k % 100 == 0;
        let max_str = if cx.rng.chance(1, 6) { 4096 } else { 64 };
        // one pipeline id in twelve is NOT restricted to what a file name can hold (`/`, NUL, up to 4 KiB)
        let pid_safe = !cx.rng.chance(1, 12);
        let mut st = rand_state(&mut cx.rng, max_str, pid_safe, big);
        if cx.rng.chance(1, 10) {
            st.ck = rand_string(&mut cx.rng, 80, false, false);
        }
        one_enc(cx, &hx, &st, true);
    }
    run_dec(cx);
    run_hist(cx, &mut hx);
    run_policy(cx);
}
