//! C12 — checkpoint store: faithful round trip, integrity, bounded retention, true latest.
//!
//! Requests (all byte strings / names travel as lower-case hex of their UTF-8 bytes; `-` = empty list):
//!   CKPT-ENC  <fields>                         => `OK <hex file bytes> | <load answer>`   (real save_checkpoint + load_checkpoint)
//!   CKPT-DEC  <hex file bytes>                 => `OK <fields>` | `ERR <class>` | `PANIC` | `ABORT` | `HANG`   (real load_checkpoint, child process)
//!   CKPT-SAVE max=<none|n> c=<T|F> dir=<entries> <fields>   => `OK <entries after>`   (real save_checkpoint in a real directory;
//!             entries = `<name>` or, with c=T, `<name>:<hex content>`: the model's file system then holds the real bytes
//!             and the bytes of every file left after the clean-up are compared)
//!   CKPT-SAVE-TIE max= pid=<hex> ts=<n> dir=<names>          => `OK own=<#own files left> other=<names of the rest>`
//!             (two spellings of one stamp, `7`/`07`, present: the survivor depends on read_dir order, so the save is
//!             executed and judged by the oracle and the model is compared on the order-independent facts)
//!   CKPT-SLL  max=<none|n> dir=<entries with content> <fields> => `OK latest=none` | `OK latest=<name> | <load answer>`
//!             (real save_checkpoint ; find_latest_checkpoint ; load_checkpoint of the returned path)
//!   CKPT-LATEST en=<T|F> pid=<hex> dir=<names> => `SOME <name>` | `NONE`
//!   CKPT-LATEST-TIE en= pid= dir=<names>       => `STAMP <t>` | `NONE`
//!   CKPT-CLEAR pid=<hex> dir=<names>           => `OK <names after>`
//!   CKPT-POLICY en= pol=<barrier|every:n|time:s|hybrid:b:s> idx= barrier= last=<none|ago:s|future:s>  => `T` | `F`
//! <fields> = `pid=<hex> idx=<n> ts=<n> pc=<n> ck=<hex> em=<hex> tn=<n> lnt=<hex> pp=<n>`
//! <names>  = comma-separated hex names sorted bytewise (regular files only; sub-directories are tracked by the
//!            oracle — every operation must leave them alone and none is ever a checkpoint — and hidden from the model).
//!
//! Oracles (never go through the model): round trip field-for-field; a loaded state has the protected
//! fields and checksum of the state the file was derived from (so any alteration of them was rejected);
//! never PANIC/ABORT/HANG (child with a 64 MiB address space); after a save at most `max` own files remain, they
//! are the newest, nothing that is not a well-formed own file is touched (names AND bytes), the new file holds the
//! encoding; latest = own well-formed file of greatest stamp; save;latest;load returns the saved state when it is
//! the newest. "own well-formed file of pid" := regular file `checkpoint_<pid>_<digits>.bin` whose digits parse as u64.

use crate::ctx::{Ctx, Rng, guarded, hex};
use ironbeam::checkpoint::{
    CheckpointConfig, CheckpointManager, CheckpointMetadata, CheckpointPolicy, CheckpointState, compute_checksum,
};
use std::io::{BufRead, BufReader, Write};
use std::path::Path;
use std::process::{Command, Stdio};
use std::sync::mpsc;
use std::time::Duration;

/// address-space limit of the decode child (KiB): a decoder that asks for a huge buffer dies => ABORT.
/// 64 MiB: the child needs about 30 MiB of address space to start (checked by a preflight run), so any single
/// request of more than about 32 MiB kills it. (Requests between the 1 MiB decode limit and that are not seen by
/// the oracle, but the model answers `ERR limit` for them, so they surface as a model/implementation disagreement.)
const CHILD_AS_LIMIT_KIB: u64 = 64 * 1024;
const CHILD_WATCHDOG_S: u64 = 30;

#[derive(Clone, Debug, PartialEq, Eq)]
pub struct St {
    pid: String,
    idx: u64,
    ts: u64,
    pc: u64,
    ck: String,
    em: String,
    tn: u64,
    lnt: String,
    pp: u8,
}

impl St {
    fn meta_string(&self) -> String {
        format!("{}:{}:{}:{}", self.pid, self.idx, self.ts, self.pc)
    }
    fn with_valid_checksum(mut self) -> Self {
        self.ck = compute_checksum(self.meta_string().as_bytes());
        self
    }
    fn to_real(&self) -> CheckpointState {
        CheckpointState {
            pipeline_id: self.pid.clone(),
            completed_node_index: self.idx as usize,
            timestamp: self.ts,
            partition_count: self.pc as usize,
            checksum: self.ck.clone(),
            exec_mode: self.em.clone(),
            metadata: CheckpointMetadata {
                total_nodes: self.tn as usize,
                last_node_type: self.lnt.clone(),
                progress_percent: self.pp,
            },
        }
    }
    fn from_real(s: &CheckpointState) -> Self {
        St {
            pid: s.pipeline_id.clone(),
            idx: s.completed_node_index as u64,
            ts: s.timestamp,
            pc: s.partition_count as u64,
            ck: s.checksum.clone(),
            em: s.exec_mode.clone(),
            tn: s.metadata.total_nodes as u64,
            lnt: s.metadata.last_node_type.clone(),
            pp: s.metadata.progress_percent,
        }
    }
    fn fields(&self) -> String {
        format!(
            "pid={} idx={} ts={} pc={} ck={} em={} tn={} lnt={} pp={}",
            hex(self.pid.as_bytes()),
            self.idx,
            self.ts,
            self.pc,
            hex(self.ck.as_bytes()),
            hex(self.em.as_bytes()),
            self.tn,
            hex(self.lnt.as_bytes()),
            self.pp
        )
    }
    fn protected(&self) -> (String, u64, u64, u64) {
        (self.pid.clone(), self.idx, self.ts, self.pc)
    }
    /// generator-side encoder (bincode standard layout) used ONLY to build hostile inputs and to know
    /// field offsets; the real bytes always come from `save_checkpoint`.
    fn gen_encode(&self) -> (Vec<u8>, Vec<usize>) {
        let l = self.gen_layout();
        (l.bytes, l.str_offsets)
    }
    /// the encoding with the offsets of its parts: `str_offsets` = the four string length prefixes,
    /// `var_offsets` = all eight varints (four length prefixes + idx, ts, pc, tn) in wire order,
    /// `bodies` = (start, len) of the four string bodies
    fn gen_layout(&self) -> Layout {
        let mut out = vec![];
        let mut str_offsets = vec![];
        let mut var_offsets = vec![];
        let mut bodies = vec![];
        fn vi(out: &mut Vec<u8>, vo: &mut Vec<usize>, v: u64) {
            vo.push(out.len());
            gen_varint(out, v);
        }
        fn st(out: &mut Vec<u8>, so: &mut Vec<usize>, vo: &mut Vec<usize>, bo: &mut Vec<(usize, usize)>, s: &str) {
            so.push(out.len());
            vo.push(out.len());
            gen_varint(out, s.len() as u64);
            bo.push((out.len(), s.len()));
            out.extend_from_slice(s.as_bytes());
        }
        st(&mut out, &mut str_offsets, &mut var_offsets, &mut bodies, &self.pid);
        vi(&mut out, &mut var_offsets, self.idx);
        vi(&mut out, &mut var_offsets, self.ts);
        vi(&mut out, &mut var_offsets, self.pc);
        st(&mut out, &mut str_offsets, &mut var_offsets, &mut bodies, &self.ck);
        st(&mut out, &mut str_offsets, &mut var_offsets, &mut bodies, &self.em);
        vi(&mut out, &mut var_offsets, self.tn);
        st(&mut out, &mut str_offsets, &mut var_offsets, &mut bodies, &self.lnt);
        out.push(self.pp);
        Layout { bytes: out, str_offsets, var_offsets, bodies }
    }
}

struct Layout {
    bytes: Vec<u8>,
    str_offsets: Vec<usize>,
    var_offsets: Vec<usize>,
    bodies: Vec<(usize, usize)>,
}

fn gen_varint(out: &mut Vec<u8>, v: u64) {
    if v <= 250 {
        out.push(v as u8);
    } else if v <= 0xffff {
        out.push(251);
        out.extend_from_slice(&(v as u16).to_le_bytes());
    } else if v <= 0xffff_ffff {
        out.push(252);
        out.extend_from_slice(&(v as u32).to_le_bytes());
    } else {
        out.push(253);
        out.extend_from_slice(&v.to_le_bytes());
    }
}
fn varint_len(first: u8) -> usize {
    match first {
        251 => 3,
        252 => 5,
        253 => 9,
        _ => 1,
    }
}

fn unhex(s: &str) -> Option<Vec<u8>> {
    if s.len() % 2 != 0 {
        return None;
    }
    (0..s.len() / 2).map(|i| u8::from_str_radix(&s[2 * i..2 * i + 2], 16).ok()).collect()
}

fn parse_fields(toks: &[&str]) -> Option<St> {
    let get = |k: &str| -> Option<&str> {
        toks.iter().find_map(|t| t.strip_prefix(k).and_then(|r| r.strip_prefix('=')))
    };
    let s = |k: &str| -> Option<String> { String::from_utf8(unhex(get(k)?)?).ok() };
    let n = |k: &str| -> Option<u64> { get(k)?.parse().ok() };
    Some(St { pid: s("pid")?, idx: n("idx")?, ts: n("ts")?, pc: n("pc")?, ck: s("ck")?, em: s("em")?, tn: n("tn")?, lnt: s("lnt")?, pp: n("pp")? as u8 })
}

/// canonical class of a `load_checkpoint` error
fn classify_load_err(e: &anyhow::Error) -> String {
    let top = e.to_string();
    if top.contains("checksum mismatch") {
        return "ERR checksum".into();
    }
    // bincode's DecodeError displays as its Debug form; find it in the cause chain
    for cause in e.chain() {
        let c = cause.to_string();
        let class = if c.starts_with("UnexpectedEnd") {
            "eof"
        } else if c.starts_with("LimitExceeded") {
            "limit"
        } else if c.starts_with("InvalidIntegerType") {
            "int-type"
        } else if c.starts_with("Utf8") {
            "utf8"
        } else if c.starts_with("OutsideUsizeRange") {
            "usize-range"
        } else {
            continue;
        };
        return format!("ERR {class}");
    }
    if top.contains("Failed to open") || top.contains("Failed to read") {
        return "ERR io".into();
    }
    format!("ERR other:{}", e.root_cause().to_string().split_whitespace().next().unwrap_or("?"))
}

fn load_answer(r: Result<anyhow::Result<CheckpointState>, String>) -> String {
    match r {
        Err(_) => "PANIC".into(),
        Ok(Err(e)) => classify_load_err(&e),
        Ok(Ok(s)) => format!("OK {}", St::from_real(&s).fields()),
    }
}

/// scratch directory on tmpfs when available (save_checkpoint fsyncs every file)
fn tmpdir() -> tempfile::TempDir {
    let shm = Path::new("/dev/shm");
    if shm.is_dir() {
        if let Ok(t) = tempfile::tempdir_in(shm) {
            return t;
        }
    }
    tempfile::tempdir().expect("tempdir")
}

fn manager(dir: &Path, max: Option<usize>, enabled: bool) -> CheckpointManager {
    CheckpointManager::new(CheckpointConfig {
        enabled,
        directory: dir.to_path_buf(),
        policy: CheckpointPolicy::AfterEveryBarrier,
        auto_recover: true,
        max_checkpoints: max,
    })
    .expect("manager")
}

/// Translator route: constants of the running code printed as Lean definitions (`Generated/Tables.lean`).
pub fn tables(out: &mut String) {
    out.push_str("/-- `ironbeam::checkpoint::MAX_CHECKPOINT_DECODE_BYTES` of the running code (bincode `with_limit`) -/\n");
    out.push_str(&format!("def ckptDecodeLimit : Nat := {}\n\n", ironbeam::checkpoint::MAX_CHECKPOINT_DECODE_BYTES));
}

// ───────────────────────────── generators ─────────────────────────────

const NUM_EDGES: &[u64] = &[
    0, 1, 2, 249, 250, 251, 252, 253, 254, 255, 256, 65534, 65535, 65536, 65537, 0xffff_fffe, 0xffff_ffff,
    0x1_0000_0000, 0x1_0000_0001, 1 << 40, (1 << 63) - 1, 1 << 63, u64::MAX - 1, u64::MAX,
];
const CHAR_EDGES: &[char] = &[
    '\0', '\u{1}', '\t', '\n', ' ', '/', ':', '_', '.', '0', '9', 'a', 'Z', '~', '\u{7f}', '\u{80}', '\u{ff}', '\u{7ff}',
    '\u{800}', '\u{d7ff}', '\u{e000}', '\u{fffd}', '\u{ffff}', '\u{10000}', '\u{1f600}', '\u{10ffff}', 'é', 'π', '中',
];

fn rand_num(rng: &mut Rng) -> u64 {
    match rng.below(4) {
        0 => *rng.pick(NUM_EDGES),
        1 => rng.below(300) as u64,
        2 => rng.next_u64() >> rng.below(64),
        _ => rng.next_u64(),
    }
}
fn rand_char(rng: &mut Rng, safe_name: bool) -> char {
    loop {
        let c = match rng.below(5) {
            0 => *rng.pick(CHAR_EDGES),
            1 | 2 => (0x20 + rng.below(0x5f) as u8) as char,
            3 => char::from_u32(rng.below(0x800) as u32).unwrap_or('x'),
            _ => char::from_u32(rng.next_u64() as u32 % 0x11_0000).unwrap_or('\u{fffd}'),
        };
        if safe_name && (c == '/' || c == '\0') {
            continue;
        }
        return c;
    }
}
/// random string of at most `max_bytes` UTF-8 bytes
fn rand_string(rng: &mut Rng, max_bytes: usize, safe_name: bool, big: bool) -> String {
    let exact: &[usize] = if big { &[0, 1, 2, 250, 251, 252, 255, 256, 4095, 4096, 65535, 65536, 70001] } else { &[0, 1, 2, 250, 251, 252, 255, 256, 4095, 4096] };
    if rng.chance(1, 3) {
        // ASCII of an exact (boundary) length
        let n = (*rng.pick(exact)).min(max_bytes);
        return (0..n).map(|_| (0x21 + rng.below(0x5e) as u8) as char).filter(|c| !(safe_name && *c == '/')).collect();
    }
    let target = match rng.below(4) {
        0 => rng.below(4),
        1 => rng.below(20),
        2 => rng.below(300),
        _ => rng.below(max_bytes + 1),
    }
    .min(max_bytes);
    let mut s = String::new();
    while s.len() < target {
        let c = rand_char(rng, safe_name);
        if s.len() + c.len_utf8() > max_bytes {
            break;
        }
        s.push(c);
    }
    s
}
fn rand_state(rng: &mut Rng, max_str: usize, pid_safe: bool, big: bool) -> St {
    let pid_max = if pid_safe { max_str.min(180) } else { max_str };
    let st = St {
        pid: rand_string(rng, pid_max, pid_safe, false),
        idx: rand_num(rng),
        ts: rand_num(rng),
        pc: rand_num(rng),
        ck: String::new(),
        em: rand_string(rng, max_str, false, big),
        tn: rand_num(rng),
        lnt: rand_string(rng, max_str, false, big),
        pp: rng.next_u64() as u8,
    };
    st.with_valid_checksum()
}

// ───────────────────────────── CKPT-ENC ─────────────────────────────

fn one_enc(cx: &mut Ctx, st: &St, nontrivial: bool) {
    let tmp = tmpdir();
    let real = st.to_real();
    let r = guarded(|| -> anyhow::Result<(std::path::PathBuf, Vec<u8>)> {
        let mut m = manager(tmp.path(), None, true);
        let p = m.save_checkpoint(&real)?;
        let bytes = std::fs::read(&p)?;
        Ok((p, bytes))
    });
    let (answer, saved) = match r {
        Err(_) => ("PANIC".to_string(), None),
        Ok(Err(_)) => ("ERR save".to_string(), None),
        Ok(Ok((p, bytes))) => {
            let m = manager(tmp.path(), None, true);
            let lr = guarded(|| m.load_checkpoint(&p));
            let la = load_answer(lr);
            (format!("OK {} | {}", hex(&bytes), la), Some((p, la)))
        }
    };
    let i = cx.case(format!("CKPT-ENC {}", st.fields()), answer.clone(), nontrivial);
    cx.count(&format!("enc:{}", answer.split(' ').next().unwrap_or("?")));
    match saved {
        None => cx.oracle_fail(i, "save-fails-on-valid-state", answer),
        Some((p, la)) => {
            let want_name = format!("checkpoint_{}_{}.bin", st.pid, st.ts);
            if p.file_name().and_then(|n| n.to_str()) != Some(want_name.as_str()) {
                cx.oracle_fail(i, "save-file-name", format!("{:?} != {want_name}", p.file_name()));
            }
            let valid = st.ck == compute_checksum(st.meta_string().as_bytes());
            if valid {
                cx.count("enc:valid-checksum");
                if la != format!("OK {}", st.fields()) {
                    cx.oracle_fail(i, "round-trip-not-field-for-field", format!("saved {} loaded {}", st.fields(), la));
                }
            } else {
                cx.count("enc:wrong-checksum");
                if !la.starts_with("ERR") {
                    cx.oracle_fail(i, "wrong-checksum-accepted", la);
                }
            }
        }
    }
}

// ───────────────────────────── CKPT-DEC (child) ─────────────────────────────

struct DecCase {
    bytes: Vec<u8>,
    /// the valid state the bytes were derived from (None = synthetic bytes)
    base: Option<St>,
    /// bytes are exactly the encoding of `base`
    pristine: bool,
    tag: &'static str,
}

/// child: `ibh child c12 dec <infile>`: one hex line per case in, `<k> <answer>` per case out.
pub fn child(args: &[String]) -> i32 {
    match args.first().map(String::as_str) {
        Some("dec") => {
            let Some(infile) = args.get(1) else { return 2 };
            let start: usize = args.get(2).and_then(|s| s.parse().ok()).unwrap_or(0);
            // streamed: the child's address space is capped far below the size of the case file
            let Ok(file) = std::fs::File::open(infile) else { return 2 };
            let tmp = tmpdir();
            let m = manager(tmp.path(), None, true);
            let path = tmp.path().join("case.bin");
            let out = std::io::stdout();
            for (k, line) in BufReader::new(file).lines().enumerate().skip(start) {
                let Ok(line) = line else { return 2 };
                let Some(bytes) = unhex(line.trim()) else { return 2 };
                if std::fs::write(&path, &bytes).is_err() {
                    return 2;
                }
                let a = load_answer(guarded(|| m.load_checkpoint(&path)));
                let mut o = out.lock();
                let _ = writeln!(o, "{k} {a}");
                let _ = o.flush();
            }
            0
        }
        _ => 2,
    }
}

/// Run all decode cases in watchdog children with an address-space limit. A child that dies on case k
/// yields ABORT for k (HANG if the watchdog fired) and a fresh child continues at k+1.
fn run_dec_children(cases: &[DecCase], work: &Path) -> Vec<String> {
    let infile = work.join("dec_cases.hex");
    {
        let mut f = std::io::BufWriter::new(std::fs::File::create(&infile).expect("dec infile"));
        for c in cases {
            writeln!(f, "{}", hex(&c.bytes)).unwrap();
        }
        f.flush().unwrap();
    }
    let exe = std::env::current_exe().expect("current_exe");
    // preflight: under the address-space limit the child must be able to start and load a pristine file
    {
        let pre = work.join("dec_preflight.hex");
        std::fs::write(&pre, format!("{}\n", hex(&short_base_a().gen_encode().0))).expect("preflight file");
        let out = Command::new("sh")
            .arg("-c")
            .arg(format!("ulimit -v {CHILD_AS_LIMIT_KIB} && exec \"$0\" child c12 dec \"$1\" 0"))
            .arg(&exe)
            .arg(&pre)
            .stderr(Stdio::null())
            .output()
            .expect("spawn preflight child");
        let text = String::from_utf8_lossy(&out.stdout);
        assert!(text.starts_with("0 OK "), "ibh child c12 dec: preflight under ulimit -v {CHILD_AS_LIMIT_KIB} failed ({:?}, {text:?}) - raise CHILD_AS_LIMIT_KIB", out.status);
        let _ = std::fs::remove_file(&pre);
    }
    let mut answers: Vec<String> = Vec::with_capacity(cases.len());
    while answers.len() < cases.len() {
        let start = answers.len();
        let mut child = Command::new("sh")
            .arg("-c")
            .arg(format!("ulimit -v {CHILD_AS_LIMIT_KIB} && exec \"$0\" child c12 dec \"$1\" \"$2\""))
            .arg(&exe)
            .arg(&infile)
            .arg(start.to_string())
            .stdout(Stdio::piped())
            .stderr(Stdio::null())
            .spawn()
            .expect("spawn child");
        let stdout = child.stdout.take().unwrap();
        let (tx, rx) = mpsc::channel::<String>();
        let reader = std::thread::spawn(move || {
            for line in BufReader::new(stdout).lines().map_while(Result::ok) {
                if tx.send(line).is_err() {
                    break;
                }
            }
        });
        let mut hung = false;
        loop {
            match rx.recv_timeout(Duration::from_secs(CHILD_WATCHDOG_S)) {
                Ok(line) => {
                    let (k, a) = line.split_once(' ').unwrap_or((&line, ""));
                    if k.parse::<usize>().ok() == Some(answers.len()) {
                        answers.push(a.to_string());
                    }
                }
                Err(mpsc::RecvTimeoutError::Timeout) => {
                    hung = true;
                    let _ = child.kill();
                    break;
                }
                Err(mpsc::RecvTimeoutError::Disconnected) => break,
            }
        }
        let status = child.wait().ok();
        let _ = reader.join();
        if status.and_then(|s| s.code()) == Some(2) {
            panic!("ibh child c12 dec: set-up failure (exit 2) at case {}", answers.len());
        }
        if answers.len() < cases.len() {
            // the child stopped before finishing: the case it was working on killed it
            answers.push(if hung { "HANG".into() } else { "ABORT".into() });
        }
    }
    let _ = std::fs::remove_file(&infile);
    answers
}

fn dec_oracle(cx: &mut Ctx, i: usize, c: &DecCase, ans: &str) {
    if ans == "PANIC" || ans == "ABORT" || ans == "HANG" {
        let sig = match ans {
            "PANIC" => "load-panics-on-malformed-bytes",
            "ABORT" => "load-aborts-on-malformed-bytes(huge allocation)",
            _ => "load-hangs-on-malformed-bytes",
        };
        cx.oracle_fail(i, sig, format!("{} on {} bytes ({})", ans, c.bytes.len(), c.tag));
        return;
    }
    if let Some(rest) = ans.strip_prefix("OK ") {
        let toks: Vec<&str> = rest.split(' ').collect();
        let Some(got) = parse_fields(&toks) else {
            cx.oracle_fail(i, "unparsable-real-answer", ans.to_string());
            return;
        };
        // whatever is accepted carries a checksum that matches its own protected fields
        if got.ck != compute_checksum(got.meta_string().as_bytes()) {
            cx.oracle_fail(i, "accepted-state-with-wrong-checksum", ans.to_string());
        }
        if let Some(b) = &c.base {
            if got.protected() != b.protected() || got.ck != b.ck {
                cx.oracle_fail(i, "altered-protected-field-or-checksum-accepted", format!("base {} loaded {}", b.fields(), got.fields()));
            }
            if c.pristine && &got != b {
                cx.oracle_fail(i, "round-trip-not-field-for-field", format!("base {} loaded {}", b.fields(), got.fields()));
            }
        }
    } else if c.pristine {
        cx.oracle_fail(i, "pristine-file-rejected", ans.to_string());
    }
}

fn short_base_a() -> St {
    St { pid: "p".into(), idx: 3, ts: 7, pc: 2, ck: String::new(), em: "seq".into(), tn: 9, lnt: "S".into(), pp: 50 }.with_valid_checksum()
}
fn short_base_b() -> St {
    // multi-byte varints of every width and every UTF-8 sequence length
    St { pid: "é_中".into(), idx: 300, ts: 1 << 40, pc: 70000, ck: String::new(), em: "\u{1f600}\u{7f}".into(), tn: 251, lnt: "\u{7ff}\u{ffff}".into(), pp: 255 }
        .with_valid_checksum()
}

/// the remaining exhaustive-fault bases: different lengths and shapes
fn base_c_empty() -> St {
    // every string empty, every number 0: the shortest file a save can write (73 bytes)
    St { pid: String::new(), idx: 0, ts: 0, pc: 0, ck: String::new(), em: String::new(), tn: 0, lnt: String::new(), pp: 0 }.with_valid_checksum()
}
fn base_d_extremes() -> St {
    // numbers at the extremes (9-byte varints), a pipeline id containing ':' '_' and digits
    St { pid: "a:1_2:".into(), idx: u64::MAX, ts: 1 << 63, pc: 0x1_0000_0000, ck: String::new(), em: ":".into(), tn: 65535, lnt: "0".into(), pp: 251 }
        .with_valid_checksum()
}
fn base_e_medium() -> St {
    // 251-byte pipeline id (3-byte length prefix), 300 bytes of mixed-width unicode, 70 bytes
    let pid: String = (0..251).map(|i| (b'a' + (i % 26) as u8) as char).collect();
    let mut em = String::new();
    for c in ['x', 'é', '中', '\u{1f600}', '\u{7ff}', '\u{800}', '\u{10ffff}', '~'].iter().cycle() {
        if em.len() + c.len_utf8() > 300 {
            break;
        }
        em.push(*c);
    }
    let lnt: String = (0..70).map(|i| (b'0' + (i % 10) as u8) as char).collect();
    St { pid, idx: 251, ts: 1_700_000_000_000, pc: 16, ck: String::new(), em, tn: 1000, lnt, pp: 99 }.with_valid_checksum()
}
fn base_f_long() -> St {
    // the property's maximum: a 4096-byte string (and a 1000-byte one)
    let lnt: String = (0..4096).map(|i| (0x21 + (i * 7 % 0x5e) as u8) as char).collect();
    let mut em = String::new();
    for c in ['π', 'a', '\u{ffff}', '\u{10000}'].iter().cycle() {
        if em.len() + c.len_utf8() > 1000 {
            break;
        }
        em.push(*c);
    }
    St { pid: "long".into(), idx: 70000, ts: u64::MAX, pc: 250, ck: String::new(), em, tn: 251, lnt, pp: 100 }.with_valid_checksum()
}

fn hostile_lengths() -> Vec<u64> {
    vec![
        1 << 63, u64::MAX, (1 << 63) - 1, 1 << 62, 1 << 48, 1 << 40, 1 << 34, 1 << 32, 3 << 30, 1 << 30, // far beyond the child's address-space limit
        1 << 28, 100 << 20, 1 << 26, // at or beyond the child's address-space limit, far below 2^30
        16 << 20, 2 << 20, // above the decode limit, below the child's address-space limit
        (1 << 20) + 1, 1 << 20, (1 << 20) - 64, 70000, 65536, 300, 251,
    ]
}

const OVERWRITE_VALUES: [u8; 19] = [0u8, 1, 0x7f, 0x80, 0xbf, 0xc0, 0xc1, 0xc2, 0xe0, 0xed, 0xf0, 0xf4, 0xf5, 250, 251, 252, 253, 254, 255];

/// byte positions of `l` that get the exhaustive fault treatment: everything for files up to 1 KiB; for longer
/// files every byte outside the long string bodies plus the first/last 8 bytes and every 97th byte of each body
fn fault_positions(l: &Layout) -> Vec<usize> {
    let n = l.bytes.len();
    if n <= 1024 {
        return (0..n).collect();
    }
    let mut keep = vec![true; n];
    for &(start, len) in &l.bodies {
        if len > 64 {
            for k in 0..len {
                keep[start + k] = k < 8 || k + 8 >= len || k % 97 == 0;
            }
        }
    }
    (0..n).filter(|&i| keep[i]).collect()
}

fn gen_dec_cases(cx: &mut Ctx) -> Vec<DecCase> {
    let mut v: Vec<DecCase> = vec![];
    let bases: Vec<(St, &'static str, bool)> = vec![
        (short_base_a(), "a:78B", true),
        (short_base_b(), "b:all-varint-widths+1-4-byte-utf8", true),
        (base_c_empty(), "c:all-empty", true),
        (base_d_extremes(), "d:extreme-numbers", true),
        (base_e_medium(), "e:251B-id+300B-unicode", false),
        (base_f_long(), "f:4096B-string", false),
    ];
    // (1) corpus / design witnesses
    {
        // DESIGN §8 #8: first length prefix = 2^63
        let mut b = vec![];
        gen_varint(&mut b, 1 << 63);
        v.push(DecCase { bytes: b, base: None, pristine: false, tag: "corpus:len=2^63" });
        // a hostile value at EVERY varint position (4 string length prefixes and the 4 numbers) of every base
        let mut n_host = 0usize;
        for (base, _, _) in &bases {
            let l = base.gen_layout();
            for &off in &l.var_offsets {
                let is_len = l.str_offsets.contains(&off);
                for &h in &hostile_lengths() {
                    let mut b = l.bytes[..off].to_vec();
                    gen_varint(&mut b, h);
                    b.extend_from_slice(&l.bytes[off + varint_len(l.bytes[off])..]);
                    if b == l.bytes {
                        continue;
                    }
                    v.push(DecCase {
                        bytes: b,
                        base: Some(base.clone()),
                        pristine: false,
                        tag: if is_len { "corpus:hostile-length" } else { "corpus:hostile-number" },
                    });
                    n_host += 1;
                }
            }
        }
        cx.exhaustive_blocks.push(format!(
            "CKPT-DEC: {} hostile values (2^63, 2^64-1, 2^62 .. 2^20+1, 2^20, 70000, 65536, 300, 251) planted at EVERY varint position (4 length prefixes + 4 numbers) of {} encoded states = {n_host} files",
            hostile_lengths().len(),
            bases.len()
        ));
        v.push(DecCase { bytes: vec![], base: None, pristine: false, tag: "corpus:empty" });
        for m in 251..=255u8 {
            v.push(DecCase { bytes: vec![m], base: None, pristine: false, tag: "corpus:lonely-marker" });
            v.push(DecCase { bytes: vec![1, b'p', m], base: None, pristine: false, tag: "corpus:lonely-marker" });
            v.push(DecCase { bytes: vec![1, b'p', m, 0, 0, 0, 0, 0, 0, 0, 0, 0, 0, 0, 0, 0], base: None, pristine: false, tag: "corpus:marker-in-u64" });
        }
    }
    // (2) exhaustive single-fault block over six states of different lengths
    let mut n_exh = 0usize;
    let mut desc: Vec<String> = vec![];
    for (base, name, overwrites) in &bases {
        let l = base.gen_layout();
        let enc = &l.bytes;
        let pos = fault_positions(&l);
        let before = n_exh;
        v.push(DecCase { bytes: enc.clone(), base: Some(base.clone()), pristine: true, tag: "exh:pristine" });
        for &i in &pos {
            for bit in 0..8 {
                let mut b = enc.clone();
                b[i] ^= 1 << bit;
                v.push(DecCase { bytes: b, base: Some(base.clone()), pristine: false, tag: "exh:bitflip" });
                n_exh += 1;
            }
            if *overwrites {
                for val in OVERWRITE_VALUES {
                    if enc[i] != val {
                        let mut b = enc.clone();
                        b[i] = val;
                        v.push(DecCase { bytes: b, base: Some(base.clone()), pristine: false, tag: "exh:overwrite" });
                        n_exh += 1;
                    }
                }
            }
            v.push(DecCase { bytes: enc[..i].to_vec(), base: Some(base.clone()), pristine: false, tag: "exh:truncate" });
            n_exh += 1;
        }
        desc.push(format!(
            "{name} ({} bytes, {} positions{}: {} files)",
            enc.len(),
            pos.len(),
            if *overwrites { ", + 19 overwrite values" } else { "" },
            n_exh - before
        ));
    }
    cx.exhaustive_blocks.push(format!(
        "CKPT-DEC: every single-bit flip and every truncation at every byte position of six encoded states of different lengths (for the > 1 KiB file: every byte outside the long string bodies, the first/last 8 and every 97th byte of each body), plus 19 overwrite values per byte on the four short ones = {n_exh} files: {}",
        desc.join("; ")
    ));
    // (3) random block
    let rounds = cx.budget(6000, 150000);
    for _ in 0..rounds {
        let big = cx.tier != crate::ctx::Tier::Quick && cx.rng.chance(1, 200);
        let max_str = match cx.rng.below(10) {
            0 => 4096,
            1 | 2 => 300,
            _ => 24,
        };
        let st = rand_state(&mut cx.rng, max_str, false, big);
        let lay = st.gen_layout();
        let (enc, offs) = (lay.bytes.clone(), lay.var_offsets.clone());
        let kind = cx.rng.below(13);
        let (bytes, pristine, tag): (Vec<u8>, bool, &'static str) = match kind {
            0 => (enc.clone(), true, "rnd:pristine"),
            1 | 2 => {
                let mut b = enc.clone();
                let flips = 1 + cx.rng.below(3);
                for _ in 0..flips {
                    let i = cx.rng.below(b.len());
                    b[i] ^= 1 << cx.rng.below(8);
                }
                (b, false, "rnd:bitflips")
            }
            3 => {
                let mut b = enc.clone();
                let i = cx.rng.below(b.len());
                b[i] = cx.rng.next_u64() as u8;
                (b, false, "rnd:overwrite")
            }
            4 => (enc[..cx.rng.below(enc.len() + 1)].to_vec(), false, "rnd:truncate"),
            5 => {
                let mut b = enc.clone();
                let i = cx.rng.below(b.len() + 1);
                b.insert(i, cx.rng.next_u64() as u8);
                (b, false, "rnd:insert")
            }
            6 => {
                let mut b = enc.clone();
                let i = cx.rng.below(b.len());
                b.remove(i);
                (b, false, "rnd:delete")
            }
            7 => {
                let mut b = enc.clone();
                let n = 1 + cx.rng.below(16);
                for _ in 0..n {
                    b.push(cx.rng.next_u64() as u8);
                }
                (b, false, "rnd:trailing-garbage")
            }
            8 => {
                // hostile / random value at ANY varint position (length prefixes and numbers)
                let off = offs[cx.rng.below(offs.len())];
                let l = if cx.rng.chance(1, 2) { *cx.rng.pick(&hostile_lengths()) } else { rand_num(&mut cx.rng) };
                let mut b = enc[..off].to_vec();
                gen_varint(&mut b, l);
                b.extend_from_slice(&enc[off + varint_len(enc[off])..]);
                if b == enc { (b, true, "rnd:pristine") } else { (b, false, "rnd:varint-replaced") }
            }
            9 => {
                // non-canonical (wider) varint for the same value: fields unchanged, must still load
                let off = offs[cx.rng.below(offs.len())];
                let l = match enc[off] {
                    x @ 0..=250 => x as u64,
                    _ => u64::MAX,
                };
                if l == u64::MAX {
                    (enc.clone(), true, "rnd:pristine")
                } else {
                    let mut b = enc[..off].to_vec();
                    match cx.rng.below(3) {
                        0 => {
                            b.push(251);
                            b.extend_from_slice(&(l as u16).to_le_bytes());
                        }
                        1 => {
                            b.push(252);
                            b.extend_from_slice(&(l as u32).to_le_bytes());
                        }
                        _ => {
                            b.push(253);
                            b.extend_from_slice(&l.to_le_bytes());
                        }
                    }
                    b.extend_from_slice(&enc[off + 1..]);
                    (b, true, "rnd:noncanonical-varint")
                }
            }
            10 => {
                // re-encode with one protected field changed but the old checksum kept
                let mut t = st.clone();
                match cx.rng.below(4) {
                    0 => t.pid.push('x'),
                    1 => t.idx = t.idx.wrapping_add(1 + cx.rng.below(3) as u64),
                    2 => t.ts = t.ts.wrapping_sub(1),
                    _ => t.pc ^= 1 << cx.rng.below(64),
                }
                (t.gen_encode().0, false, "rnd:protected-field-rewritten")
            }
            11 => {
                // re-encode with the checksum replaced (empty / truncated / upper-cased / of another state / one char changed)
                let mut t = st.clone();
                match cx.rng.below(5) {
                    0 => t.ck.clear(),
                    1 => {
                        t.ck.pop();
                    }
                    2 => t.ck = t.ck.to_uppercase(),
                    3 => t.ck = compute_checksum(format!("{}:{}:{}:{}", t.pid, t.idx, t.ts, t.pc.wrapping_add(1)).as_bytes()),
                    _ => {
                        let i = cx.rng.below(t.ck.len().max(1));
                        let mut b = t.ck.clone().into_bytes();
                        if !b.is_empty() {
                            b[i] = if b[i] == b'0' { b'1' } else { b'0' };
                        }
                        t.ck = String::from_utf8(b).unwrap_or_default();
                    }
                }
                (t.gen_encode().0, false, "rnd:checksum-rewritten")
            }
            _ => {
                let n = cx.rng.below(64);
                ((0..n).map(|_| cx.rng.next_u64() as u8).collect(), false, "rnd:random-bytes")
            }
        };
        let base = if tag == "rnd:random-bytes" { None } else { Some(st) };
        v.push(DecCase { bytes, base, pristine, tag });
    }
    v
}

fn run_dec(cx: &mut Ctx) {
    let cases = gen_dec_cases(cx);
    let work = std::env::temp_dir().join(format!("ibh-c12-{}-{}", std::process::id(), cx.seed));
    let _ = std::fs::create_dir_all(&work);
    let answers = run_dec_children(&cases, &work);
    let _ = std::fs::remove_dir_all(&work);
    for (c, a) in cases.iter().zip(answers.iter()) {
        let nt = !c.bytes.is_empty();
        let i = cx.case(format!("CKPT-DEC {}", if c.bytes.is_empty() { "-".to_string() } else { hex(&c.bytes) }), a.clone(), nt);
        cx.count(&format!("dec:in:{}", c.tag));
        let class: String = a.split(' ').take(if a.starts_with("ERR") { 2 } else { 1 }).collect::<Vec<_>>().join(" ");
        cx.count(&format!("dec:out:{class}"));
        dec_oracle(cx, i, c, a);
    }
}

// ───────────────────────────── histories ─────────────────────────────

/// directory listing with contents, sorted bytewise by name
fn listing_c(dir: &Path) -> Vec<(String, Vec<u8>)> {
    let mut v: Vec<(String, Vec<u8>)> = std::fs::read_dir(dir)
        .map(|rd| {
            rd.filter_map(Result::ok)
                .filter(|e| !e.path().is_dir())
                .filter_map(|e| e.file_name().to_str().map(str::to_string))
                .map(|n| {
                    let c = std::fs::read(dir.join(&n)).unwrap_or_default();
                    (n, c)
                })
                .collect()
        })
        .unwrap_or_default();
    v.sort_by(|a, b| a.0.as_bytes().cmp(b.0.as_bytes()));
    v
}
/// sub-DIRECTORIES of the checkpoint directory (sorted). A directory is never a checkpoint, whatever its name: the
/// listings given to the model contain regular files only, and every operation must leave the directories alone.
fn subdirs(dir: &Path) -> Vec<String> {
    let mut v: Vec<String> = std::fs::read_dir(dir)
        .map(|rd| rd.filter_map(Result::ok).filter(|e| e.path().is_dir()).filter_map(|e| e.file_name().to_str().map(str::to_string)).collect())
        .unwrap_or_default();
    v.sort();
    v
}
fn dirs_oracle(cx: &mut Ctx, i: usize, before: &[String], after: &[String]) {
    if before != after {
        cx.oracle_fail(i, "operation-removes-or-creates-a-directory", format!("directories before {before:?} after {after:?}"));
    }
}
fn names_of(v: &[(String, Vec<u8>)]) -> Vec<String> {
    v.iter().map(|x| x.0.clone()).collect()
}
fn enc_names(v: &[String]) -> String {
    if v.is_empty() { "-".into() } else { v.iter().map(|n| hex(n.as_bytes())).collect::<Vec<_>>().join(",") }
}
/// `<hex name>` or `<hex name>:<hex content>` per file
fn enc_dir(v: &[(String, Vec<u8>)], with_content: bool) -> String {
    if v.is_empty() {
        return "-".into();
    }
    v.iter()
        .map(|(n, c)| if with_content { format!("{}:{}", hex(n.as_bytes()), hex(c)) } else { hex(n.as_bytes()) })
        .collect::<Vec<_>>()
        .join(",")
}
/// the oracle's definition of "a well-formed checkpoint file of pipeline `pid`" and its stamp
fn own_stamp(pid: &str, name: &str) -> Option<u64> {
    let rest = name.strip_prefix("checkpoint_")?.strip_prefix(pid)?.strip_prefix('_')?.strip_suffix(".bin")?;
    if rest.is_empty() || !rest.bytes().all(|b| b.is_ascii_digit()) {
        return None;
    }
    rest.parse::<u64>().ok()
}
fn own_files(pid: &str, names: &[String]) -> Vec<(u64, String)> {
    names.iter().filter_map(|n| own_stamp(pid, n).map(|t| (t, n.clone()))).collect()
}
fn has_tie(own: &[(u64, String)]) -> bool {
    let mut ts: Vec<u64> = own.iter().map(|x| x.0).collect();
    ts.sort_unstable();
    ts.windows(2).any(|w| w[0] == w[1])
}

const HIST_PIDS: &[&str] = &["p", "p_x", "p_7", "q", "", "p.bin", "a.b", "π", "p_x_y", "7"];
/// look-alike / foreign names relative to a pipeline id: none of them is a well-formed checkpoint of `pid`
/// (some are well-formed checkpoints of ANOTHER pipeline, e.g. `<pid>_x`)
fn foreign_for(pid: &str) -> Vec<String> {
    let mut v: Vec<String> = [
        "garbage", "5.BIN", "+5", "-1", "", "5.bin.tmp", "99999999999999999999", "18446744073709551616", "5_6", "x_50", "7_50",
        "5.Bin", "1e3", " 4", "4 ", "٣", "0x10", "5.bin", "+", "+0", "5.", ".5",
    ]
    .iter()
    .map(|m| {
        if m.ends_with(".BIN") || m.ends_with(".Bin") || m.ends_with(".tmp") {
            format!("checkpoint_{pid}_{m}")
        } else {
            format!("checkpoint_{pid}_{m}.bin")
        }
    })
    .collect();
    v.push(format!("checkpoint_{pid}_5"));
    v.push(format!("checkpoint_{pid}_5bin"));
    v.push(format!("checkpoint_{pid}"));
    v.push(format!("checkpoint_{pid}5.bin"));
    v.push(format!("xcheckpoint_{pid}_9.bin"));
    v.push(format!("Checkpoint_{pid}_9.bin"));
    v.push(format!("checkpoint_{pid}_9.bin "));
    v.push(format!("checkpoint_{pid}x_9.bin"));
    v.push("notes.txt".into());
    v.push(".bin".into());
    v.retain(|n| own_stamp(pid, n).is_none());
    v
}

fn hist_st(pid: &str, ts: u64) -> St {
    St { pid: pid.into(), idx: 1, ts, pc: 1, ck: String::new(), em: "sequential".into(), tn: 3, lnt: "Stateless".into(), pp: 33 }
        .with_valid_checksum()
}
fn max_str(m: Option<usize>) -> String {
    m.map_or("none".into(), |x| x.to_string())
}

/// oracle shared by CKPT-SAVE / CKPT-SLL: what a save of `st` (file `new_name`) may do to a directory
#[allow(clippy::too_many_arguments)]
fn save_oracle(
    cx: &mut Ctx,
    i: usize,
    st: &St,
    max: Option<usize>,
    before: &[(String, Vec<u8>)],
    after: &[(String, Vec<u8>)],
    own_all: &[(u64, String)],
) {
    let pid = st.pid.as_str();
    let ts = st.ts;
    let new_name = format!("checkpoint_{pid}_{ts}.bin");
    let after_names = names_of(after);
    let before_names = names_of(before);
    // foreign / other pipelines' files untouched (name and content)
    for (n, c) in before {
        if *n == new_name {
            continue;
        }
        match after.iter().find(|x| x.0 == *n) {
            None => {
                if own_stamp(pid, n).is_none() {
                    cx.oracle_fail(i, "save-deletes-file-of-other-pipeline-or-foreign-file", format!("saving pid {pid:?} ts {ts} max {max:?} removed {n:?}"));
                }
            }
            Some((_, c2)) => {
                if c2 != c {
                    cx.oracle_fail(i, "save-changes-content-of-another-file", format!("saving pid {pid:?} ts {ts} changed the bytes of {n:?}"));
                }
            }
        }
    }
    for n in &after_names {
        if !before_names.contains(n) && *n != new_name {
            cx.oracle_fail(i, "save-creates-unexpected-file", n.clone());
        }
    }
    // the file just written holds the encoding of the state (generator-side bincode layout, itself compared with
    // the real bytes by every CKPT-ENC case)
    if let Some((_, c)) = after.iter().find(|x| x.0 == new_name) {
        if *c != st.gen_encode().0 {
            cx.oracle_fail(i, "saved-file-content-is-not-the-encoding", format!("{new_name}: {} bytes", c.len()));
        }
    }
    // bounded retention, newest kept (ties between two spellings of one stamp allowed: `>` is strict)
    let kept = own_files(pid, &after_names);
    let dropped: Vec<&(u64, String)> = own_all.iter().filter(|x| !after_names.contains(&x.1)).collect();
    match max {
        None => {
            if !dropped.is_empty() {
                cx.oracle_fail(i, "unbounded-retention-deletes", format!("{dropped:?}"));
            }
        }
        Some(m) => {
            if kept.len() > m {
                cx.oracle_fail(i, "more-than-max-own-checkpoints-remain", format!("max {m}, own files left {kept:?}"));
            }
            if kept.len() < m.min(own_all.len()) {
                cx.oracle_fail(i, "fewer-than-max-own-checkpoints-remain", format!("max {m}, own before+new {own_all:?}, left {kept:?}"));
            }
            if let (Some(dmax), Some(kmin)) = (dropped.iter().map(|x| x.0).max(), kept.iter().map(|x| x.0).min()) {
                if dmax > kmin {
                    cx.oracle_fail(i, "kept-checkpoints-are-not-the-newest", format!("dropped stamp {dmax} > kept stamp {kmin}"));
                }
            }
        }
    }
    if !dropped.is_empty() {
        cx.count("hist:save:deleted-some");
    }
}

/// One real `save_checkpoint` in `dir`. `with_content`: the request carries every file's bytes and the answer the
/// bytes of every file that is left (the model's file system then holds real contents), else names only.
/// When two spellings of one stamp (`7` / `07`) are present the survivor depends on `read_dir` order; the save is
/// still executed and judged, and compared with the model on order-independent facts (`CKPT-SAVE-TIE`).
fn op_save(cx: &mut Ctx, dir: &Path, pid: &str, ts: u64, max: Option<usize>, with_content: bool) {
    let dirs_before = subdirs(dir);
    let before = listing_c(dir);
    let before_names = names_of(&before);
    let new_name = format!("checkpoint_{pid}_{ts}.bin");
    if dirs_before.contains(&new_name) {
        // the file system refuses to create a file where a directory is: not a situation the property speaks about
        cx.count("hist:skipped(a directory has the name of the file to be saved)");
        return;
    }
    let mut own_all = own_files(pid, &before_names);
    if !before_names.contains(&new_name) {
        own_all.push((ts, new_name.clone()));
    }
    let tie = has_tie(&own_all);
    let st = hist_st(pid, ts);
    let state = st.to_real();
    let r = guarded(|| {
        let mut m = manager(dir, max, true);
        m.save_checkpoint(&state).map(|_| ())
    });
    let after = listing_c(dir);
    let after_names = names_of(&after);
    let ok = matches!(r, Ok(Ok(())));
    let i = if tie {
        let other: Vec<String> = after_names.iter().filter(|n| own_stamp(pid, n).is_none()).cloned().collect();
        let answer = match &r {
            Err(_) => "PANIC".to_string(),
            Ok(Err(_)) => "ERR save".to_string(),
            Ok(Ok(())) => format!("OK own={} other={}", own_files(pid, &after_names).len(), enc_names(&other)),
        };
        cx.count("hist:save:tie(two spellings of one stamp)");
        cx.case(
            format!("CKPT-SAVE-TIE max={} pid={} ts={} dir={}", max_str(max), hex(pid.as_bytes()), ts, enc_names(&before_names)),
            answer,
            true,
        )
    } else {
        let answer = match &r {
            Err(_) => "PANIC".to_string(),
            Ok(Err(_)) => "ERR save".to_string(),
            Ok(Ok(())) => format!("OK {}", enc_dir(&after, with_content)),
        };
        cx.count(if with_content { "hist:save:with-file-contents" } else { "hist:save:names-only" });
        cx.case(
            format!(
                "CKPT-SAVE max={} c={} dir={} {}",
                max_str(max),
                if with_content { "T" } else { "F" },
                enc_dir(&before, with_content),
                st.fields()
            ),
            answer,
            before.len() >= 2,
        )
    };
    cx.count(&format!("hist:save:max={}", max_str(max)));
    if !ok {
        cx.oracle_fail(i, "save-fails-or-panics", format!("pid {pid:?} ts {ts}"));
        return;
    }
    save_oracle(cx, i, &st, max, &before, &after, &own_all);
    dirs_oracle(cx, i, &dirs_before, &subdirs(dir));
}

/// save ; find_latest ; load on the REAL code, in a directory with arbitrary other files
fn op_sll(cx: &mut Ctx, dir: &Path, st: &St, max: Option<usize>) {
    let pid = st.pid.as_str();
    let dirs_before = subdirs(dir);
    let before = listing_c(dir);
    let before_names = names_of(&before);
    let new_name = format!("checkpoint_{pid}_{}.bin", st.ts);
    if dirs_before.contains(&new_name) {
        cx.count("hist:skipped(a directory has the name of the file to be saved)");
        return;
    }
    let mut own_all = own_files(pid, &before_names);
    if !before_names.contains(&new_name) {
        own_all.push((st.ts, new_name.clone()));
    }
    if has_tie(&own_all) {
        cx.count("sll:skipped(tie between two spellings of one stamp)");
        return;
    }
    let state = st.to_real();
    let r = guarded(|| -> anyhow::Result<Option<std::path::PathBuf>> {
        let mut m = manager(dir, max, true);
        m.save_checkpoint(&state)?;
        m.find_latest_checkpoint(pid)
    });
    let after = listing_c(dir);
    let (answer, latest, la): (String, Option<Option<String>>, Option<String>) = match &r {
        Err(_) => ("PANIC".into(), None, None),
        Ok(Err(_)) => ("ERR save-or-latest".into(), None, None),
        Ok(Ok(None)) => ("OK latest=none".into(), Some(None), None),
        Ok(Ok(Some(p))) => {
            let name = p.file_name().and_then(|n| n.to_str()).unwrap_or("?").to_string();
            let m = manager(dir, max, true);
            let la = load_answer(guarded(|| m.load_checkpoint(p)));
            (format!("OK latest={} | {}", hex(name.as_bytes()), la), Some(Some(name)), Some(la))
        }
    };
    let i = cx.case(format!("CKPT-SLL max={} dir={} {}", max_str(max), enc_dir(&before, true), st.fields()), answer.clone(), true);
    cx.count(&format!("sll:max={}", max_str(max)));
    let Some(latest) = latest else {
        cx.oracle_fail(i, "save-or-latest-fails-or-panics", answer);
        return;
    };
    save_oracle(cx, i, st, max, &before, &after, &own_all);
    dirs_oracle(cx, i, &dirs_before, &subdirs(dir));
    if let Some(n) = &latest {
        if dirs_before.contains(n) {
            cx.oracle_fail(i, "latest-returns-a-directory", n.clone());
            return;
        }
    }
    let want: Option<(u64, String)> = if max == Some(0) { None } else { own_all.iter().max_by_key(|x| x.0).cloned() };
    if latest != want.as_ref().map(|x| x.1.clone()) {
        cx.oracle_fail(i, "latest-after-save-is-not-greatest-timestamp", format!("latest({pid:?}) = {latest:?}, expected {want:?}"));
        return;
    }
    let (Some((wts, wname)), Some(la)) = (want, la) else {
        cx.count("sll:latest=none");
        return;
    };
    if wname == new_name {
        cx.count("sll:latest-is-the-new-file");
        let valid = st.ck == compute_checksum(st.meta_string().as_bytes());
        if valid && la != format!("OK {}", st.fields()) {
            cx.oracle_fail(i, "save-latest-load-not-field-for-field", format!("saved {} loaded {}", st.fields(), la));
        }
        if !valid && !la.starts_with("ERR") {
            cx.oracle_fail(i, "wrong-checksum-accepted", la);
        }
    } else {
        cx.count("sll:latest-is-an-older-file");
        if let Some(rest) = la.strip_prefix("OK ") {
            let toks: Vec<&str> = rest.split(' ').collect();
            match parse_fields(&toks) {
                Some(got) => {
                    if got.ck != compute_checksum(got.meta_string().as_bytes()) {
                        cx.oracle_fail(i, "accepted-state-with-wrong-checksum", la.clone());
                    }
                    // every checkpoint file in these directories was written by a real save under its own name
                    if got.pid != pid || got.ts != wts {
                        cx.oracle_fail(i, "latest-file-holds-another-checkpoint", format!("{wname}: {}", got.fields()));
                    }
                }
                None => cx.oracle_fail(i, "unparsable-real-answer", la.clone()),
            }
        } else if la == "PANIC" {
            cx.oracle_fail(i, "load-panics-on-malformed-bytes", wname);
        }
    }
}

fn op_latest(cx: &mut Ctx, dir: &Path, pid: &str, enabled: bool) {
    let names = names_of(&listing_c(dir));
    let own = own_files(pid, &names);
    let tie = has_tie(&own);
    let r = guarded(|| manager(dir, Some(3), enabled).find_latest_checkpoint(pid));
    let got: Option<Option<String>> = match &r {
        Ok(Ok(p)) => Some(p.as_ref().and_then(|p| p.file_name()).and_then(|n| n.to_str()).map(str::to_string)),
        _ => None,
    };
    let i = if tie {
        // which of two spellings of the greatest stamp is returned depends on `read_dir` order: compare the stamp
        let answer = match (&r, &got) {
            (Err(_), _) => "PANIC".to_string(),
            (Ok(Err(_)), _) => "ERR latest".to_string(),
            (_, Some(Some(n))) => own_stamp(pid, n).map_or(format!("FOREIGN {}", hex(n.as_bytes())), |t| format!("STAMP {t}")),
            _ => "NONE".to_string(),
        };
        cx.count("hist:latest:tie(two spellings of one stamp)");
        cx.case(
            format!("CKPT-LATEST-TIE en={} pid={} dir={}", if enabled { "T" } else { "F" }, hex(pid.as_bytes()), enc_names(&names)),
            answer,
            true,
        )
    } else {
        let answer = match (&r, &got) {
            (Err(_), _) => "PANIC".to_string(),
            (Ok(Err(_)), _) => "ERR latest".to_string(),
            (_, Some(Some(n))) => format!("SOME {}", hex(n.as_bytes())),
            _ => "NONE".to_string(),
        };
        cx.count(&format!("hist:latest:{}", answer.split(' ').next().unwrap_or("?")));
        cx.case(
            format!("CKPT-LATEST en={} pid={} dir={}", if enabled { "T" } else { "F" }, hex(pid.as_bytes()), enc_names(&names)),
            answer,
            names.len() >= 2,
        )
    };
    let want: Option<(u64, String)> = if enabled { own.iter().max_by_key(|x| x.0).cloned() } else { None };
    match got {
        None => cx.oracle_fail(i, "latest-fails-or-panics", format!("{pid:?}")),
        Some(g) => {
            let same = if tie {
                g.as_ref().and_then(|n| own_stamp(pid, n)) == want.as_ref().map(|x| x.0) && g.is_some() == want.is_some()
            } else {
                g == want.as_ref().map(|x| x.1.clone())
            };
            if !same {
                let dirs = subdirs(dir);
                let sig = match (&g, &want) {
                    (Some(n), _) if dirs.contains(n) => "latest-returns-a-directory",
                    (Some(n), _) if own_stamp(pid, n).is_none() => "latest-returns-foreign-or-other-pipelines-file",
                    (Some(_), Some(_)) => "latest-is-not-greatest-timestamp",
                    (None, Some(_)) => "latest-misses-existing-checkpoint",
                    _ => "latest-wrong",
                };
                cx.oracle_fail(i, sig, format!("latest({pid:?}) = {g:?}, expected {want:?} in {names:?}"));
            }
        }
    }
}

fn op_clear(cx: &mut Ctx, dir: &Path, pid: &str) {
    let dirs_before = subdirs(dir);
    let before_c = listing_c(dir);
    let before = names_of(&before_c);
    let r = guarded(|| manager(dir, Some(3), true).clear_checkpoints(pid));
    let after_c = listing_c(dir);
    let after = names_of(&after_c);
    let answer = match &r {
        Err(_) => "PANIC".to_string(),
        Ok(Err(_)) => "ERR clear".to_string(),
        Ok(Ok(())) => format!("OK {}", enc_names(&after)),
    };
    let i = cx.case(format!("CKPT-CLEAR pid={} dir={}", hex(pid.as_bytes()), enc_names(&before)), answer.clone(), before.len() >= 2);
    cx.count("hist:clear");
    if !matches!(r, Ok(Ok(()))) {
        cx.oracle_fail(i, "clear-fails-or-panics", answer);
        return;
    }
    for (n, c) in &before_c {
        let own = own_stamp(pid, n).is_some();
        let left = after_c.iter().find(|x| x.0 == *n);
        if own && left.is_some() {
            cx.oracle_fail(i, "clear-leaves-own-checkpoint", n.clone());
        }
        if !own && left.is_none() {
            cx.oracle_fail(i, "clear-deletes-file-of-other-pipeline-or-foreign-file", format!("clear({pid:?}) removed {n:?}"));
        }
        if let Some((_, c2)) = left {
            if c2 != c {
                cx.oracle_fail(i, "clear-changes-content-of-another-file", n.clone());
            }
        }
    }
    for n in &after {
        if !before.contains(n) {
            cx.oracle_fail(i, "clear-creates-a-file", n.clone());
        }
    }
    dirs_oracle(cx, i, &dirs_before, &subdirs(dir));
}

fn place_dir(dir: &Path, name: &str) {
    let _ = std::fs::create_dir(dir.join(name));
}
fn place(dir: &Path, name: &str) {
    let _ = std::fs::write(dir.join(name), b"foreign");
}

fn rand_ts(rng: &mut Rng) -> u64 {
    match rng.below(8) {
        0 => *rng.pick(&[0u64, 1, 9, 10, 99, 100, u64::MAX, u64::MAX - 1, 1 << 63]),
        1 => rng.next_u64(),
        _ => rng.below(40) as u64,
    }
}

/// a state for the save ; latest ; load composition: pipeline id given (it decides which files interact),
/// everything else random (unicode strings, numbers at the extremes)
fn sll_state(rng: &mut Rng, pid: &str, ts: u64) -> St {
    let max_str = if rng.chance(1, 8) { 4096 } else { 40 };
    let mut st = rand_state(rng, max_str, true, false);
    st.pid = pid.to_string();
    st.ts = ts;
    st.with_valid_checksum()
}

fn run_hist(cx: &mut Ctx) {
    // (1) design witnesses (DESIGN §8 #9)
    {
        let tmp = tmpdir();
        place(tmp.path(), "checkpoint_p_x_50.bin");
        for ts in [60u64, 70, 80] {
            op_save(cx, tmp.path(), "p", ts, Some(2), true);
        }
        let tmp2 = tmpdir();
        place(tmp2.path(), "checkpoint_q_garbage.bin");
        op_latest(cx, tmp2.path(), "q", true);
        op_save(cx, tmp2.path(), "q", 5, Some(1), true);
        op_latest(cx, tmp2.path(), "q", true);
        op_clear(cx, tmp2.path(), "q");
        // out-of-order stamps, one pipeline
        let tmp3 = tmpdir();
        for ts in [50u64, 10, 40, 20, 30, 9, 100] {
            op_save(cx, tmp3.path(), "p", ts, Some(3), true);
            op_latest(cx, tmp3.path(), "p", true);
        }
        op_latest(cx, tmp3.path(), "p", false);
        // save ; latest ; load: newer than everything, older than everything, in between, re-save of an existing
        // stamp, retention 0 / 1 / none, another pipeline's and foreign files present
        place(tmp3.path(), "checkpoint_p_x_500.bin");
        place(tmp3.path(), "checkpoint_p_garbage.bin");
        for (ts, max) in [(200u64, Some(3usize)), (1, Some(3)), (150, Some(2)), (150, Some(2)), (u64::MAX, Some(1)), (7, Some(0)), (8, None), (0, Some(1))] {
            let mut st = short_base_b();
            st.pid = "p".into();
            st.ts = ts;
            op_sll(cx, tmp3.path(), &st.with_valid_checksum(), max);
        }
        // a DIRECTORY that carries a well-formed checkpoint name is not a checkpoint: it is neither counted nor
        // returned (before the `fix:` a save with max=1 deleted the file it had just written and latest was the directory)
        let tmp5 = tmpdir();
        place_dir(tmp5.path(), "checkpoint_p_9.bin");
        op_latest(cx, tmp5.path(), "p", true);
        op_save(cx, tmp5.path(), "p", 5, Some(1), true);
        op_latest(cx, tmp5.path(), "p", true);
        op_sll(cx, tmp5.path(), &hist_st("p", 6), Some(1));
        op_save(cx, tmp5.path(), "p", 7, Some(0), true);
        place_dir(tmp5.path(), "checkpoint_p_1.bin");
        op_sll(cx, tmp5.path(), &hist_st("p", 3), Some(2));
        op_clear(cx, tmp5.path(), "p");
        // two spellings of one stamp: the save is executed and judged, the model compared on order-independent facts
        let tmp4 = tmpdir();
        place(tmp4.path(), "checkpoint_p_07.bin");
        op_save(cx, tmp4.path(), "p", 7, Some(1), true);
        op_latest(cx, tmp4.path(), "p", true);
        place(tmp4.path(), "checkpoint_p_007.bin");
        op_save(cx, tmp4.path(), "p", 3, Some(2), true);
        op_latest(cx, tmp4.path(), "p", true);
        op_save(cx, tmp4.path(), "p", 9, Some(0), true);
    }
    // (1b) every look-alike name, alone and all together, for several pipeline ids
    let mut n_look = 0usize;
    for pid in ["p", "p_x", "", "a.b", "7"] {
        let look = foreign_for(pid);
        for f in &look {
            let tmp = tmpdir();
            place(tmp.path(), f);
            op_latest(cx, tmp.path(), pid, true);
            op_save(cx, tmp.path(), pid, 1, Some(0), true);
            op_save(cx, tmp.path(), pid, 7, Some(1), true);
            op_latest(cx, tmp.path(), pid, true);
            let st = sll_state(&mut cx.rng, pid, 8);
            op_sll(cx, tmp.path(), &st, Some(1));
            op_clear(cx, tmp.path(), pid);
            n_look += 1;
        }
        let tmp = tmpdir();
        for f in &look {
            place(tmp.path(), f);
        }
        for (ts, max) in [(5u64, Some(2usize)), (3, Some(2)), (9, Some(2)), (4, Some(1)), (2, Some(0)), (6, None)] {
            op_save(cx, tmp.path(), pid, ts, max, true);
            op_latest(cx, tmp.path(), pid, true);
        }
        let st = sll_state(&mut cx.rng, pid, 7);
        op_sll(cx, tmp.path(), &st, Some(2));
        op_clear(cx, tmp.path(), pid);
    }
    cx.exhaustive_blocks.push(format!(
        "CKPT-HIST: each of the look-alike file names (non-numeric / signed / overflowing / upper-case / nested stamps, other pipelines extending the id, ...) alone in a directory x 5 pipeline ids: latest, save max=0, save max=1, latest, save;latest;load, clear ({n_look} directories, file contents carried), plus all of them together under a 6-save history"
    ));
    // (2) exhaustive small scope: all save histories of length <= L over 2 pids x 3 stamps, every max in {None,0,1,2}
    let len = if cx.tier == crate::ctx::Tier::Quick { 4 } else { 5 };
    let alphabet: Vec<(&str, u64)> = vec![("p", 1), ("p", 2), ("p", 10), ("p_x", 1), ("p_x", 2), ("p_x", 10)];
    let mut count = 0usize;
    let mut n_sll = 0usize;
    for max in [None, Some(0usize), Some(1), Some(2)] {
        let mut idx = vec![0usize; len];
        'outer: loop {
            for l in 1..=len {
                // histories are prefixes; run only full-length ones plus shorter ones once (when tail is all zero)
                if l < len && idx[l..].iter().any(|&x| x != 0) {
                    continue;
                }
                let tmp = tmpdir();
                place(tmp.path(), "checkpoint_p_zz.bin");
                for &k in &idx[..l] {
                    let (pid, ts) = alphabet[k];
                    // file contents travel with the short histories (the long ones are the bulk: names only)
                    op_save(cx, tmp.path(), pid, ts, max, l <= 3);
                }
                op_latest(cx, tmp.path(), "p", true);
                op_latest(cx, tmp.path(), "p_x", true);
                if l <= 3 {
                    // then save ; latest ; load of a state that is newer (5) / older (0) than some of what is there
                    let (pid, ts) = if count % 2 == 0 { ("p", 5) } else { ("p_x", 0) };
                    op_sll(cx, tmp.path(), &hist_st(pid, ts), max);
                    n_sll += 1;
                }
                count += 1;
            }
            let mut j = 0;
            loop {
                if j == len {
                    break 'outer;
                }
                idx[j] += 1;
                if idx[j] < alphabet.len() {
                    break;
                }
                idx[j] = 0;
                j += 1;
            }
        }
    }
    cx.exhaustive_blocks.push(format!(
        "CKPT-HIST: all save histories of length <= {len} over pipelines {{p, p_x}} x stamps {{1,2,10}} with a foreign file present, max in {{None,0,1,2}}, latest of both pipelines after each ({count} histories; those of length <= 3 with file contents and followed by a real save;latest;load: {n_sll})"
    ));
    // (2b) save ; latest ; load of random states (unicode, extremes) into small random directories
    let rounds = cx.budget(300, 6000);
    for _ in 0..rounds {
        let tmp = tmpdir();
        let dir = tmp.path();
        let pid = *cx.rng.pick(HIST_PIDS);
        let max = *cx.rng.pick(&[None, Some(0usize), Some(1), Some(2), Some(3)]);
        for _ in 0..cx.rng.below(3) {
            let look = foreign_for(pid);
            let f: String = cx.rng.pick(&look[..]).clone();
            place(dir, &f);
        }
        for _ in 0..cx.rng.below(4) {
            let other = if cx.rng.chance(2, 3) { pid } else { *cx.rng.pick(HIST_PIDS) };
            let ts = rand_ts(&mut cx.rng);
            op_save(cx, dir, other, ts, max, true);
        }
        for _ in 0..1 + cx.rng.below(3) {
            let ts = rand_ts(&mut cx.rng);
            let mut st = sll_state(&mut cx.rng, pid, ts);
            if cx.rng.chance(1, 12) {
                st.ck = rand_string(&mut cx.rng, 70, false, false);
            }
            op_sll(cx, dir, &st, max);
        }
    }
    // (2c) two spellings of one stamp (`7`, `07`, `007`): the saves and look-ups are executed and judged by the
    // oracle (bound, newest kept up to ties, foreign files untouched, latest has the greatest stamp); the model is
    // compared on the order-independent facts
    let rounds = cx.budget(150, 3000);
    for _ in 0..rounds {
        let tmp = tmpdir();
        let dir = tmp.path();
        let pid = *cx.rng.pick(HIST_PIDS);
        let mut max = *cx.rng.pick(&[None, Some(0usize), Some(1), Some(2), Some(3)]);
        for _ in 0..1 + cx.rng.below(3) {
            let zeros = "0".repeat(1 + cx.rng.below(2));
            let t = cx.rng.below(5);
            place(dir, &format!("checkpoint_{pid}_{zeros}{t}.bin"));
        }
        if cx.rng.chance(1, 2) {
            let look = foreign_for(pid);
            let f: String = cx.rng.pick(&look[..]).clone();
            place(dir, &f);
        }
        for _ in 0..2 + cx.rng.below(4) {
            match cx.rng.below(4) {
                0 => op_latest(cx, dir, pid, true),
                1 => max = *cx.rng.pick(&[None, Some(0usize), Some(1), Some(2), Some(3)]),
                _ => {
                    let ts = cx.rng.below(5) as u64;
                    op_save(cx, dir, pid, ts, max, false);
                }
            }
        }
        op_latest(cx, dir, pid, true);
    }
    // (3) random histories
    let rounds = cx.budget(1000, 20000);
    for _ in 0..rounds {
        let tmp = tmpdir();
        let dir = tmp.path();
        let npids = 1 + cx.rng.below(3);
        let pids: Vec<&str> = (0..npids).map(|_| *cx.rng.pick(HIST_PIDS)).collect();
        let mut max = *cx.rng.pick(&[None, Some(0usize), Some(1), Some(2), Some(3), Some(5)]);
        // one history in three carries the file contents through the model
        let with_content = cx.rng.chance(1, 3);
        for _ in 0..cx.rng.below(4) {
            let look = foreign_for(*cx.rng.pick(&pids));
            let f: String = cx.rng.pick(&look[..]).clone();
            place(dir, &f);
            cx.count("hist:place-foreign");
        }
        if cx.rng.chance(1, 6) {
            let ts = rand_ts(&mut cx.rng);
            place_dir(dir, &format!("checkpoint_{}_{ts}.bin", *cx.rng.pick(&pids)));
            cx.count("hist:place-directory-with-checkpoint-name");
        }
        let ops = 1 + cx.rng.below(12);
        for _ in 0..ops {
            let pid = *cx.rng.pick(&pids);
            match cx.rng.below(13) {
                0..=5 => {
                    let ts = rand_ts(&mut cx.rng);
                    op_save(cx, dir, pid, ts, max, with_content);
                }
                6 | 7 => {
                    let en = !cx.rng.chance(1, 8);
                    op_latest(cx, dir, pid, en);
                }
                8 => op_clear(cx, dir, pid),
                9 => {
                    let look = foreign_for(pid);
                    let f: String = cx.rng.pick(&look[..]).clone();
                    place(dir, &f);
                    cx.count("hist:place-foreign");
                }
                10 => {
                    // a well-formed file of a (possibly different) pipeline placed by hand, sometimes with leading zeros
                    let other = if cx.rng.chance(1, 2) { pid } else { *cx.rng.pick(HIST_PIDS) };
                    let zero = cx.rng.chance(1, 3);
                    // a second spelling of a small stamp of one of the history's own pipelines => ties do occur
                    let ts = if zero && cx.rng.chance(2, 3) { cx.rng.below(6) as u64 } else { rand_ts(&mut cx.rng) };
                    let name = if zero { format!("checkpoint_{other}_0{ts}.bin") } else { format!("checkpoint_{other}_{ts}.bin") };
                    place(dir, &name);
                    cx.count("hist:place-wellformed");
                }
                11 => {
                    let ts = rand_ts(&mut cx.rng);
                    let st = sll_state(&mut cx.rng, pid, ts);
                    op_sll(cx, dir, &st, max);
                }
                _ => {
                    max = *cx.rng.pick(&[None, Some(0usize), Some(1), Some(2), Some(3), Some(5)]);
                    cx.count("hist:change-max");
                }
            }
        }
    }
}

// ───────────────────────────── should_checkpoint (clock-free policies) ─────────────────────────────

fn run_policy(cx: &mut Ctx) {
    use std::time::{Duration, SystemTime};
    let ns: Vec<usize> = vec![0, 1, 2, 3, 5];
    let mut pols: Vec<(String, CheckpointPolicy)> = vec![("barrier".into(), CheckpointPolicy::AfterEveryBarrier)];
    for &n in &ns {
        pols.push((format!("every:{n}"), CheckpointPolicy::EveryNNodes(n)));
    }
    for secs in [0u64, 5, 10, 100] {
        pols.push((format!("time:{secs}"), CheckpointPolicy::TimeInterval(secs)));
        pols.push((format!("hybrid:T:{secs}"), CheckpointPolicy::Hybrid { barriers: true, interval_secs: secs }));
        pols.push((format!("hybrid:F:{secs}"), CheckpointPolicy::Hybrid { barriers: false, interval_secs: secs }));
    }
    // the last checkpoint time relative to "now": never / 10 s ago / 100 s in the future (clock went backwards).
    // Margins are seconds wide, the call takes microseconds, so the answers do not depend on timing.
    let lasts: Vec<&str> = vec!["none", "ago:10", "future:100"];
    for enabled in [true, false] {
        for barrier in [true, false] {
            for idx in 0..8usize {
                for (name, pol) in &pols {
                    let clocked = name.starts_with("time") || name.starts_with("hybrid");
                    for last in &lasts {
                        if !clocked && *last != "none" {
                            continue;
                        }
                        if clocked && idx > 1 {
                            continue;
                        }
                        let r = guarded(|| {
                            let mut m = CheckpointManager::new(CheckpointConfig {
                                enabled,
                                directory: std::env::temp_dir(),
                                policy: *pol,
                                auto_recover: false,
                                max_checkpoints: None,
                            })
                            .expect("manager");
                            m.last_checkpoint_time = match *last {
                                "ago:10" => Some(SystemTime::now() - Duration::from_secs(10)),
                                "future:100" => Some(SystemTime::now() + Duration::from_secs(100)),
                                _ => None,
                            };
                            m.should_checkpoint(idx, barrier, 10)
                        });
                        let a = match r {
                            Ok(true) => "T",
                            Ok(false) => "F",
                            Err(_) => "PANIC",
                        };
                        let i = cx.case(
                            format!(
                                "CKPT-POLICY en={} pol={} idx={} barrier={} last={}",
                                if enabled { "T" } else { "F" },
                                name,
                                idx,
                                if barrier { "T" } else { "F" },
                                last
                            ),
                            a.into(),
                            false,
                        );
                        cx.count("policy");
                        if a == "PANIC" {
                            cx.oracle_fail(i, "should-checkpoint-panics", name.clone());
                        }
                    }
                }
            }
        }
    }
}

pub fn run(cx: &mut Ctx) {
    // CKPT-ENC: corpus, then random states
    one_enc(cx, &short_base_a(), true);
    one_enc(cx, &short_base_b(), true);
    {
        let mut wrong = short_base_a();
        wrong.ck = "00".repeat(32);
        one_enc(cx, &wrong, true);
        for &n in NUM_EDGES {
            let s = St { idx: n, ts: n, pc: n, tn: n, ..short_base_a() }.with_valid_checksum();
            one_enc(cx, &s, true);
        }
    }
    let rounds = cx.budget(600, 8000);
    for k in 0..rounds {
        let big = cx.tier != crate::ctx::Tier::Quick && k % 100 == 0;
        let max_str = if cx.rng.chance(1, 6) { 4096 } else { 64 };
        let mut st = rand_state(&mut cx.rng, max_str, true, big);
        if cx.rng.chance(1, 10) {
            st.ck = rand_string(&mut cx.rng, 80, false, false);
        }
        one_enc(cx, &st, true);
    }
    run_dec(cx);
    run_hist(cx);
    run_policy(cx);
}
