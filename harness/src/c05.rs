//! C05 — per-key and global combines equal a fold, once per key, and always terminate.
//!
//! Classic / lifted / global entry points, built-in and user combiners, fan-out in
//! {None, 0, 1, 2, 3, parts, parts+1, 64}, empty inputs, every partition count, plus the derived
//! distinct / distinct_per_key / top_k_per_key. Runs execute under a 20 s watchdog (a fan-in loop either
//! finishes in microseconds or never). Oracle (independent of the model): the plain-vector reference fold.

use crate::ctx::Ctx;
use crate::pipe::*;

pub fn child(_args: &[String]) -> i32 {
    2
}

fn combs(total: bool) -> Vec<Comb> {
    let mut v = vec![Comb::Count, Comb::Sum, Comb::MinT, Comb::MaxT, Comb::Dset, Comb::Topk(0), Comb::Topk(2)];
    if !total { v.push(Comb::Min); v.push(Comb::Max); }
    v
}

pub fn run(cx: &mut Ctx) {
    let o = CheckOpts { par_vs_seq: true, vs_reference: true };
    // corpus: the two defects fixed in this round
    for fo in [Some(0), Some(1)] {
        let p = Prog { shape: Shape::T, src: (1..=4).map(V::I).collect(), steps: vec![Step::CombineGlobally(Comb::Sum, fo)] };
        check_prog(cx, &p, &[Mode::Seq, Mode::Par(2), Mode::Par(4)], &o);
    }
    let p = Prog { shape: Shape::KG, src: vec![V::pair(V::I(0), V::L(vec![V::I(1)])), V::pair(V::I(0), V::L(vec![V::I(2)]))], steps: vec![Step::CombineValuesLifted(Comb::Sum)] };
    check_prog(cx, &p, &[Mode::Seq, Mode::Par(2)], &o);

    // ties: values of EQUAL `to_int` but different structure. `V::cmp` / Lean `Val.le` break such ties by the
    // structural order (variant rank I < S < U < N < O < P < L, then the components) — every ordered pair
    // through Max / TopK(1), then whole tie classes through per-key / lifted / global TopK(k) so that the
    // cut falls between every two neighbours (extend path and two-pointer path of `TopK::merge`).
    {
        let s = |x: &str| V::S(x.to_string());
        let so = |v: V| V::O(Box::new(v));
        let two: Vec<V> = vec![
            V::I(2), s("bb"), s("ab"), s("b0"), V::pair(V::I(1), V::I(1)), V::pair(V::I(0), V::I(2)), V::pair(s("a"), V::I(1)),
            V::pair(V::I(1), s("a")), V::pair(V::U, V::I(2)), so(V::I(2)), so(s("bb")), so(so(V::I(2))), so(V::pair(V::I(1), V::I(1))),
            V::L(vec![V::I(7), V::I(7)]), V::L(vec![V::I(7), V::I(8)]), V::L(vec![V::I(-7), s("zz")]), V::L(vec![s(""), V::N]),
            V::L(vec![V::L(vec![]), V::U]), V::L(vec![V::L(vec![V::I(1)]), V::I(0)]), so(V::L(vec![V::N, V::U])),
        ];
        let zero: Vec<V> = vec![
            V::I(0), s(""), V::U, V::N, so(V::N), so(V::U), so(V::I(0)), V::pair(V::U, V::N), V::pair(V::N, V::U), V::pair(V::I(-1), V::I(1)),
            V::pair(V::I(1), V::I(-1)), V::L(vec![]), so(V::L(vec![])), V::pair(s(""), V::L(vec![])),
        ];
        let mut n_ties = 0;
        for class in [&two, &zero] {
            for a in class.iter() {
                for b in class.iter() {
                    for c in [Comb::MaxT, Comb::Topk(1)] {
                        let p = Prog { shape: Shape::T, src: vec![a.clone(), b.clone()], steps: vec![Step::CombineGlobally(c, None)] };
                        check_prog(cx, &p, &[Mode::Seq, Mode::Par(2)], &o);
                        n_ties += 1;
                    }
                }
            }
            let n = class.len();
            for rot in [0usize, 3, 7, 11] {
                let src: Vec<V> = (0..n).map(|i| class[(i * 5 + rot) % n].clone()).chain(class.iter().take(4).cloned()).collect();
                for k in [1usize, 2, 3, 5, 8, 13] {
                    let progs = [
                        Prog { shape: Shape::T, src: src.clone(), steps: vec![Step::KeyBy(KeyFn::Kconst(7)), Step::TopKPerKey(k)] },
                        Prog { shape: Shape::T, src: src.clone(), steps: vec![Step::KeyBy(KeyFn::Kconst(7)), Step::Gbk, Step::CombineValuesLifted(Comb::Topk(k))] },
                        Prog { shape: Shape::T, src: src.clone(), steps: vec![Step::CombineGlobally(Comb::Topk(k), Some(2))] },
                        Prog { shape: Shape::T, src: src.clone(), steps: vec![Step::CombineGloballyLifted(Comb::Topk(k), None)] },
                    ];
                    for p in &progs {
                        check_prog(cx, p, &[Mode::Seq, Mode::Par(2), Mode::Par(3), Mode::Par(7)], &o);
                        n_ties += 1;
                    }
                }
                for c in [Comb::MinT, Comb::MaxT, Comb::Min, Comb::Max] {
                    let p = Prog { shape: Shape::T, src: src.clone(), steps: vec![Step::KeyBy(KeyFn::Kconst(7)), Step::CombineValues(c)] };
                    check_prog(cx, &p, &[Mode::Seq, Mode::Par(3)], &o);
                    n_ties += 1;
                }
            }
        }
        cx.exhaustive_blocks.push(format!("tie classes (to_int = 2: {} values, to_int = 0: {} values): every ordered pair x {{MaxT, TopK(1)}} x seq/par 2; rotations x k in {{1,2,3,5,8,13}} x per-key/lifted/global/global-lifted TopK x seq + par 2,3,7; Min/Max per key ({n_ties} programs)", two.len(), zero.len()));
    }

    // exhaustive small scope: inputs 0..=5 rows x every combiner x every fan-out x partitions 1..6
    let fanouts = [None, Some(0), Some(1), Some(2), Some(3), Some(7)];
    let maxn = size_for(cx, 5, 7);
    let mut n_ex = 0;
    for n in 0..=maxn {
        let src: Vec<V> = (0..n as i64).map(|i| V::I((i * 7 + 3) % 5)).collect();
        for c in combs(true) {
            for fo in fanouts {
                for lifted in [false, true] {
                    let step = if lifted { Step::CombineGloballyLifted(c.clone(), fo) } else { Step::CombineGlobally(c.clone(), fo) };
                    let p = Prog { shape: Shape::T, src: src.clone(), steps: vec![step] };
                    let modes: Vec<Mode> = std::iter::once(Mode::Seq).chain((1..=(n + 1).min(6)).map(Mode::Par)).collect();
                    check_prog(cx, &p, &modes, &o);
                    n_ex += 1;
                }
            }
        }
        let ksrc: Vec<V> = (0..n as i64).map(|i| V::pair(V::I(i % 2), V::I((i * 7 + 3) % 5))).collect();
        for c in combs(false) {
            let p = Prog { shape: Shape::KV, src: ksrc.clone(), steps: vec![Step::CombineValues(c.clone())] };
            let modes: Vec<Mode> = std::iter::once(Mode::Seq).chain((1..=(n + 1).min(6)).map(Mode::Par)).collect();
            check_prog(cx, &p, &modes, &o);
            n_ex += 1;
        }
        for c in combs(true) {
            let p = Prog { shape: Shape::KV, src: ksrc.clone(), steps: vec![Step::Gbk, Step::CombineValuesLifted(c.clone())] };
            check_prog(cx, &p, &[Mode::Seq, Mode::Par(2), Mode::Par(3)], &o);
            n_ex += 1;
        }
    }
    cx.exhaustive_blocks.push(format!("inputs of 0..={maxn} rows x all combiners x fan-out {{None,0,1,2,3,7}} x classic/lifted x seq + par 1..min(n+1,6) ({n_ex} programs)"));

    // combines over a streamed file source incl. the empty file (zero partitions reach the barrier)
    for n in [0usize, 1, 6] {
        let src: Vec<V> = (0..n as i64).map(|i| V::pair(V::I(i % 2), V::I(i + 1))).collect();
        for per in [0usize, 2, 100] {
            for steps in [vec![Step::CombineValues(Comb::Sum)], vec![Step::Gbk, Step::CombineValuesLifted(Comb::Count)],
                          vec![Step::Values, Step::CombineGlobally(Comb::Sum, Some(1))], vec![Step::Values, Step::CombineGloballyLifted(Comb::MaxT, None)], vec![Step::Values, Step::Distinct]] {
                let p = Prog { shape: Shape::KV, src: src.clone(), steps };
                check_prog_file(cx, &p, per, &[Mode::Seq, Mode::Par(1), Mode::Par(3)], &o);
            }
        }
    }

    // large partitions (above the planner's 64k rows/partition target), oracle only
    {
        let n = if cx.tier == crate::ctx::Tier::Quick { 70_001 } else { 140_003 };
        let src = large_keyed_source(n, 13);
        for steps in [vec![Step::CombineValues(Comb::Sum)], vec![Step::CombineValues(Comb::Topk(3))], vec![Step::Gbk, Step::CombineValuesLifted(Comb::Count)],
                      vec![Step::Values, Step::CombineGlobally(Comb::Sum, Some(2))], vec![Step::Values, Step::Distinct]] {
            let p = Prog { shape: Shape::KV, src: src.clone(), steps };
            check_prog_oracle_only(cx, &p, &format!("rows={n} keys=13"), &[Mode::Seq, Mode::Par(1), Mode::Par(2), Mode::Par(64)]);
        }
    }

    // random: a reorder-inert prefix, then a combine entry point (classic / lifted on raw grouped input with
    // repeated keys / global / derived), then maybe a suffix
    let rounds = cx.budget(350, 8000);
    let mut done = 0;
    while done < rounds {
        let target = *cx.rng.pick(&[Shape::T, Shape::KV, Shape::KV, Shape::KG]);
        let opts = GenOpts { max_steps: 4, max_rows: cx.budget(30, 150), barriers: target == Shape::KG || done % 4 == 0, joins: false, globals: false, nonlocal_batches: false };
        let mut p = if target == Shape::KG && cx.rng.chance(1, 2) {
            // raw grouped input: a key may repeat
            Prog { shape: Shape::KG, src: gen_rows(&mut cx.rng, Shape::KG, opts.max_rows.min(12)), steps: vec![] }
        } else {
            gen_prog_to(&mut cx.rng, &opts, target, 0)
        };
        if !reorder_inert(&p) { continue; }
        let parts = 1 + cx.rng.below(6);
        let sh = p.steps.iter().fold(Some(p.shape), |s, st| s.and_then(|s| shape_after(s, st)));
        let step = match sh {
            Some(Shape::T) => match cx.rng.below(4) {
                0 => Step::Distinct,
                1 => Step::CombineGloballyLifted(gen_comb(&mut cx.rng, true), gen_fanout(&mut cx.rng, parts)),
                _ => Step::CombineGlobally(gen_comb(&mut cx.rng, true), gen_fanout(&mut cx.rng, parts)),
            },
            Some(Shape::KV) => match cx.rng.below(5) { 0 => Step::DistinctPerKey, 1 => Step::TopKPerKey(cx.rng.below(4)), _ => Step::CombineValues(gen_comb(&mut cx.rng, false)) },
            Some(Shape::KG) => Step::CombineValuesLifted(gen_comb(&mut cx.rng, true)),
            None | Some(Shape::R) => continue,
        };
        p.steps.push(step);
        let choices = partition_choices(p.src.len());
        let modes = vec![Mode::Seq, Mode::Par(parts), Mode::Par(*cx.rng.pick(&choices))];
        check_prog(cx, &p, &modes, &o);
        done += 1;
    }
}
