//! C05 — per-key and global combines equal a fold, once per key, and always terminate.
//!
//! Classic / lifted / global entry points, built-in and user combiners, fan-out in
//! {None, 0, 1, 2, 3, parts, parts+1, 64}, empty inputs, every partition count, plus the derived
//! distinct / distinct_per_key / top_k_per_key. Runs execute under a 20 s watchdog (a fan-in loop either
//! finishes in microseconds or never). Oracle (independent of the model): the plain-vector reference fold.

use crate::ctx::Ctx;
use crate::pipe::*;

/// `ibh child c05 <block> <seed> <tier> <start>`: the child-process blocks of the pipeline family (`pipe_x.rs`)
pub fn child(args: &[String]) -> i32 {
    crate::pipe_x::child(args)
}

fn combs(total: bool) -> Vec<Comb> {
    let mut v = vec![Comb::Count, Comb::Sum, Comb::MinT, Comb::MaxT, Comb::Dset, Comb::Topk(0), Comb::Topk(2)];
    if !total { v.push(Comb::Min); v.push(Comb::Max); }
    v
}

pub fn run(cx: &mut Ctx) {
    let o = CheckOpts { par_vs_seq: true, vs_reference: true };
    // corpus: the two defects fixed in this round
    for fo in [Some(0), Some(1)] {
        let p = Prog { shape: Shape::T, src: (1..=4).map(V::I).collect(), steps: vec![Step::CombineGlobally(Comb::Sum, fo)] };
        check_prog(cx, &p, &[Mode::Seq, Mode::Par(2), Mode::Par(4)], &o);
    }
    let p = Prog { shape: Shape::KG, src: vec![V::pair(V::I(0), V::L(vec![V::I(1)])), V::pair(V::I(0), V::L(vec![V::I(2)]))], steps: vec![Step::CombineValuesLifted(Comb::Sum)] };
    check_prog(cx, &p, &[Mode::Seq, Mode::Par(2)], &o);

    // (the lawful NON-commutative combiner `ULast` is outside C05's "associative and commutative" clause: it is exercised
    // by C01 (seq = par) and C03 (lifted = literal), not judged here)
    // a legal `Hash` far coarser than `Eq` on the key / element type
    let n = cx.budget(80, 800);
    crate::pipe::coarse_hash_cases(cx, n, &o);

    // ties: values of EQUAL `to_int` but different structure. `V::cmp` / Lean `Val.le` break such ties by the
    // structural order (variant rank I < S < U < N < O < P < L, then the components) — every ordered pair
    // through Max / TopK(1), then whole tie classes through per-key / lifted / global TopK(k) so that the
    // cut falls between every two neighbours (extend path and two-pointer path of `TopK::merge`).
    {
        let s = |x: &str| V::S(x.to_string());
        let so = |v: V| V::O(Box::new(v));
        let two: Vec<V> = vec![
            V::I(2), s("bb"), s("ab"), s("b0"), V::pair(V::I(1), V::I(1)), V::pair(V::I(0), V::I(2)), V::pair(s("a"), V::I(1)),
            V::pair(V::I(1), s("a")), V::pair(V::U, V::I(2)), so(V::I(2)), so(s("bb")), so(so(V::I(2))), so(V::pair(V::I(1), V::I(1))),
            V::L(vec![V::I(7), V::I(7)]), V::L(vec![V::I(7), V::I(8)]), V::L(vec![V::I(-7), s("zz")]), V::L(vec![s(""), V::N]),
            V::L(vec![V::L(vec![]), V::U]), V::L(vec![V::L(vec![V::I(1)]), V::I(0)]), so(V::L(vec![V::N, V::U])),
        ];
        let zero: Vec<V> = vec![
            V::I(0), s(""), V::U, V::N, so(V::N), so(V::U), so(V::I(0)), V::pair(V::U, V::N), V::pair(V::N, V::U), V::pair(V::I(-1), V::I(1)),
            V::pair(V::I(1), V::I(-1)), V::L(vec![]), so(V::L(vec![])), V::pair(s(""), V::L(vec![])),
        ];
        let mut n_ties = 0;
        for class in [&two, &zero] {
            for a in class.iter() {
                for b in class.iter() {
                    for c in [Comb::MaxT, Comb::Topk(1)] {
                        let p = Prog { shape: Shape::T, src: vec![a.clone(), b.clone()], steps: vec![Step::CombineGlobally(c, None)] };
                        check_prog(cx, &p, &[Mode::Seq, Mode::Par(2)], &o);
                        n_ties += 1;
                    }
                }
            }
            let n = class.len();
            for rot in [0usize, 3, 7, 11] {
                let src: Vec<V> = (0..n).map(|i| class[(i * 5 + rot) % n].clone()).chain(class.iter().take(4).cloned()).collect();
                for k in [1usize, 2, 3, 5, 8, 13] {
                    let progs = [
                        Prog { shape: Shape::T, src: src.clone(), steps: vec![Step::KeyBy(KeyFn::Kconst(7)), Step::TopKPerKey(k)] },
                        Prog { shape: Shape::T, src: src.clone(), steps: vec![Step::KeyBy(KeyFn::Kconst(7)), Step::Gbk, Step::CombineValuesLifted(Comb::Topk(k))] },
                        Prog { shape: Shape::T, src: src.clone(), steps: vec![Step::CombineGlobally(Comb::Topk(k), Some(2))] },
                        Prog { shape: Shape::T, src: src.clone(), steps: vec![Step::CombineGloballyLifted(Comb::Topk(k), None)] },
                    ];
                    for p in &progs {
                        check_prog(cx, p, &[Mode::Seq, Mode::Par(2), Mode::Par(3), Mode::Par(7)], &o);
                        n_ties += 1;
                    }
                }
                for c in [Comb::MinT, Comb::MaxT, Comb::Min, Comb::Max] {
                    let p = Prog { shape: Shape::T, src: src.clone(), steps: vec![Step::KeyBy(KeyFn::Kconst(7)), Step::CombineValues(c)] };
                    check_prog(cx, &p, &[Mode::Seq, Mode::Par(3)], &o);
                    n_ties += 1;
                }
            }
        }
        cx.exhaustive_blocks.push(format!("tie classes (to_int = 2: {} values, to_int = 0: {} values): every ordered pair x {{MaxT, TopK(1)}} x seq/par 2; rotations x k in {{1,2,3,5,8,13}} x per-key/lifted/global/global-lifted TopK x seq + par 2,3,7; Min/Max per key ({n_ties} programs)", two.len(), zero.len()));
    }

    // exhaustive small scope: inputs 0..=5 rows x every combiner x every fan-out x partitions 1..6
    let fanouts = [None, Some(0), Some(1), Some(2), Some(3), Some(7)];
    let maxn = size_for(cx, 5, 7);
    let mut n_ex = 0;
    for n in 0..=maxn {
        let src: Vec<V> = (0..n as i64).map(|i| V::I((i * 7 + 3) % 5)).collect();
        for c in combs(true) {
            for fo in fanouts {
                for lifted in [false, true] {
                    let step = if lifted { Step::CombineGloballyLifted(c.clone(), fo) } else { Step::CombineGlobally(c.clone(), fo) };
                    let p = Prog { shape: Shape::T, src: src.clone(), steps: vec![step] };
                    let modes: Vec<Mode> = std::iter::once(Mode::Seq).chain((1..=(n + 1).min(6)).map(Mode::Par)).collect();
                    check_prog(cx, &p, &modes, &o);
                    n_ex += 1;
                }
            }
        }
        let ksrc: Vec<V> = (0..n as i64).map(|i| V::pair(V::I(i % 2), V::I((i * 7 + 3) % 5))).collect();
        for c in combs(false) {
            let p = Prog { shape: Shape::KV, src: ksrc.clone(), steps: vec![Step::CombineValues(c.clone())] };
            let modes: Vec<Mode> = std::iter::once(Mode::Seq).chain((1..=(n + 1).min(6)).map(Mode::Par)).collect();
            check_prog(cx, &p, &modes, &o);
            n_ex += 1;
        }
        for c in combs(true) {
            let p = Prog { shape: Shape::KV, src: ksrc.clone(), steps: vec![Step::Gbk, Step::CombineValuesLifted(c.clone())] };
            check_prog(cx, &p, &[Mode::Seq, Mode::Par(2), Mode::Par(3)], &o);
            n_ex += 1;
        }
    }
    cx.exhaustive_blocks.push(format!("inputs of 0..={maxn} rows x all combiners x fan-out {{None,0,1,2,3,7}} x classic/lifted x seq + par 1..min(n+1,6) ({n_ex} programs)"));

    // engine / generator breadth (pipe_wide.rs, pipe_injoin.rs): the fan-out domain beyond 64 (huge fan-outs in a child
    // process under an address-space limit — "terminates for every fan-out"), every combine kind inside either join side
    // (the sub-plan runner has its own fan-in loop), built-in Min/Max on the global / lifted entry points behind emptied
    // partitions, wide plans (65..256 partitions), user combiners with non-`Option` accumulators
    {
        use crate::pipe_wide::WideKind as W;
        let xo = crate::pipe_x::XOpts::of(&o);
        crate::pipe_wide::fanout_block(cx, &xo);
        crate::pipe_injoin::injoin_block(cx, &crate::pipe_injoin::combine_side_barriers(), cx.budget(3, 4), &xo);
        crate::pipe_wide::minmax_block(cx, &xo);
        crate::pipe_wide::wide_block(cx, &[W::CvSum, W::CvCount, W::CvTopk, W::CvUser, W::Lifted, W::LiftedRaw, W::Global, W::GlobalLifted, W::Distinct, W::DistinctPerKey, W::JoinGbkSides], cx.budget(12, 60), &xo);
        crate::pipe_wide::many_keys_case(cx, vec![Step::CombineValues(Comb::Sum)], &[Mode::Seq, Mode::Par(2), Mode::Par(200)]);
        crate::pipe_wide::many_keys_case(cx, vec![Step::Gbk, Step::CombineValuesLifted(Comb::Topk(2))], &[Mode::Seq, Mode::Par(256)]);
        user_combiner_block(cx, &xo);
        large_k_block(cx, &xo);
    }

    // combines over a streamed file source incl. the empty file (zero partitions reach the barrier)
    for n in [0usize, 1, 6] {
        let src: Vec<V> = (0..n as i64).map(|i| V::pair(V::I(i % 2), V::I(i + 1))).collect();
        for per in [0usize, 2, 100] {
            for steps in [vec![Step::CombineValues(Comb::Sum)], vec![Step::Gbk, Step::CombineValuesLifted(Comb::Count)],
                          vec![Step::Values, Step::CombineGlobally(Comb::Sum, Some(1))], vec![Step::Values, Step::CombineGloballyLifted(Comb::MaxT, None)], vec![Step::Values, Step::Distinct]] {
                let p = Prog { shape: Shape::KV, src: src.clone(), steps };
                check_prog_file(cx, &p, per, &[Mode::Seq, Mode::Par(1), Mode::Par(3)], &o);
            }
        }
    }

    // large partitions (above the planner's 64k rows/partition target), oracle only
    {
        let n = if cx.tier == crate::ctx::Tier::Quick { 70_001 } else { 140_003 };
        let src = large_keyed_source(n, 13);
        for steps in [vec![Step::CombineValues(Comb::Sum)], vec![Step::CombineValues(Comb::Topk(3))], vec![Step::Gbk, Step::CombineValuesLifted(Comb::Count)],
                      vec![Step::Values, Step::CombineGlobally(Comb::Sum, Some(2))], vec![Step::Values, Step::Distinct]] {
            let p = Prog { shape: Shape::KV, src: src.clone(), steps };
            check_prog_oracle_only(cx, &p, &format!("rows={n} keys=13"), &[Mode::Seq, Mode::Par(1), Mode::Par(2), Mode::Par(64)]);
        }
    }

    // random: a reorder-inert prefix, then a combine entry point (classic / lifted on raw grouped input with
    // repeated keys / global / derived), then maybe a suffix
    let rounds = cx.budget(350, 8000);
    let mut done = 0;
    while done < rounds {
        let target = *cx.rng.pick(&[Shape::T, Shape::KV, Shape::KV, Shape::KG]);
        let opts = GenOpts { max_steps: 4, max_rows: cx.budget(30, 150), barriers: target == Shape::KG || done % 4 == 0, joins: false, globals: false, nonlocal_batches: false };
        let mut p = if target == Shape::KG && cx.rng.chance(1, 2) {
            // raw grouped input: a key may repeat
            Prog { shape: Shape::KG, src: gen_rows(&mut cx.rng, Shape::KG, opts.max_rows.min(12)), steps: vec![] }
        } else {
            gen_prog_to(&mut cx.rng, &opts, target, 0)
        };
        if !reorder_inert(&p) { continue; }
        let parts = 1 + cx.rng.below(6);
        let sh = p.steps.iter().fold(Some(p.shape), |s, st| s.and_then(|s| shape_after(s, st)));
        let step = match sh {
            Some(Shape::T) => match cx.rng.below(4) {
                0 => Step::Distinct,
                1 => Step::CombineGloballyLifted(gen_comb(&mut cx.rng, true), gen_fanout(&mut cx.rng, parts)),
                _ => Step::CombineGlobally(gen_comb(&mut cx.rng, true), gen_fanout(&mut cx.rng, parts)),
            },
            Some(Shape::KV) => match cx.rng.below(5) { 0 => Step::DistinctPerKey, 1 => Step::TopKPerKey(cx.rng.below(4)), _ => Step::CombineValues(gen_comb(&mut cx.rng, false)) },
            Some(Shape::KG) => Step::CombineValuesLifted(gen_comb(&mut cx.rng, true)),
            None | Some(Shape::R) => continue,
        };
        p.steps.push(step);
        let choices = partition_choices(p.src.len());
        let modes = vec![Mode::Seq, Mode::Par(parts), Mode::Par(*cx.rng.pick(&choices))];
        check_prog(cx, &p, &modes, &o);
        done += 1;
    }
}

/// USER combiners with non-`Option` accumulators (`pipe_ucomb.rs`: (sum mod m, count) pair, sorted-Vec union, max by
/// (|x|, x) in a one-slot Vec) on every entry point, exhaustive small scope + ties, next to `MinT` / `MaxT`
fn user_combiner_block(cx: &mut Ctx, o: &crate::pipe_x::XOpts) {
    use crate::pipe_x::{check_prog_x, XMode};
    let ucs = |i: usize| -> Vec<Comb> { vec![Comb::USumMod(1 + (i as i64 % 7)), Comb::UUnion, Comb::UMaxAbs] };
    let mut n = 0;
    for len in 0..=cx.budget(5, 7) {
        let src: Vec<V> = (0..len as i64).map(|i| V::I((i * 7 + 3) % 9 - 4)).collect();
        let ksrc: Vec<V> = (0..len as i64).map(|i| V::pair(V::I(i % 2), V::I((i * 5 + 1) % 7 - 3))).collect();
        let modes: Vec<XMode> = std::iter::once(XMode::Seq).chain((1..=(len + 1).min(6)).map(XMode::Par)).collect();
        for c in ucs(len) {
            for fo in [None, Some(0), Some(1), Some(2), Some(3)] {
                for lifted in [false, true] {
                    let step = if lifted { Step::CombineGloballyLifted(c.clone(), fo) } else { Step::CombineGlobally(c.clone(), fo) };
                    check_prog_x(cx, &Prog { shape: Shape::T, src: src.clone(), steps: vec![step] }, &modes, o);
                    n += 1;
                }
            }
            check_prog_x(cx, &Prog { shape: Shape::KV, src: ksrc.clone(), steps: vec![Step::CombineValues(c.clone())] }, &modes, o);
            check_prog_x(cx, &Prog { shape: Shape::KV, src: ksrc.clone(), steps: vec![Step::Gbk, Step::CombineValuesLifted(c.clone())] }, &[XMode::Seq, XMode::Par(2), XMode::Par(3)], o);
            // raw grouped input: repeated keys, empty groups
            let g: Vec<V> = (0..len as i64).map(|i| V::pair(V::I(i % 2), V::L((0..(i % 3)).map(|j| V::I(i - j * 2)).collect()))).collect();
            check_prog_x(cx, &Prog { shape: Shape::KG, src: g, steps: vec![Step::CombineValuesLifted(c.clone())] }, &[XMode::Seq, XMode::Par(2), XMode::Par(3)], o);
            n += 3;
        }
    }
    // ties of |x| and of to_int between structurally different values (max-by-abs must pick by the total order)
    let tie: Vec<V> = vec![V::I(2), V::I(-2), V::S("ab".into()), V::pair(V::I(1), V::I(1)), V::pair(V::I(-1), V::I(-1)), V::L(vec![V::I(7), V::I(7)]), V::I(-2), V::S("ab".into())];
    for rot in 0..tie.len() {
        let src: Vec<V> = (0..tie.len()).map(|i| tie[(i + rot) % tie.len()].clone()).collect();
        for c in [Comb::UMaxAbs, Comb::UUnion, Comb::USumMod(3)] {
            check_prog_x(cx, &Prog { shape: Shape::T, src: src.clone(), steps: vec![Step::CombineGlobally(c.clone(), Some(2))] }, &[XMode::Seq, XMode::Par(2), XMode::Par(3), XMode::Par(8)], o);
            check_prog_x(cx, &Prog { shape: Shape::T, src: src.clone(), steps: vec![Step::KeyBy(KeyFn::Kmod(2)), Step::CombineValues(c.clone())] }, &[XMode::Seq, XMode::Par(3)], o);
            n += 2;
        }
    }
    cx.exhaustive_blocks.push(format!("user combiners (sum mod m, count) / sorted-Vec union / max-by-(|x|,x): inputs of 0..={} rows x fan-out {{None,0,1,2,3}} x classic/lifted global x per-key classic / lifted after gbk / lifted on raw groups x seq + par 1..6; tie rotations ({n} programs)", cx.budget(5, 7)));
}

/// `top_k_per_key(k)` / `TopK::new(k)` for k beyond 13: k around and far above the number of values, `usize::MAX`
/// (the `len1 + len2 <= k` extend path for every merge; `BinaryHeap::with_capacity(k)` is only reached when k is
/// smaller than the data)
fn large_k_block(cx: &mut Ctx, o: &crate::pipe_x::XOpts) {
    use crate::pipe_x::{check_prog_x, XMode};
    let mut n = 0;
    for (i, k) in [14usize, 16, 23, 24, 25, 64, 1000, u32::MAX as usize, usize::MAX - 1, usize::MAX].into_iter().enumerate() {
        let len = 24 + i;
        let src: Vec<V> = (0..len as i64).map(|j| V::pair(V::I(j % 2), V::I((j * 11 + 5) % 17 - 6))).collect();
        for steps in [vec![Step::TopKPerKey(k)], vec![Step::CombineValues(Comb::Topk(k))], vec![Step::Gbk, Step::CombineValuesLifted(Comb::Topk(k))],
                      vec![Step::Values, Step::CombineGlobally(Comb::Topk(k), Some(2))], vec![Step::Values, Step::CombineGloballyLifted(Comb::Topk(k), None)]] {
            check_prog_x(cx, &Prog { shape: Shape::KV, src: src.clone(), steps }, &[XMode::Seq, XMode::Par(2), XMode::Par(5), XMode::Par(len)], o);
            n += 1;
        }
    }
    cx.exhaustive_blocks.push(format!("TopK with k in {{14,16,23,24,25,64,1000,u32::MAX,usize::MAX-1,usize::MAX}} on 24..33 rows over 2 keys: top_k_per_key / combine_values / lifted after gbk / global fan-out 2 / global lifted x seq + par 2,5,len ({n} programs)"));
}
